"""Per-property job tables for ./check (what to build, what to run, how deep per tier)."""

HOOK_COMMITS = ["736bf48", "2170c4f"]

# Properties not (yet) claimed. Kept current as checks land.
NOT_APPLICABLE = {}

TREE_ASSUME = ["verif hook VerifShape is a faithful read-only walk of the real nodes (container/tree/verif_export.go)",
               "reference model treekit.Model (sorted slice + sort.Search) is correct",
               "rapid v1.3.0 generator/shrinker; go1.26.8 toolchain; files guarded by !go1.21 are not compiled"]

C12_BUBBLE_TESTS = "TestChansMerge$|TestReplicate$|TestStreamMerge$|TestChansMergeInterfaceValues|TestStreamMergeSimultaneousEnd|TestChansMergeSharedInput|TestStreamMergeErrorStorm|TestReplicateInterfaceValues|TestStreamMergeWide|TestStreamMergeErrorBusySiblings"

CHECKS = {
    "C01": {
        "level": "exploration",
        "level_text": ("Model-based property testing of tree.Map and tree.Set over 3 key types x 5 strict weak orders (incl. coarse orders with "
                       "distinct-but-equivalent keys) x less/cmp/arbitrary-magnitude cmp construction: generated histories with macro fills "
                       "(up to 2000/5000 keys, asc/desc/sawtooth/shuffled) and targeted drains are compared call by call with a sorted-slice "
                       "model, through two copies of the Map/Set value; the concurrent clause runs generated writer/reader partitions under the "
                       "Go race detector. Holds on everything explored; not a proof"),
        "level_note": "Trusts the reference model, the verif hook only for classification labels (height), rapid, the Go race detector's happens-before analysis for the executed schedules.",
        "technique": "stateful property-based testing (rapid) against a reference model; race-detector runs for the concurrent clause",
        "rule": ("rapid-generated plans: optional prefill + 1-60 ops (Put/Delete/Get/Contains/Len/First/Last/Iterate/Range/RangeReverse with all bound kinds and "
                 "state-relative keys, macro Fill/Drain/ShapeDrain); every call's result compared with the model, full observation every 8th op and at the end. "
                 "non-trivial = tree reached height >= 2 AND a present key was deleted AND a bounded range query ran; distinct = distinct plan JSON. "
                 "kind 'concurrent' = generated (tree size, writer/reader key partition) run under -race"),
        "assumptions": TREE_ASSUME,
        "jobs": [{"pkg": "c01tree", "run": "TestTreeModel", "kinds": ["treeplan"], "shards_quick": 4, "scale_quick": 0.3, "scale_thorough": 3, "shards_thorough": 16, "fuzz": [("FuzzTreeModel", "treeplan")]},
                 {"pkg": "c01tree", "run": "TestConcurrent", "race": True, "kinds": ["concurrent"], "shards_quick": 2, "scale_quick": 0.5,
                  "scale_thorough": 3, "shards_thorough": 8}],
    },
    "C02": {
        "level": "exploration",
        "level_text": ("Generated interleavings of Next calls on up to 4 simultaneously live forward/reverse iterators (all bound kinds) with Put/Delete and bulk "
                       "mutations aimed at the iterator's position (last yielded key, the key the cursor is parked on, the gap between them, just beyond, far, outside), "
                       "on trees of height 1-4; each Next is judged against history invariants: no panic, in bounds, strictly monotone, present now with current value, "
                       "sticky end, no stable key skipped, inserted-beyond-next-yield obligation, comparator-call budget (no spin)"),
        "level_note": "Trusts the reference model and the obligation bookkeeping in c02iter (rules 1-8 of DESIGN.md C02); hook used only to classify structural events; infinite loops that make no comparator call show up as a deadline (exit 2), not a violation.",
        "technique": "stateful property-based testing (rapid): history invariants over generated Next/mutation interleavings",
        "rule": ("rapid-generated plans: 0-2 prefills, then 2-81 steps (Open/Next/Put/Delete/DeleteRange/InsertRun/DrainAllBut/DeleteAll) with position-relative keys; all live iterators are "
                 "drained at the end. non-trivial = a mutation that changed node count or height happened while some iterator was live, un-exhausted and had yielded at least once; distinct = distinct plan JSON"),
        "assumptions": TREE_ASSUME,
        "jobs": [{"pkg": "c02iter", "kinds": ["iterplan"], "shards_quick": 4, "scale_quick": 0.5, "scale_thorough": 8, "shards_thorough": 16, "fuzz": [("FuzzIterUnderMutation", "iterplan")]}],
    },
    "C03": {
        "level": "exploration",
        "level_text": ("The C01 histories plus shape-aimed drains (steal-left/right, merge, cascades, internal separators chosen from the hook's "
                       "read-only view) with a full structural walk after every elementary insert/delete: ordering, occupancy 7..15, child counts, parent links, "
                       "uniform leaf depth, cleared vacated slots, key count == Len, depth <= 1+floor(log8((n+1)/2)); plus comparator-call bounds on every Get/Contains"),
        "level_note": "Trusts the read-only verif hook walk (container/tree/verif_export.go), the integer depth bound in treekit.LevelsBound, rapid.",
        "technique": "stateful property-based testing (rapid) with a structural invariant checker after every step",
        "rule": ("same generator as C01 with the structural walk enabled (every elementary op up to 600 keys, every 16th above, always at op boundaries); "
                 "non-trivial = a node merge was observed (node count dropped) on a tree that reached height >= 3; distinct = distinct plan JSON"),
        "assumptions": TREE_ASSUME,
        "jobs": [{"pkg": "c03shape", "run": "TestTreeHuge", "kinds": ["tree-huge"], "shards_quick": 4, "scale_thorough": 4, "shards_thorough": 8},
                 {"pkg": "c03shape", "run": "TestTreeShape", "kinds": ["shapeplan"], "shards_quick": 4, "scale_quick": 0.25, "scale_thorough": 2, "shards_thorough": 16, "fuzz": [("FuzzTreeShape", "shapeplan")]}],
    },
    "C05": {
        "level": "exploration",
        "level_text": ("Model-based property testing: generated Push/Pop/Peek/Grow/Shrink/Iterate histories on xheap.Heap (tie-heavy priorities, 3 orders, less- and cmp-constructed, "
                       "generated initial slices) against a multiset with an 'any minimum' validity predicate; generated Update/Remove/Pop/... histories on PriorityQueue with keys chosen by heap "
                       "position (root/last/inner/leaf) and priorities moved lower/equal/higher, against a key->priority map with a full observation after every op"),
        "level_note": "Trusts the multiset/map models in c05heap, rapid; which duplicate wins at construction is left open as the documentation does.",
        "technique": "stateful property-based testing (rapid) against a reference model with a validity predicate for ties",
        "rule": ("kinds: 'heap' (1-60 ops after a 0-40 element initial slice) and 'queue' (universe 1-24 keys, initial list with duplicate keys, 1-60 ops). non-trivial: heap = a Pop after a Push after a Pop; "
                 "queue = an Update/Remove of a key at an inner or leaf heap position followed by >= 2 Pops, with a priority tie present at some Pop; distinct = distinct plan JSON"),
        "assumptions": ["models in c05heap are correct", "rapid v1.3.0; go1.26.8"],
        "jobs": [{"pkg": "c05heap", "kinds": ["heap", "queue", "queue-huge", "queue-nan-keys"], "scale_thorough": 10, "shards_thorough": 16}],
    },
    "C06": {
        "level": "exploration",
        "level_text": ("Model-based property testing: generated histories of all 10 list operations with node/mark handles chosen by explicit position classes (same node, adjacent in either order, "
                       "opposite ends, either at an end, singleton, random), including re-growth after Clear and after removing every node; after every op both walks, Len, end links, handle identity and Values "
                       "are compared with a slice-of-handles model, walks bounded so that a cycle is a violation not a hang"),
        "level_note": "Trusts the slice-of-handles model in c06list and rapid; only handles currently in the list are used (documented precondition).",
        "technique": "stateful property-based testing (rapid) against a reference model",
        "rule": ("plans of 1-60 ops from the zero value; non-trivial = a MoveBefore/MoveAfter with node and mark adjacent or at opposite ends on a list of length >= 3 after at least one Remove; distinct = distinct plan JSON"),
        "assumptions": ["slice model in c06list is correct", "rapid v1.3.0; go1.26.8"],
        "jobs": [{"pkg": "c06list", "run": "TestListClearWrap", "kinds": ["list-clear-wrap"], "scale_thorough": 4, "shards_thorough": 4},
                 {"pkg": "c06list", "run": "TestList$|TestListUnderGC", "kinds": ["list", "list-gc"], "scale_thorough": 10, "shards_thorough": 16},
                 {"pkg": "c06list", "race": True, "run": "TestListValueRace", "kinds": ["list-value-race"], "scale_thorough": 5, "shards_thorough": 4}],
    },
    "C15": {
        "level": "exploration",
        "level_text": ("Generated container state x iterator position x mid-iteration operation(s) for Deque, Heap and PriorityQueue iterators, judged by a snapshot-or-panic oracle: "
                       "everything returned is a prefix of the contents at Iterate() or at the first Next, exhaustion only after a whole snapshot, a panic only after some mutating call, and a mandatory panic "
                       "on the first Next after an element was added/removed once iteration is under way"),
        "level_note": "Trusts the oracle in c15snap; Grow/Shrink/Set/Update-of-present are treated leniently (either a correct continuation or a panic is accepted), as the property does.",
        "technique": "property-based testing (rapid) with a snapshot-prefix-or-panic oracle",
        "rule": ("kinds deque-iter/heap-iter/queue-iter: generated setup (wrapped/full/exactly-fitting/single/empty states), optional op before the first Next, J Next calls, 0-3 mid-iteration ops, then Next until end or panic. "
                 "non-trivial = 0 < J < len (iterator strictly inside the snapshot) and at least one mid op that was not a no-op; distinct = distinct plan JSON"),
        "assumptions": ["oracle in c15snap", "rapid v1.3.0; go1.26.8"],
        "jobs": [{"pkg": "c15snap", "kinds": ["deque-iter", "heap-iter", "queue-iter"], "scale_thorough": 10, "shards_thorough": 16}],
    },
    "C07": {
        "level": "exploration",
        "level_text": ("Generated inputs (empty, singleton, all-equal, alternating, singleton runs at either edge, long runs), generated predicate/equivalence outcome tables and boundary parameters for every "
                       "iterator/stream combinator and reducer; each case is run through the iterator version, the stream version and (where it exists) the xslices version and compared with an independent slice "
                       "interpreter; recording sources bound how many items were pulled after every response (laziness) and every end is pulled again 1-3 times (sticky end); random pipelines compose them"),
        "level_note": "Trusts the slice interpreter and need(j) model in c07comb; chunk sizes < 1, negative n for First/Last and non-equivalence eq/same relations are outside the documented domain and not generated.",
        "technique": "property-based differential testing (rapid): iterator vs stream vs xslices vs reference interpreter, with pull-count instrumentation",
        "rule": ("kinds: 'single' (one combinator/reducer, one consumer behaviour), 'pipeline' (chain of 1-4 stages + reducer), 'ctor' (constructors). non-trivial = input length >= 2 and a boundary is exercised "
                 "(parameter in {0,len-1,len,len+1}, singleton run at an edge, source ends on a chunk boundary, a pull after the end, or pipeline depth >= 2); distinct = distinct case JSON"),
        "assumptions": ["reference interpreter in c07comb", "rapid v1.3.0; go1.26.8"],
        "jobs": [{"pkg": "c07comb", "kinds": ["single", "pipeline", "ctor", "shared-upstream"], "scale_thorough": 10, "shards_thorough": 16}],
    },
    "C08": {
        "level": "fault_enumeration",
        "level_text": ("For each generated input (length 0-12), parameters and short pipeline, EVERY fault position x fault kind (final source error, callback error, cancelled per-call context, "
                       "one/two transient source errors, transient-then-final) is executed for every stream combinator, reducer, SampleStream, and in bubbles Batch, Merge, a Pipe-fed chain and parallel.MapStream; "
                       "oracle: delivered outputs are a prefix of the fault-free reference, the failing call reports the injected error itself (errors.Is), and after recoverable failures the whole sequence equals the reference exactly"),
        "level_note": "The inner fault enumeration is exhaustive per generated input; the outer choice of input/parameters/pipeline is random (rapid). Trusts the reference interpreter fk.Ref and the recording doubles in sk.",
        "technique": "fault enumeration over rapid-generated inputs; prefix/identity oracle against a reference interpreter",
        "rule": ("kind fault-enum = one generated base case (combinator, input, parameters, pre-stages); kind fault-case = one enumerated (base, fault kind, position[s]) execution, all positions 0..len for every kind. "
                 "non-trivial fault-case = 0 < p < len and the combinator holds partial state across calls (pending chunk, peeked item, open inner stream, half-drained run, reorder buffer...); distinct = distinct case JSON"),
        "assumptions": ["reference interpreter fk.Ref", "recording stream doubles (sk.RecStream) implement the Stream contract", "rapid v1.3.0; go1.26.8 testing/synctest for the goroutine-backed combinators"],
        "jobs": [{"pkg": "c08fault", "kinds": ["fault-enum", "fault-case", "fault-enum-bg", "fault-case-bg"], "scale_thorough": 10, "shards_thorough": 16, "replay_reps": 20}],
    },
    "C09": {
        "level": "fault_enumeration",
        "level_text": ("For each generated input/parameters, EVERY consumer stop point (close after 0..outputs+1 responses, or read to the end) x EVERY single fault position/kind is executed for every function that takes "
                       "ownership of a stream (all combinators and reducers, SampleStream, and in bubbles Batch, Merge with 1..5 inputs, MapStream); every recording source then must show exactly one Close, no Next after Close "
                       "and no overlapping calls, including Flatten's obtained inner streams and all Join/Merge arguments"),
        "level_note": "Inner enumeration (stop point x fault) is exhaustive per generated input; outer choice is random (rapid). Trusts the call log of sk.RecStream (atomic in-call flag, mutex-protected counters).",
        "technique": "fault and stop-point enumeration over rapid-generated inputs; call-log invariant on instrumented sources",
        "rule": ("kind own-enum(-bg) = one generated base case (sources may answer under an ended context like any other call - 'lax' - and E may wrap a context error); kind own-case(-bg) = one (base, stop point, fault) execution; kind join-shared-args = Joins built from parts of one argument slice with spare capacity, a Join of a Join, a bystander stream (non-trivial = a Join was given to another Join). non-trivial = the consumer stopped strictly inside the sequence (0 < j, not at End) or a fault was "
                 "actually delivered, i.e. some owned stream is still open when the consumer walks away; distinct = distinct case JSON"),
        "assumptions": ["sk.RecStream call log", "rapid v1.3.0; go1.26.8 testing/synctest"],
        "jobs": [{"pkg": "c09own", "run": "TestOwnRealClock", "kinds": ["own-real-clock"], "scale_thorough": 10, "shards_thorough": 4},
                 {"pkg": "c09own", "run": "TestJoinSharedArguments|TestOwnershipCaller|TestOwnCaseReplay|TestOwnershipBackground|TestOwnCaseBgReplay|TestPanickingCallback", "kinds": ["own-enum", "own-case", "own-enum-bg", "own-case-bg", "join-shared-args", "panic-abandon"], "scale_thorough": 10, "shards_thorough": 16, "replay_reps": 20}],
    },
    "C20": {
        "level": "exploration",
        "level_text": ("Generated (d, context kind, deadline, cancel time) for SleepContext and generated (d, jitter, read/sleep/Reset/Stop timeline) for JitterTicker, executed on the fake clock of testing/synctest, "
                       "so elapsed times and tick spacings are exact: nil only after exactly d, DeadlineTooSoonError iff the deadline is closer than d, the context's error at the instant it ends; ticks never closer than "
                       "d-jitter, constructor/Reset panic exactly outside the documented domain, nothing delivered after Stop"),
        "level_note": "Trusts testing/synctest's fake clock (go1.26.8) and the arithmetic in c20time; ties (remaining == d, already-done context with a near deadline) accept both outcomes; only the lower spacing bound is asserted.",
        "technique": "property-based testing (rapid) on a fake clock (testing/synctest) with exact time arithmetic as oracle",
        "rule": ("kinds 'sleep' and 'ticker' (fake clock) and 'sleep-old-timers' (real clock, asynctimerchan=1: sequences of 2-30 SleepContext calls, some cancelled within 100 us of their own timer firing; nil needs >= d of measured time; non-trivial = at least 3 calls), 'ticker-starved' (real clock, GOMAXPROCS 1, the P is kept busy for 2-3.5 periods so that a tick is delivered late; stamps of consecutive ticks stay >= d - jitter apart) and 'ticker-race' (2-6 tickers reset concurrently under the race detector). Sleep plans include durations up to MaxInt64 and contexts that report a deadline without ever signalling Done; ticker periods go up to MaxInt64. non-trivial: sleep = a deadline strictly inside (0,d), a mid-sleep cancel, or deadline+cancel; ticker = in-domain with jitter in {0, d-1} or a Reset/Stop in the timeline; distinct = distinct plan JSON"),
        "assumptions": ["testing/synctest fake clock", "rapid v1.3.0; go1.26.8"],
        "jobs": [{"pkg": "c20time", "run": "TestSleepContext|TestJitterTicker", "kinds": ["sleep", "ticker"], "scale_thorough": 10, "shards_thorough": 16},
                 {"pkg": "c20time", "race": True, "run": "TestTickerRace", "kinds": ["ticker-race"], "scale_thorough": 4, "shards_thorough": 4},
                 {"pkg": "c20old", "run": "TestSleepOldTimers|TestTickerStarved", "kinds": ["sleep-old-timers", "ticker-starved"], "scale_thorough": 4, "shards_thorough": 4},
                 {"pkg": "c20old", "run": "TestTickerResetStorm|TestTickerStopStorm", "kinds": ["ticker-reset-storm", "ticker-stop-storm"], "shards_quick": 4, "scale_quick": 4, "scale_thorough": 16, "shards_thorough": 8}],
    },
    "C16": {
        "level": "exploration",
        "level_text": ("Generated scripts inside testing/synctest bubbles with a gated Locker that holds each waiter exactly between c.L.Unlock() and the select inside Wait (or lets it park): k waiters, then "
                       "generated Signal/Broadcast/gate-opening/context-cancel steps (quiesced or racing), then all gates open and the woken waiters are counted after quiescence; lock ownership is tracked by the Locker itself"),
        "level_note": "Schedules are explored structurally (which waiter is in the window/parked when each Signal lands, quiesced vs racing steps) and by repetition; the Go scheduler itself is not enumerated. One open known finding (coalesced Signals).",
        "technique": "property-based testing (rapid) of generated waiter/signal scripts in testing/synctest bubbles; counting oracle after quiescence",
        "rule": ("kinds cond (plans: k in 1..5 waiters each parked or held in the unlock-to-park window, some with a context that has already ended, up to 3 late entrants that enter Wait in the middle of the 0-8 steps) and broadcast-storm (K parked waiters, noise goroutines doing ended-context Waits and/or Signals while one Broadcast is issued, 100-400 rounds per case; always non-trivial). cond plans: non-trivial = at least 2 waiters and a Signal or Broadcast is issued while some waiter is in the window; distinct = distinct plan JSON; every plan is executed R times (quick 3, thorough 10)"),
        "assumptions": ["testing/synctest durable-block detection", "the gated Locker identifies the unlocking waiter because Lock is exclusive", "rapid v1.3.0; go1.26.8"],
        "jobs": [{"pkg": "c16cond", "run": "TestCondRealStorm", "kinds": ["cond-real-storm"], "shards_quick": 2, "scale_quick": 2, "scale_thorough": 8, "shards_thorough": 8},
                 {"pkg": "c16cond", "run": "TestContextCond|TestBroadcastStorm", "kinds": ["cond", "broadcast-storm"], "scale_thorough": 10, "shards_thorough": 16, "replay_reps": 50},
                 {"pkg": "c16cond", "run": "TestContextCond|TestBroadcastStorm", "goarch": "386", "kinds": ["cond", "broadcast-storm"], "scale_quick": 0.1, "scale_thorough": 1, "shards_thorough": 2},
                 {"pkg": "c16cond", "run": "TestContextCond|TestBroadcastStorm", "race": True, "kinds": ["cond", "broadcast-storm"], "scale_quick": 0.15, "scale_thorough": 2, "shards_thorough": 4, "replay_reps": 20}],
    },
    "C11": {
        "level": "exploration",
        "level_text": ("Generated timelines on the fake clock: item arrival gaps (bursts, trickles, exactly maxWait, slower), source end or error, consumer Next calls with no/short/long deadlines, sleeps, and Close at a generated "
                       "moment, for Batch and BatchFunc (generated thresholds, optional predicate latency); every returned batch is checked to be the next undelivered items, non-empty, not oversized, not handed out underfilled "
                       "before its oldest item waited maxWait (exact), not held back beyond max(call, arrival)+maxWait (exact), context expiry free of cost, error after all items, Close returns with the source closed once and no goroutine left"),
        "level_note": "Exact fake-time arithmetic needs no tolerance; select ties are explored by repetition (R=3/10). Trusts testing/synctest and sk.RecStream's hand-over timestamps.",
        "technique": "property-based testing (rapid) of generated timelines in testing/synctest bubbles; partition + exact fake-time oracle",
        "rule": ("kinds batch (bubble plans: 0-30 items with gaps from {0, maxWait/3, maxWait, 3*maxWait}, 0-25 consumer steps then close or drain; maxWait 1 s or - 'huge' - MaxInt64 ns; 'scribble' consumers overwrite the spare capacity of every batch they own) and batch-old-timers (real clock, asynctimerchan=1: partition, sizes, lower bound on the age of an underfilled batch; non-trivial = at least 2 batches). batch plans: non-trivial = an underfilled batch was handed out by timer, or Close was issued while the producer held "
                 "undelivered items, or a waiter followed a cancelled waiter; distinct = distinct plan JSON; each plan runs R times"),
        "assumptions": ["testing/synctest fake clock", "sk.RecStream timestamps", "rapid v1.3.0; go1.26.8"],
        "jobs": [{"pkg": "c11batch", "kinds": ["batch", "batch-lib-source"], "scale_thorough": 10, "shards_thorough": 16, "replay_reps": 30},
                 {"pkg": "c11old", "kinds": ["batch-old-timers"], "scale_thorough": 4, "shards_thorough": 4},
                 {"pkg": "c11batch", "race": True, "kinds": ["batch", "batch-lib-source"], "scale_quick": 0.1, "scale_thorough": 2, "shards_thorough": 4, "replay_reps": 20}],
    },
    "C10": {
        "level": "exploration",
        "level_text": ("Generated multi-actor scripts (1-3 sender actors with Send/TrySend under live, cancelled or later-cancelled contexts, a Close(nil|err) placed in a sender or as its own actor, a receiver with Next and Close) "
                       "run in testing/synctest bubbles; the harness decides the order in which steps start and whether it waits for quiescence between them, every script runs R times for select randomness; the stamped call/return "
                       "history is judged: only sent values, none twice, per-sender FIFO, accepted-before-Close delivered before the end, sticky end, valid results, and no call still blocked at a quiescence point where the property says it must have returned"),
        "level_note": "Schedules are explored by script structure and repetition, not exhaustively; 'stuck' is decided by durable-block detection, not timeouts. Sends are never started after the sender's Close was started (misuse).",
        "technique": "property-based testing (rapid) of generated actor scripts in testing/synctest bubbles; history-invariant oracle",
        "rule": ("kinds pipe (scripted plans: buffer in {0,1,2,5}, 1-3 senders, 1-24 steps incl. tryburst = all senders TrySend at once, contexts that end by cancel or - 'deadlines' plans - by deadline on the fake clock and may be reused after they ended, + drain epilogue) and pipe-storm (500-3000 short-lived pipes per case on real goroutines: 1-4 values then Close after a swept busy delay, blocking or ended-context-polling consumer; every storm case counts as non-trivial) and pipe-parked (real clock, own process: with one Send parked, TrySend / TrySend under an ended context / Send with a 5 ms timeout / the receiver's Close each return within 5 s); pipe plans: non-trivial = Close called while accepted values were still buffered (buffer >= 1), or Sends of two sender actors overlapped, or a Send was blocked when the receiver closed; distinct = distinct plan JSON; R=5/20 executions each"),
        "assumptions": ["testing/synctest durable-block detection", "logical stamps taken by the actors bracket the library calls", "rapid v1.3.0; go1.26.8"],
        "jobs": [{"pkg": "c10pipe", "run": "TestPipeParked|TestPipeSenderCollected", "kinds": ["pipe-parked", "pipe-gc"], "scale_thorough": 4, "shards_thorough": 2},
                 {"pkg": "c10pipe", "run": "TestPipe$|TestPipeStorm|TestPipeValues", "kinds": ["pipe", "pipe-storm", "pipe-values"], "scale_thorough": 8, "shards_thorough": 16, "replay_reps": 200},
                 {"pkg": "c10pipe", "goarch": "386", "run": "TestPipe$|TestPipeStorm|TestPipeValues", "kinds": ["pipe", "pipe-storm", "pipe-values"], "scale_quick": 0.1, "scale_thorough": 1, "shards_thorough": 2},
                 {"pkg": "c10pipe", "race": True, "run": "TestPipe$|TestPipeStorm|TestPipeValues", "kinds": ["pipe", "pipe-storm", "pipe-values"], "scale_quick": 0.15, "scale_thorough": 2, "shards_thorough": 4, "replay_reps": 20}],
    },
    "C12": {
        "level": "exploration",
        "level_text": ("Generated producer scripts per arity (chans.Merge: 0,1,2,3,4,7 inputs = all four code paths; chans.Replicate: 0-4 destinations with different capacities and reader paces; stream.Merge: 0-5 scripted streams ending normally, "
                       "with an error at a generated position, or blocking forever) with generated fake-time gaps and consumer paces, run in testing/synctest bubbles R times: output multiset and per-input order, the blocking call returns "
                       "exactly when all inputs are exhausted and everything is delivered (not earlier, and it is not durably blocked afterwards), stream.Merge reports an input's error and never the end after it, and after Close every input is closed once and the bubble exits"),
        "level_note": "Interleavings are explored by generated gaps/paces and repetition (select randomness), not exhaustively. Trusts testing/synctest and sk.RecStream.",
        "technique": "property-based testing (rapid) of generated producer/consumer scripts in testing/synctest bubbles; multiset/order/termination oracle",
        "rule": ("kinds chans-merge, chans-merge-iface (chan error carrying nil values), replicate, stream-merge, stream-merge-burst (many rounds of inputs that end at the same instant), chans-merge-shared (another goroutine receives from input 0 as well; merged + taken = sent), stream-merge-error-storm (one failing input among idle context-aware ones, 100-500 rounds per case), replicate-iface (chan error with nil values, 0-5 destinations); merges of up to 130 inputs. non-trivial = >= 2 non-empty inputs of different lengths (one closes while another still has values), or arity in {0,1}, or an early Close (stream.Merge); replicate: >= 2 destinations and >= 2 values, or zero destinations; distinct = distinct plan JSON; R=3/10"),
        "assumptions": ["testing/synctest durable-block detection", "rapid v1.3.0; go1.26.8"],
        "jobs": [{"pkg": "c12merge", "run": "TestMergeRealClock", "kinds": ["merge-real-clock"], "scale_thorough": 10, "shards_thorough": 4},
                 {"pkg": "c12merge", "run": C12_BUBBLE_TESTS, "kinds": ["chans-merge", "chans-merge-iface", "replicate", "stream-merge", "stream-merge-burst", "chans-merge-shared", "stream-merge-error-storm", "replicate-iface", "stream-merge-wide", "stream-merge-error-busy-sibling"], "scale_thorough": 10, "shards_thorough": 16, "replay_reps": 30},
                 {"pkg": "c12merge", "goarch": "386", "kinds": ["chans-merge", "stream-merge", "stream-merge-burst", "stream-merge-error-storm"], "run": "TestChansMerge$|TestStreamMerge", "scale_quick": 0.1, "scale_thorough": 1, "shards_thorough": 2},
                 {"pkg": "c12merge", "race": True, "run": C12_BUBBLE_TESTS, "kinds": ["chans-merge", "chans-merge-iface", "replicate", "stream-merge", "stream-merge-burst", "chans-merge-shared", "stream-merge-error-storm", "replicate-iface", "stream-merge-wide", "stream-merge-error-busy-sibling"], "scale_quick": 0.15, "scale_thorough": 2, "shards_thorough": 4, "replay_reps": 20}],
    },
    "C13": {
        "level": "exploration",
        "level_text": ("Generated (function, n, parallelism incl. <= 0 and > n, per-call fake latency pattern, set of failing indexes, caller context live / cancelled / cancelled mid-flight) configurations run in testing/synctest bubbles "
                       "with an instrumented f (per-index call counters, concurrency gauge, context state at entry and exit, non-atomic per-index cell), R times each; plus the same plans on real goroutines under the race detector. "
                       "Oracle: at most once always and exactly once on nil, gauge <= effective parallelism, Map results in place, nothing running at return and nothing starting during a 5 s fake tail, error provenance, cancellation reaches running calls, began-cancelled <= parallelism-1"),
        "level_note": "Interleavings are those the runtime produces for the generated latency patterns over repetitions; data races are decided by the race detector on the executed schedules.",
        "technique": "property-based testing (rapid) in testing/synctest bubbles with counting/gauge oracle; race-detector runs",
        "rule": ("kinds parallel (bubble), parallel-race, first-error-storm (50-300 quick failing runs per case on real goroutines), gomaxprocs (parallelism <= 0 after runtime.GOMAXPROCS was lowered). non-trivial = n > parallelism >= 2 with non-uniform latencies or at least one failing index; distinct = distinct plan JSON; R=3/8"),
        "assumptions": ["testing/synctest", "Go race detector", "rapid v1.3.0; go1.26.8"],
        "jobs": [{"pkg": "c13par", "run": "TestCancelAtEntryStorm", "kinds": ["cancel-at-entry-storm"], "shards_quick": 2, "scale_thorough": 10, "shards_thorough": 8},
                 {"pkg": "c13par", "run": "TestParallelBubble|TestFirstErrorStorm|TestGomaxprocs", "kinds": ["parallel", "first-error-storm", "gomaxprocs"], "scale_thorough": 8, "shards_thorough": 16, "replay_reps": 20},
                 {"pkg": "c13par", "goarch": "386", "run": "TestParallelBubble|TestFirstErrorStorm", "kinds": ["parallel", "first-error-storm"], "scale_quick": 0.1, "scale_thorough": 1, "shards_thorough": 2},
                 {"pkg": "c13par", "run": "TestParallelRace", "race": True, "kinds": ["parallel-race"], "scale_thorough": 8, "shards_thorough": 8, "replay_reps": 20}],
    },
    "C14": {
        "level": "exploration",
        "level_text": ("Generated (length, parallelism incl. <= 0, bufferSize incl. <= 0 / smaller / larger than parallelism, latency pattern that makes late items finish first, consumer pace, and for MapStream source error position, failing f calls, "
                       "expiring per-call contexts, Close after j results, cancelled construction context) run in testing/synctest bubbles R times: results in source order exactly once, the pulled-minus-yielded gauge read at quiescence points never exceeds "
                       "bufferSize+parallelism+1, no deadlock (durable-block detection), failures are errors the source or f returned, never a result beyond a failed item, Close returns with the source closed once and no goroutine left"),
        "level_note": "The gauge is read only at quiescence, where both counters are exact; interleavings come from generated latencies/paces and repetition.",
        "technique": "property-based testing (rapid) in testing/synctest bubbles; order/gauge/error-provenance oracle",
        "rule": ("kinds map-iterator, map-stream (scripted bubble plans) and map-storm (5000-40000 zero-latency items per case in a bubble, every (parallelism, buffer) shape; non-trivial = parallelism >= 2) and map-finish-storm (0-3 items, 4-64 workers that all finish at the same instant, 300-1500 rounds per case). scripted plans (a failing f may return an error that wraps a context error; a source may block, idle, until its context ends): non-trivial = completion order differed from source order AND the gauge reached its bound (back-pressure engaged), or a failure surfaced with results still in flight; distinct = distinct plan JSON; R=3/10"),
        "assumptions": ["testing/synctest", "rapid v1.3.0; go1.26.8"],
        "jobs": [{"pkg": "c14mapit", "run": "TestMapLockstepSource|TestMapRealClock", "kinds": ["map-lockstep", "map-real-clock"], "scale_thorough": 4, "shards_thorough": 4},
                 {"pkg": "c14mapit", "run": "TestMapIterator|TestMapStream|TestMapStorm|TestMapFinishStorm", "kinds": ["map-iterator", "map-stream", "map-storm", "map-finish-storm"], "scale_thorough": 8, "shards_thorough": 16, "replay_reps": 30},
                 {"pkg": "c14mapit", "goarch": "386", "run": "TestMapIterator|TestMapStream|TestMapStorm|TestMapFinishStorm", "kinds": ["map-iterator", "map-stream", "map-storm", "map-finish-storm"], "scale_quick": 0.1, "scale_thorough": 1, "shards_thorough": 2},
                 {"pkg": "c14mapit", "race": True, "run": "TestMapIterator|TestMapStream|TestMapStorm|TestMapFinishStorm", "kinds": ["map-iterator", "map-stream", "map-storm", "map-finish-storm"], "scale_quick": 0.1, "scale_thorough": 2, "shards_thorough": 4, "replay_reps": 20}],
    },
    "C18": {
        "level": "exploration",
        "level_text": ("xsync.Map: generated operation sequences over 4 keys for V in {int, string, *T, error, any} (generated values include the nil interface and an uncomparable value) applied to the wrapper and to sync.Map, "
                       "results/flags/panics compared after every step; Watchable: sequential Set/Value plans against the obvious model (every channel ever returned is closed iff a later Set happened) and bubble scripts with 1-3 racing setters "
                       "and 1-3 observer loops; Future: waiters before/after Fill with and without deadlines on the fake clock; Lazy: racing first calls"),
        "level_note": "sync.Map is the reference for the typed map (xsync.Map adds no synchronisation of its own); the concurrent clauses are explored by generated timings and repetition in testing/synctest bubbles.",
        "technique": "property-based differential testing (rapid) against sync.Map; model-based and bubble-script checks for Watchable/Future/Lazy",
        "rule": ("kinds map (int and interface keys incl. the nil key), watchable-seq, watchable-conc, watchable-first-set (many fresh Watchables per case, Value racing the first Set), future (deadline and cancel-only contexts), future-race, lazy, sync-storm (real parallelism: LoadOrStore / LoadAndDelete of one key from 3-6 goroutines, 300-2000 back-to-back Sets from 1-3 setters against 1-3 observer loops; always non-trivial); map plans include Range with a callback that deletes the other keys. non-trivial: map = a load-type op hit an absent key and (for interface V) a present key holding a nil interface; watchable-seq = Value before the first Set and Set-Set-Value; "
                 "watchable-conc = an observer saw the zero value before a Set or several Sets between two of its Values; future = a waiter present at Fill, >= 2 waiters; lazy = >= 2 racing callers; distinct = distinct plan JSON"),
        "assumptions": ["sync.Map as reference", "testing/synctest", "rapid v1.3.0; go1.26.8"],
        "jobs": [{"pkg": "c18sync", "run": "TestMap|TestWatchable|TestFuture$|TestLazy", "kinds": ["map", "watchable-seq", "watchable-conc", "watchable-first-set", "future", "lazy"], "scale_thorough": 10, "shards_thorough": 16, "replay_reps": 20},
                 {"pkg": "c18old", "kinds": ["lazy-panic-nil"], "scale_thorough": 5, "shards_thorough": 2},
                 {"pkg": "c18sync", "run": "TestSyncStorm", "kinds": ["sync-storm"], "shards_quick": 4, "scale_quick": 3, "scale_thorough": 20, "shards_thorough": 8, "replay_reps": 20},
                 {"pkg": "c18sync", "goarch": "386", "run": "TestMap|TestWatchable|TestFuture$|TestSyncStorm", "kinds": ["map", "watchable-seq", "watchable-conc", "watchable-first-set", "future", "sync-storm"], "scale_quick": 0.1, "scale_thorough": 1, "shards_thorough": 2},
                 {"pkg": "c18sync", "run": "TestFutureRace|TestLazy|TestWatchableSequential|TestSyncStorm", "race": True, "kinds": ["future-race", "sync-storm"], "scale_quick": 0.5, "scale_thorough": 5, "shards_thorough": 4, "replay_reps": 20}],
    },
    "C17": {
        "level": "exploration",
        "level_text": ("Generated fake-clock timelines: Do/Periodic/Trigger/PeriodicOrTrigger registrations at generated times (some after the stop, some racing with it from other goroutines), f run times shorter and longer than the interval, "
                       "trigger calls singly and in bursts (during a run, right after one), Stop/StopAndWait from 1-3 goroutines or parent-context cancellation, then a 30 s observation tail; the run log is judged: nothing running when StopAndWait returns and "
                       "nothing starting afterwards, no overlapping runs of one registration, every trigger made comfortably before the stop is followed by a complete run that began after it, periodic registrations keep running, contexts are cancelled by the stop"),
        "level_note": "Interleavings come from generated times (ties at the same fake instant race for real) and repetition. The trigger obligation is only demanded for calls at least 2 x run-time before the stop, the periodic bound is deliberately loose.",
        "technique": "property-based testing (rapid) of generated timelines in testing/synctest bubbles; run-log invariants",
        "rule": ("kinds group (timelines: 1-5 registrations, 0-12 trigger events incl. concurrent bursts, one stop incl. parent cancel/deadline), stop-storm (goroutines keep calling Do while the group is stopped, 5-30 rounds per case), "
                 "trigger-first-call (racing first calls of a trigger function, then triggers during runs), trigger-storm (a trigger 0-256 busy iterations after a run has finished, 1000-5000 rounds per case, decided at quiescence; or 3-4 callers pacing themselves around the end of every run: runs never overlap), pot-old-timers (PeriodicOrTrigger under asynctimerchan=1 on the real clock), pot-trigger-real (real clock, interval 1 h: the second trigger of every round is aimed at the end of the run the first one started; a run begins after it within 3 s). group plans: non-trivial = a trigger call landed while its function was running, or a registration raced with the stop; distinct = distinct plan JSON; R=3/10"),
        "assumptions": ["testing/synctest", "rapid v1.3.0; go1.26.8"],
        "jobs": [{"pkg": "c17old", "kinds": ["pot-old-timers", "pot-trigger-real", "stop-reentrant", "group-dropped", "group-long-lived"], "scale_thorough": 4, "shards_thorough": 4},
                 {"pkg": "c17group", "kinds": ["group", "stop-storm", "trigger-first-call", "trigger-storm", "group-reentrant"], "scale_thorough": 3, "shards_thorough": 16, "replay_reps": 30},
                 {"pkg": "c17group", "goarch": "386", "kinds": ["group", "stop-storm", "trigger-first-call", "trigger-storm"], "scale_quick": 0.1, "scale_thorough": 1, "shards_thorough": 2},
                 {"pkg": "c17group", "race": True, "kinds": ["group", "stop-storm", "trigger-first-call", "trigger-storm", "group-reentrant"], "scale_quick": 0.15, "scale_thorough": 1, "shards_thorough": 4, "replay_reps": 20}],
    },
    "C19": {
        "level": "exploration",
        "level_text": ("Every pure helper is checked against an independent reference or validity predicate (outputs the documentation allows are never rejected): (i) small-scope exhaustive enumeration - by parametricity all boolean vectors, "
                       "all set partitions and all weak orders up to length 6 (quick) / 8 (thorough), all (len, chunkSize) and (len, idx, n) arguments; (ii) rapid-generated larger inputs with many ties, extreme integers for Abs/Clamp over 5 integer widths, "
                       "error chains for WithStack; (iii) sampling: ALL (n <= 6, k <= n+1) for RSample/RSampleSlice/RSampleIterator/RSampleStream and RShuffle with a fixed-seed chi-square test (subset and position frequencies, tail probability ~1e-9)"),
        "level_note": "Uniformity is a statistical statement decided at a 1e-9 threshold with seeded generators (deterministic per VERIF_SEED); a bias below the test's resolution passes. Files guarded by !go1.21 are not compiled.",
        "technique": "property-based testing (rapid) + small-scope exhaustive enumeration against reference implementations; seeded chi-square for sampling",
        "rule": ("kinds helper (rapid), helper-exhaustive (enumerated), sampling (enumerated configurations x N samples). non-trivial = input length >= 2 with a duplicate/tie, or a boundary argument (k in {0, >= n}, chunkSize <= 0, removal reaching the end, "
                 "extreme integer, already-wrapped error); sampling: n >= 2; distinct = distinct case JSON"),
        "assumptions": ["reference implementations in c19pure", "math/rand with fixed seeds", "rapid v1.3.0; go1.26.8"],
        "jobs": [{"pkg": "c19pure", "run": "TestPure|TestHelperExhaustiveReplay|TestSampling", "kinds": ["helper", "helper-exhaustive", "sampling"], "scale_thorough": 10, "shards_thorough": 16},
                 {"pkg": "c19pure", "race": True, "run": "TestSampleRace", "kinds": ["sample-race"], "scale_thorough": 4, "shards_thorough": 4}],
    },
    "C04": {
        "level": "exploration",
        "level_text": ("Model-based property testing: thousands of generated operation histories (macro-ops reach wrapped, full, "
                       "exactly-fitting and re-allocated ring states) are compared step by step with a slice model, including "
                       "expected panics and raw-slot retention; holds on everything explored, no proof of absence"),
        "level_note": "Trusts the 12-line read-only verif hook (VerifState/VerifSlots), the slice model in c04deque, rapid v1.3.0 and the go1.26.8 toolchain.",
        "technique": "stateful property-based testing (rapid) against a reference model",
        "rule": ("rapid-generated plans of 1-80 deque operations (incl. macro pushes/pops that steer "
                 "capacity, front offset and length) run, for element types *int and any (nil interface and 0 are ordinary elements), against a slice model with a full observation and a "
                 "raw-slot retention check after every elementary step; a case is non-trivial if it visited a "
                 "wrapped or exactly-full ring state AND reallocated while wrapped; distinct = distinct plan "
                 "(hash of its JSON); 'states' counts distinct (cap, front, back) ring states that were wrapped or full"),
        "assumptions": ["verif hook VerifState/VerifSlots reports the real ring buffer (read-only, 12 lines)",
                        "rapid v1.3.0 generator/shrinker; go1.26.8 toolchain"],
        "jobs": [{"pkg": "c04deque", "run": "TestDequeHugeCap", "kinds": ["deque-huge-cap"], "scale_thorough": 3, "shards_thorough": 1},
                 {"pkg": "c04deque", "run": "TestDeque$|TestDequeInterfaceElements|TestDequeOddElementSizes", "kinds": ["deque", "deque-any", "deque-elem-size"], "scale_thorough": 10, "shards_thorough": 16, "fuzz": [("FuzzDeque", "deque")]}],
    },
}

# Later additions to the generators (rounds 5-6 of the seeded changes), appended to the rule texts.
RULE_ADDENDA = {
    "C01": " Key kinds also include pointer keys (the comparator dereferences) and []byte keys (a type == cannot compare).",
    "C02": " Key kinds as in C01 (incl. pointer and []byte keys); a 'churn' step performs exactly 2^8 or 2^16 structural changes away from the iterators between two Next calls.",
    "C03": " Key kinds as in C01 (incl. pointer and []byte keys). Kind tree-huge: one tree of 0.5-1.1 million keys (7 and more levels): monotone fill, 0-200000 keys scattered into the gaps, a contiguous block of 0-400000 keys drained; after each phase the structural walk, depth bound, complete ascending iteration and a Contains (with comparison count) for every key (always non-trivial).",
    "C04": " Kind deque-huge-cap (own process): a Deque[byte] with a buffer of 2^31 ... 2^32+5 slots (address space only), 20-200 operations at both ends with the front at the start or at the far end of the buffer, against a slice model. Kind deque-elem-size: the same plans over struct{} elements and over 328-byte elements. Elements are padded pointer-holding structs so that weak pointers to popped elements can be required to clear after a GC; 'bulk_push' steps build backlogs of 1000-5000 items; iterations may be nested; Grow/Shrink arguments go up to MaxInt.",
    "C05": " Kind queue-nan-keys: float64 keys incl. NaN (entries that can be put in and popped but never addressed): Len, Contains, minimality of Pop / Peek (non-trivial = a NaN entry was popped). Kind queue-huge: one queue holding 40000-140000 keys at once, taken down to 1/3-1/64 of its peak by Removes (and Pops), refilled, drained, against a map model (always non-trivial). Priorities are ints or []int (pointer-holding); 'bulk' steps push and pop 1000-5000 items (heap and queue).",
    "C06": " Kind list-value-race (race-detector build): one goroutine moves and removes a node while another updates that node's two-word Value through the handle: no race report, no lost update. Kind list-clear-wrap (own process): the generated plan on lists that have been Cleared 2^8, 2^16 and 2^32 (-2 ... +1) times before. Steps also include 'relocate' (the List value is moved to another address), 'bulk' (hundreds of nodes) and reuse of cleared handles; kind list-gc: nodes only reachable through the list survive three GCs with their pointer-holding payload intact.",
    "C07": " Kind shared-upstream: outer = G(inner), inner = F(src) for F, G in First / Filter / Map / CompactFunc, pulled alternately through outer, inner and src against a model with one shared source position (non-trivial = pulls through at least two of them); one case in 25 instead runs Compact / Filter over a stretch of 1-3 million dropped items with the goroutine stack limited to 64 MB. Inputs include NaN, negative and huge counts, 1025-2600-item inputs for Chunk/Last; callbacks are counted; results must be independent of their inputs (scribbling); argument slices must be left intact; constructors are read with contexts that end before, between and during calls.",
    "C09": " Kind own-real-clock (own process, real clock, no bubble: MapStream, Batch, Merge and MapStream over Batch with zero-latency sources; stop after j outputs or read to the end / error; Close within 10 s; then the ownership log of every source; non-trivial = a fault or an early stop). Kind panic-abandon: a consumer whose callback panics and whose deferred Close runs: still exactly one Close per stream.",
    "C10": " Kind pipe-values: pipes of any / error (incl. the nil interface value and typed nils), nil pointers, nil and empty slices, struct{} and a struct holding a slice and a map: the value received is the value sent (non-trivial = a nil / zero value among at least 2). pipe-storm also runs empty streams (closed while the consumer begins to wait) and consumers that close without reading while the producer sends; blocking calls have a 10 s limit. Close errors include context.Canceled / DeadlineExceeded themselves; kind pipe-gc (a properly closed sender's error survives GCs and finalizers); the package also runs for GOARCH=386.",
    "C11": " Plans also include sources whose Close takes time, batchSize MaxInt, 'long' streams of hundreds of batches with a bound on batch capacity, and BatchFunc predicates that take 2 x maxWait (old timers); a Next that has not returned after 10 s of active time is a 'stuck' violation. Kind batch-lib-source: Batch over the library's own streams (stream.Chan over a channel that may stay open, FromIterator, a Pipe, a Batch of a Batch): partition, sizes, end, and Close returning at any moment (non-trivial = at least 2 batches, or closed before the end).",
    "C12": " Kind merge-real-clock (own process, real goroutines, no bubble): chans.Merge of 0-12 inputs, chans.Replicate to 0-5 destinations, stream.Merge with an optional failing input and an optional early Close: interleaving / completeness / first error / ownership, 10 s limit (non-trivial = at least 2 inputs or destinations). Inputs may be the library's own streams or non-comparable struct values; failing inputs may fail at the same instant with errors of different concrete types; kind stream-merge-wide: 300 inputs that each have to deliver before any of them ends; kind stream-merge-error-busy-sibling: one input fails while the others sit in a Next call that ignores its context and returns only after the consumer has seen the failure (the error must not wait for them). Also runs for GOARCH=386.",
    "C13": " Kind cancel-at-entry-storm (own process, real goroutines): the caller's context is cancelled around the instant DoContext / MapContext is entered, 2000-8000 rounds per case with a swept offset: nil means every call was made and the results are complete, anything else is the context's error (non-trivial = both outcomes occurred). Parallelism also 65 / 130 / 1000 with 2*par+3 slow calls. Errors of mixed concrete types, n up to 8192 incl. multiples of 64, nested Do/Map inside the callbacks. Also runs for GOARCH=386.",
    "C14": " Kind map-real-clock (own process, real goroutines, no bubble): MapIterator and MapStream with spinning f (later items finish first), source / f failures, early Close: order, exactly-once, gauge bound, error provenance, ownership, 10 s limit (non-trivial = n > parallelism >= 2). Also: 'lockstep' sources that only produce once the consumer has taken the previous result (bubble, and kind map-lockstep on the real clock), contexts that are already done at construction, f errors with a value attached. Also runs for GOARCH=386.",
    "C15": " Heap elements may hold pointers; setups include a big deque drained to a quarter; one call past the end may precede the mid ops; a second iterator may be open.",
    "C16": " Kind cond-real-storm (own process, real clock, no bubble): per round a waiter enters Wait while a Broadcast made without the lock is aimed at that instant, then - once the lock can be taken, i.e. the waiter has released it - one Signal; 0-4 further goroutines call Signal / Broadcast without the lock; everybody is through within 10 s (always non-trivial). The cond may be stored by value after construction ('by_value'); broadcast-storm variants with a shared RLocker and bursts of simultaneous Signals. Also runs for GOARCH=386.",
    "C17": " Kind group-reentrant: a group built inside another group's function on the context it was handed (1-3 levels), stopped there and then offered work of every kind (none of it runs; the outer group goes on and its StopAndWait returns); a Trigger / PeriodicOrTrigger function that triggers itself at the end of every run (back to back, no overlap, StopAndWait returns, nothing runs afterwards). Real-clock kinds in c17old: pot-old-timers, pot-trigger-real (a trigger aimed at the end of a run), stop-reentrant (a group function that calls into the group while StopAndWait waits), group-dropped (a Group nobody references keeps running until stopped, across GCs), group-long-lived (one Group, 131075-300000 short functions through Do with 1-8 in flight: all of them run, StopAndWait returns). Also runs for GOARCH=386.",
    "C18": " Kind lazy-panic-nil (package c18old, built with //go:debug panicnil=1 as for a main module at go <= 1.20): f panics with a nil value: it runs once and no access returns a value. sync-storm modes: loadorstore, loadanddelete, nomatch (a failing CompareAndDelete/CompareAndSwap is invisible to concurrent observers), watchable with 1-3 setters; future waiters that arrive late with deadline contexts. Also runs for GOARCH=386.",
    "C19": " Also: inputs of thousands of items (strategy switches), stateful callbacks (call counts), huge arguments, sampling over populations up to MaxInt64/2, kind sample-race (package-level xrand functions from several goroutines under the race detector).",
    "C20": " Also: periods with sub-millisecond parts and near MaxInt64, kind ticker-reset-storm (real clock: up to 16 goroutines reset one ticker hundreds of times, then to one hour: no tick stamped after the last switch), kind ticker-stop-storm (real clock: 20 us tickers stopped at swept moments by 2-8 goroutines: no tick stamped after Stop returned).",
}
for _id, _txt in RULE_ADDENDA.items():
    CHECKS[_id]["rule"] = CHECKS[_id]["rule"] + _txt
