"""Per-property job tables for ./check (what to build, what to run, how deep per tier)."""

HOOK_COMMITS = ["736bf48"]

# Properties not (yet) claimed. Kept current as checks land.
NOT_APPLICABLE = {p: "check not built yet in this session (see DESIGN.md section 8, build order); will be claimed once its harness package exists"
                  for p in ["C%02d" % i for i in range(1, 21)]}

CHECKS = {
    "C04": {
        "level": "exploration",
        "level_text": ("Model-based property testing: thousands of generated operation histories (macro-ops reach wrapped, full, "
                       "exactly-fitting and re-allocated ring states) are compared step by step with a slice model, including "
                       "expected panics and raw-slot retention; holds on everything explored, no proof of absence"),
        "level_note": "Trusts the 12-line read-only verif hook (VerifState/VerifSlots), the slice model in c04deque, rapid v1.3.0 and the go1.26.8 toolchain.",
        "technique": "stateful property-based testing (rapid) against a reference model",
        "rule": ("rapid-generated plans of 1-80 deque operations (incl. macro pushes/pops that steer "
                 "capacity, front offset and length) run against a slice model with a full observation and a "
                 "raw-slot retention check after every elementary step; a case is non-trivial if it visited a "
                 "wrapped or exactly-full ring state AND reallocated while wrapped; distinct = distinct plan "
                 "(hash of its JSON); 'states' counts distinct (cap, front, back) ring states that were wrapped or full"),
        "assumptions": ["verif hook VerifState/VerifSlots reports the real ring buffer (read-only, 12 lines)",
                        "rapid v1.3.0 generator/shrinker; go1.26.8 toolchain"],
        "jobs": [{"pkg": "c04deque", "kinds": ["deque"], "scale_thorough": 10, "shards_thorough": 16}],
    },
}
