package c17group

import (
	"context"
	"fmt"
	"sync/atomic"
	"testing"
	"testing/synctest"
	"time"

	"github.com/bradenaw/juniper/xsync"
	"pgregory.net/rapid"

	"verif/harness/vk"
)

// group-reentrant: groups used from inside their own functions.
//
//   - nested: a function of the outer group builds a group of its own on the context it was handed (a server
//     and its connections), runs a few functions in it, stops it, and then still offers it work of every kind
//     (refused: none of it may ever run). The outer group is unimpressed: it goes on running what it is given,
//     and its StopAndWait returns.
//   - self-trigger: a Trigger / PeriodicOrTrigger function that calls its own trigger at the end of every run
//     (there is always a request pending when a run ends). It runs back to back, never overlapping - and the
//     group's StopAndWait still returns, after which nothing runs.

type ReentrantPlan struct {
	Mode     string `json:"mode"` // nested | self-trigger
	Depth    int    `json:"depth"`
	InnerDos int    `json:"inner_dos"`
	Late     []int  `json:"late"` // kinds of work offered to the stopped inner group: 0 Do 1 Periodic 2 Trigger 3 PeriodicOrTrigger
	RunMs    int    `json:"run_ms"`
	StopAtMs int    `json:"stop_at_ms"`
	POT      bool   `json:"pot"` // self-trigger: PeriodicOrTrigger instead of Trigger
}

func genReentrant(t *rapid.T) ReentrantPlan {
	return ReentrantPlan{Mode: rapid.SampledFrom([]string{"nested", "nested", "self-trigger"}).Draw(t, "mode"), Depth: rapid.IntRange(1, 3).Draw(t, "depth"),
		InnerDos: rapid.IntRange(0, 3).Draw(t, "innerdos"), Late: rapid.SliceOfN(rapid.IntRange(0, 3), 1, 4).Draw(t, "late"),
		RunMs: rapid.SampledFrom([]int{0, 1, 7}).Draw(t, "run"), StopAtMs: rapid.SampledFrom([]int{0, 5, 100, 1000}).Draw(t, "stopat"), POT: rapid.Bool().Draw(t, "pot")}
}

func runReentrant(p ReentrantPlan) (out vk.Outcome, verr error) {
	stuck := ""
	func() {
		defer func() {
			if r := recover(); r != nil {
				stuck = fmt.Sprint(r)
			}
		}()
		synctest.Test(theT, func(t *testing.T) {
			defer func() {
				if r := recover(); r != nil {
					verr = vk.Violf("panic", "panic inside bubble: %v", r)
				}
			}()
			verr = reentrantScript(p)
		})
	}()
	if stuck != "" && verr == nil {
		verr = vk.Violf("stuck", "%s: the bubble did not come to rest (StopAndWait never returned, or a goroutine was left behind): %s", vk.Short(p), stuck)
	}
	out.NonTrivial = true
	out.Label("reentrant:" + p.Mode)
	return out, verr
}

func reentrantScript(p ReentrantPlan) error {
	outer := xsync.NewGroup(context.Background())
	if p.Mode == "self-trigger" {
		var running, runs, overlap atomic.Int32
		var stopped, stopCalled atomic.Bool
		var afterStop, longAfterStopCall atomic.Int32
		var stopCalledAt time.Time
		var trigger func()
		runMs := max(p.RunMs, 1) // (a run that takes no time at all would keep the fake clock from ever advancing)
		f := func(ctx context.Context) {
			if stopCalled.Load() && time.Since(stopCalledAt) > 10*time.Second {
				longAfterStopCall.Add(1) // runs keep beginning on a group that was stopped 10 s ago: give up
				return
			}
			if running.Add(1) != 1 {
				overlap.Add(1)
			}
			if stopped.Load() {
				afterStop.Add(1)
			}
			runs.Add(1)
			time.Sleep(time.Duration(runMs) * time.Millisecond)
			running.Add(-1)
			trigger() // there is always another request pending when a run ends
		}
		if p.POT {
			trigger = outer.PeriodicOrTrigger(time.Hour, 0, f)
		} else {
			trigger = outer.Trigger(f)
		}
		trigger()
		time.Sleep(time.Duration(p.StopAtMs) * time.Millisecond)
		stopCalledAt = time.Now()
		stopCalled.Store(true)
		outer.StopAndWait()
		stopped.Store(true)
		if longAfterStopCall.Load() > 0 {
			return vk.Violf("barrier", "runs of the self-triggering function were still beginning 10 s after StopAndWait had been called")
		}
		if running.Load() != 0 {
			return vk.Violf("barrier", "StopAndWait returned while the self-triggering function was running")
		}
		time.Sleep(time.Hour)
		synctest.Wait()
		if overlap.Load() > 0 {
			return vk.Violf("overlap", "runs of the self-triggering function overlapped %d times", overlap.Load())
		}
		if afterStop.Load() > 0 {
			return vk.Violf("barrier", "the self-triggering function ran %d times after StopAndWait had returned", afterStop.Load())
		}
		if p.StopAtMs > 3*runMs && runs.Load() < 2 {
			return vk.Violf("trigger-lost", "a function that triggers itself at the end of every run (%d ms each) ran %d times in %d ms", runMs, runs.Load(), p.StopAtMs)
		}
		return nil
	}
	var lateRan atomic.Int32
	var innerRan atomic.Int32
	connDone := make(chan struct{})
	var build func(g *xsync.Group, depth int, done chan struct{})
	build = func(g *xsync.Group, depth int, done chan struct{}) {
		g.Do(func(ctx context.Context) {
			defer close(done)
			conn := xsync.NewGroup(ctx)
			for i := 0; i < p.InnerDos; i++ {
				conn.Do(func(ctx context.Context) {
					if p.RunMs > 0 {
						time.Sleep(time.Duration(p.RunMs) * time.Millisecond)
					}
					innerRan.Add(1)
				})
			}
			if depth > 1 {
				sub := make(chan struct{})
				build(conn, depth-1, sub)
				<-sub
			}
			conn.StopAndWait()
			late := func(ctx context.Context) { lateRan.Add(1) }
			for _, k := range p.Late { // the connection is closed: late work is dropped
				switch k {
				case 0:
					conn.Do(late)
				case 1:
					conn.Periodic(time.Millisecond, 0, late)
				case 2:
					conn.Trigger(late)()
				default:
					conn.PeriodicOrTrigger(time.Millisecond, 0, late)()
				}
			}
		})
	}
	build(outer, p.Depth, connDone)
	<-connDone
	// the outer group is still fully functional
	ran := make(chan struct{})
	outer.Do(func(ctx context.Context) { close(ran) })
	<-ran
	time.Sleep(time.Duration(p.StopAtMs) * time.Millisecond)
	outer.StopAndWait()
	time.Sleep(time.Second)
	synctest.Wait()
	if n := lateRan.Load(); n != 0 {
		return vk.Violf("barrier", "%d functions given to a group after its StopAndWait had returned were run", n)
	}
	return nil
}

func TestGroupReentrant(t *testing.T) {
	theT = t
	vk.Run(t, suite, "group-reentrant", 600, genReentrant, runReentrant)
}
