package c17group

import (
	"context"
	"fmt"
	"runtime"
	"sort"
	"sync"
	"sync/atomic"
	"testing"
	"testing/synctest"
	"time"

	"github.com/bradenaw/juniper/xsync"
	"pgregory.net/rapid"

	"verif/harness/sk"
	"verif/harness/vk"
)

var suite = vk.NewSuite("C17")
var theT *testing.T

func TestMain(m *testing.M) { suite.Main(m) }

type Reg struct {
	Kind     string `json:"kind"` // Do | Periodic | Trigger | PeriodicOrTrigger
	AtMs     int    `json:"at"`
	Interval int    `json:"interval,omitempty"`
	Jitter   int    `json:"jitter,omitempty"`
	RunMs    int    `json:"run"`
	Other    bool   `json:"other,omitempty"` // registered from another goroutine (may race with Stop)
	// Child: every run of this function starts another function through g.Do from inside the run (re-entrant
	// use of the group); those children are started "through Do" like any other and obey the same barrier.
	Child bool `json:"child,omitempty"`
}

type Trig struct {
	Reg        int  `json:"reg"`
	AtMs       int  `json:"at"`
	Burst      int  `json:"burst"`
	Concurrent bool `json:"concurrent,omitempty"` // the burst's calls come from as many goroutines at once
}

type Plan struct {
	Regs     []Reg  `json:"regs"`
	Trigs    []Trig `json:"trigs"`
	StopAt   int    `json:"stop_at"`
	StopKind string `json:"stop_kind"` // StopAndWait | Stop+StopAndWait | ParentCancel
	Stoppers int    `json:"stoppers"`
	Storm    int    `json:"storm,omitempty"` // extra Do registrations from as many goroutines, racing with the stop
}

func genPlan(t *rapid.T) Plan {
	p := Plan{StopAt: rapid.SampledFrom([]int{0, 10, 100, 1000, 5000}).Draw(t, "stopat"),
		StopKind: rapid.SampledFrom([]string{"StopAndWait", "StopAndWait", "Stop+StopAndWait", "ParentCancel", "ParentDeadline"}).Draw(t, "stopkind"),
		Stoppers: rapid.IntRange(1, 3).Draw(t, "stoppers"), Storm: rapid.SampledFrom([]int{0, 0, 4, 16}).Draw(t, "storm")}
	n := rapid.IntRange(1, 5).Draw(t, "nregs")
	for i := 0; i < n; i++ {
		r := Reg{Kind: rapid.SampledFrom([]string{"Do", "Periodic", "Trigger", "Trigger", "PeriodicOrTrigger"}).Draw(t, "kind")}
		switch rapid.IntRange(0, 4).Draw(t, "when") {
		case 0:
			r.AtMs = p.StopAt // racing with the stop
			r.Other = true
		case 1:
			r.AtMs = p.StopAt + 10 // after the stop
		default:
			r.AtMs = rapid.SampledFrom([]int{0, 0, 1, 10, 50}).Draw(t, "at")
			r.Other = rapid.IntRange(0, 3).Draw(t, "other") == 0
		}
		r.Child = rapid.IntRange(0, 4).Draw(t, "child") == 0
		r.Interval = rapid.SampledFrom([]int{10, 100, 300}).Draw(t, "interval")
		r.Jitter = rapid.SampledFrom([]int{0, 1, r.Interval / 2, r.Interval - 1, r.Interval, r.Interval * 3 / 2, -r.Interval / 5}).Draw(t, "jitter") // no domain is documented: a jitter >= interval just makes some waits zero
		r.RunMs = rapid.SampledFrom([]int{0, 1, 5, r.Interval * 2}).Draw(t, "run")
		if r.Kind == "PeriodicOrTrigger" && rapid.Bool().Draw(t, "slowpot") {
			// runs longer than the interval: the tick fires during the run, so a trigger made during the run
			// finds both the timer channel and the trigger channel ready
			r.RunMs = r.Interval * rapid.IntRange(2, 3).Draw(t, "slowfactor")
			r.Jitter = 0
		}
		// a twin: the same kind and cadence as an earlier registration, another run time (functions registered
		// alike are still independent of each other)
		if i > 0 && rapid.IntRange(0, 3).Draw(t, "twin") == 0 {
			o := p.Regs[rapid.IntRange(0, i-1).Draw(t, "twinof")]
			r.Kind, r.Interval, r.Jitter = o.Kind, o.Interval, o.Jitter
			r.RunMs = rapid.SampledFrom([]int{0, 1, o.Interval * 2, o.Interval * 5}).Draw(t, "twinrun")
		}
		p.Regs = append(p.Regs, r)
	}
	m := rapid.IntRange(0, 12).Draw(t, "ntrigs")
	for i := 0; i < m; i++ {
		tr := Trig{Reg: rapid.IntRange(0, n-1).Draw(t, "treg"), Burst: rapid.IntRange(1, 3).Draw(t, "burst"), Concurrent: rapid.Bool().Draw(t, "conc")}
		if tr.Concurrent {
			tr.Burst = rapid.IntRange(2, 8).Draw(t, "cburst")
		}
		reg := p.Regs[tr.Reg]
		if rapid.Bool().Draw(t, "aimed") { // aimed at a run of its function: during it, at its end, right after it
			k := rapid.IntRange(0, 3).Draw(t, "nth")
			if reg.Kind == "PeriodicOrTrigger" || reg.Kind == "Periodic" {
				k += 1 + reg.Interval/(reg.RunMs+1) // the first run starts one interval after registration
			}
			tr.AtMs = reg.AtMs + k*(reg.RunMs+1) + rapid.SampledFrom([]int{0, 1, reg.RunMs / 2, reg.RunMs, reg.RunMs + 1}).Draw(t, "off")
		} else {
			tr.AtMs = rapid.SampledFrom([]int{0, 1, 2, 5, 10, 11, 50, 99, 100, 500, 999, 1000}).Draw(t, "tat")
		}
		p.Trigs = append(p.Trigs, tr)
	}
	return p
}

type runRec struct {
	reg          int
	start, end   int64 // logical stamps; end == 0 while running
	startT, endT time.Time
	ctxAtEnd     bool // context cancelled when the run ended
}

type trigRec struct {
	reg   int
	stamp int64
	at    time.Time
}

func run(p Plan) (out vk.Outcome, verr error) {
	var stuck string
	func() {
		defer func() {
			if r := recover(); r != nil {
				stuck = fmt.Sprint(r)
			}
		}()
		synctest.Test(theT, func(t *testing.T) {
			defer func() {
				if r := recover(); r != nil {
					verr = vk.Violf("panic", "panic inside bubble: %v", r)
				}
			}()
			verr = script(p, &out)
		})
	}()
	if stuck != "" && verr == nil {
		verr = vk.Violf("stuck", "StopAndWait never returned or a goroutine was left behind: %s", stuck)
	}
	return out, verr
}

type event struct {
	at   int
	kind int // 0 = registration, 1 = trigger, 2 = stop
	idx  int
}

func script(p Plan, out *vk.Outcome) error {
	parent, parentCancel := sk.WithCancel(context.Background())
	defer parentCancel()
	if p.StopKind == "ParentDeadline" { // the parent context ends by deadline exactly at the stop time
		var c2 context.CancelFunc
		parent, c2 = sk.WithTimeout(parent, time.Duration(p.StopAt)*time.Millisecond)
		defer c2()
	}
	g := xsync.NewGroup(parent)
	var mu sync.Mutex
	var runs, stormRuns []*runRec
	var trigs []trigRec
	triggerFns := make([]func(), len(p.Regs))
	registeredAt := make([]time.Time, len(p.Regs))
	registered := make([]bool, len(p.Regs))
	start := time.Now()
	var helpers sync.WaitGroup

	mkF := func(i int) func(ctx context.Context) {
		return func(ctx context.Context) {
			r := &runRec{reg: i, startT: time.Now()}
			mu.Lock()
			r.start = sk.Tick()
			runs = append(runs, r)
			mu.Unlock()
			if p.Regs[i].Child {
				g.Do(func(ctx context.Context) {
					c := &runRec{reg: -1, startT: time.Now()}
					mu.Lock()
					c.start = sk.Tick()
					stormRuns = append(stormRuns, c)
					mu.Unlock()
					time.Sleep(time.Millisecond)
					mu.Lock()
					c.end, c.endT = sk.Tick(), time.Now()
					mu.Unlock()
				})
			}
			if d := p.Regs[i].RunMs; d > 0 {
				time.Sleep(time.Duration(d) * time.Millisecond)
			}
			mu.Lock()
			r.end, r.endT, r.ctxAtEnd = sk.Tick(), time.Now(), ctx.Err() != nil
			mu.Unlock()
		}
	}
	register := func(i int) {
		r := p.Regs[i]
		f := mkF(i)
		var fn func()
		switch r.Kind {
		case "Do":
			g.Do(f)
		case "Periodic":
			g.Periodic(time.Duration(r.Interval)*time.Millisecond, time.Duration(r.Jitter)*time.Millisecond, f)
		case "Trigger":
			fn = g.Trigger(f)
		case "PeriodicOrTrigger":
			fn = g.PeriodicOrTrigger(time.Duration(r.Interval)*time.Millisecond, time.Duration(r.Jitter)*time.Millisecond, f)
		}
		mu.Lock()
		triggerFns[i], registeredAt[i], registered[i] = fn, time.Now(), true
		mu.Unlock()
	}

	var evs []event
	for i, r := range p.Regs {
		evs = append(evs, event{r.AtMs, 0, i})
	}
	for i, tr := range p.Trigs {
		evs = append(evs, event{tr.AtMs, 1, i})
	}
	evs = append(evs, event{p.StopAt, 2, 0})
	sort.SliceStable(evs, func(a, b int) bool { return evs[a].at < evs[b].at })

	var stopCalled, stopReturned int64
	var stopReturnedT time.Time
	raced := false
	for _, ev := range evs {
		if d := time.Duration(ev.at)*time.Millisecond - time.Since(start); d > 0 {
			time.Sleep(d)
		}
		switch ev.kind {
		case 0:
			if p.Regs[ev.idx].Other {
				if ev.at == p.StopAt {
					raced = true
				}
				helpers.Add(1)
				go func(i int) { defer helpers.Done(); register(i) }(ev.idx)
			} else {
				register(ev.idx)
			}
		case 1:
			tr := p.Trigs[ev.idx]
			mu.Lock()
			fn := triggerFns[tr.Reg]
			mu.Unlock()
			if fn == nil {
				continue
			}
			if tr.Concurrent {
				var cw sync.WaitGroup
				gate := make(chan struct{})
				for b := 0; b < tr.Burst; b++ {
					mu.Lock()
					trigs = append(trigs, trigRec{tr.Reg, sk.Tick(), time.Now()})
					mu.Unlock()
					cw.Add(1)
					go func() { defer cw.Done(); <-gate; fn() }()
				}
				close(gate)
				cw.Wait()
				continue
			}
			for b := 0; b < tr.Burst; b++ {
				mu.Lock()
				trigs = append(trigs, trigRec{tr.Reg, sk.Tick(), time.Now()})
				mu.Unlock()
				fn()
			}
		case 2:
			mu.Lock()
			stopCalled = sk.Tick()
			mu.Unlock()
			stormStarted := make([]*runRec, 0)
			for k := 0; k < p.Storm; k++ {
				helpers.Add(1)
				go func() {
					defer helpers.Done()
					for rep := 0; rep < 40; rep++ { // keep registering while the stop is in progress
						g.Do(func(ctx context.Context) {
							r := &runRec{reg: -1, startT: time.Now()}
							mu.Lock()
							r.start = sk.Tick()
							stormRuns = append(stormRuns, r)
							mu.Unlock()
							mu.Lock()
							r.end, r.endT = sk.Tick(), time.Now()
							mu.Unlock()
						})
					}
				}()
			}
			_ = stormStarted
			var stoppers sync.WaitGroup
			for s := 1; s < p.Stoppers; s++ {
				stoppers.Add(1)
				go func() { defer stoppers.Done(); g.StopAndWait() }()
			}
			switch p.StopKind {
			case "Stop+StopAndWait":
				g.Stop()
				g.StopAndWait()
			case "ParentCancel":
				parentCancel()
				g.StopAndWait()
			case "ParentDeadline":
				synctest.Wait() // the deadline has fired by now
				g.StopAndWait()
			default:
				g.StopAndWait()
			}
			mu.Lock()
			stopReturned, stopReturnedT = sk.Tick(), time.Now()
			// barrier: nothing is running now
			for _, r := range runs {
				if r.end == 0 {
					mu.Unlock()
					return vk.Violf("barrier", "StopAndWait returned while a run of registration %d (%s) was still active", r.reg, p.Regs[r.reg].Kind)
				}
			}
			mu.Unlock()
			stoppers.Wait()
		}
	}
	helpers.Wait()
	// observation tail: nothing starts any more
	time.Sleep(100 * 300 * time.Millisecond)
	synctest.Wait()
	mu.Lock()
	defer mu.Unlock()
	for _, r := range stormRuns {
		if r.start > stopReturned || r.end == 0 || r.end > stopReturned {
			return vk.Violf("started-after-stop", "a Do registered concurrently with StopAndWait, or from inside a running group function, ran (start stamp %d, end %d) after StopAndWait had returned (stamp %d)", r.start, r.end, stopReturned)
		}
	}
	if p.Storm > 0 {
		raced = true
	}
	perReg := map[int][]*runRec{}
	for _, r := range runs {
		if r.end == 0 {
			return vk.Violf("barrier", "a run of registration %d is still active long after StopAndWait returned", r.reg)
		}
		if r.start > stopReturned {
			return vk.Violf("started-after-stop", "registration %d (%s, registered at +%dms, stop at +%dms) started a run after StopAndWait had returned", r.reg, p.Regs[r.reg].Kind, p.Regs[r.reg].AtMs, p.StopAt)
		}
		if r.endT.After(stopReturnedT) {
			return vk.Violf("barrier", "a run of registration %d ended after StopAndWait returned", r.reg)
		}
		perReg[r.reg] = append(perReg[r.reg], r)
	}
	triggerDuringRun := false
	for i, rs := range perReg {
		for j := 1; j < len(rs); j++ {
			if rs[j].start < rs[j-1].end {
				return vk.Violf("overlap", "two runs of registration %d (%s) overlap", i, p.Regs[i].Kind)
			}
		}
		if p.Regs[i].Kind == "Do" && len(rs) > 1 {
			return vk.Violf("do-twice", "Do ran its function %d times", len(rs))
		}
	}
	stopT := start.Add(time.Duration(p.StopAt) * time.Millisecond)
	for _, tr := range trigs {
		reg := p.Regs[tr.reg]
		for _, r := range perReg[tr.reg] {
			if r.start < tr.stamp && (r.end == 0 || r.end > tr.stamp) {
				triggerDuringRun = true
			}
		}
		// only triggers comfortably before the stop create an obligation
		if tr.stamp > stopCalled || !tr.at.Add(time.Duration(2*reg.RunMs+1)*time.Millisecond).Before(stopT) {
			continue
		}
		ok := false
		for _, r := range perReg[tr.reg] {
			if r.start > tr.stamp && r.end != 0 {
				ok = true
			}
		}
		if !ok {
			return vk.Violf("trigger-lost", "registration %d (%s, run time %dms): triggered at +%v, no complete run began after that call (stop at +%dms); runs: %d",
				tr.reg, reg.Kind, reg.RunMs, tr.at.Sub(start), p.StopAt, len(perReg[tr.reg]))
		}
	}
	for i, reg := range p.Regs {
		if !registered[i] || (reg.Kind != "Periodic" && reg.Kind != "PeriodicOrTrigger") {
			continue
		}
		if !registeredAt[i].Before(stopT) {
			continue
		}
		span := int(stopT.Sub(registeredAt[i]) / time.Millisecond)
		absJitter := reg.Jitter // "interval +/- jitter" is symmetric in the sign of jitter
		if absJitter < 0 {
			absJitter = -absJitter
		}
		want := span/(reg.Interval+absJitter+reg.RunMs+1) - 1
		if len(perReg[i]) < want {
			return vk.Violf("periodic-stalled", "registration %d (%s every %d+-%dms, run time %dms) was live for %dms and ran only %d times (at least %d expected)",
				i, reg.Kind, reg.Interval, reg.Jitter, reg.RunMs, span, len(perReg[i]), want)
		}
		if want >= 2 {
			out.Label("periodic-liveness-checked")
		}
	}
	for _, r := range runs {
		if r.endT.After(stopT) && !r.ctxAtEnd && r.endT.Sub(stopT) > 0 && p.StopKind != "" {
			return vk.Violf("ctx-not-cancelled", "a run of registration %d ended after the stop was issued and its context was not cancelled", r.reg)
		}
	}
	if triggerDuringRun {
		out.Label("trigger-during-run")
	}
	if raced {
		out.Label("registration-races-stop")
	}
	out.Label("stop:" + p.StopKind)
	out.NonTrivial = triggerDuringRun || raced
	return nil
}

func runReps(p Plan) (vk.Outcome, error) {
	n := vk.Reps(3, 10)
	var out vk.Outcome
	for i := 0; i < n; i++ {
		o, err := run(p)
		if err != nil {
			return o, err
		}
		for _, l := range o.Labels {
			out.Label(l)
		}
		out.NonTrivial = out.NonTrivial || o.NonTrivial
	}
	out.Execs = n
	return out, nil
}

func TestGroup(t *testing.T) {
	theT = t
	vk.Run(t, suite, "group", 1000, genPlan, runReps)
}

// ---------------------------------------------------------------------------------------------
// stop storm: many rounds of "goroutines keep registering Do while the group is stopped"

type StormPlan struct {
	Rounds     int    `json:"rounds"`
	Goroutines int    `json:"goroutines"`
	StopKind   string `json:"stop_kind"` // StopAndWait | Stop+StopAndWait | ParentCancel | ParentCancel+Stoppers
	RunMs      int    `json:"run_ms"`
}

func genStorm(t *rapid.T) StormPlan {
	return StormPlan{Rounds: rapid.IntRange(5, 30).Draw(t, "rounds"), Goroutines: rapid.IntRange(1, 6).Draw(t, "goroutines"),
		StopKind: rapid.SampledFrom([]string{"StopAndWait", "Stop+StopAndWait", "ParentCancel", "ParentCancel", "ParentCancel+Stoppers"}).Draw(t, "stopkind"),
		RunMs:    rapid.SampledFrom([]int{0, 0, 1}).Draw(t, "run")}
}

func runStorm(p StormPlan) (out vk.Outcome, verr error) {
	var stuck string
	func() {
		defer func() {
			if r := recover(); r != nil {
				stuck = fmt.Sprint(r)
			}
		}()
		synctest.Test(theT, func(t *testing.T) {
			defer func() {
				if r := recover(); r != nil {
					verr = vk.Violf("panic", "panic inside bubble: %v", r)
				}
			}()
			for round := 0; round < p.Rounds && verr == nil; round++ {
				parent, parentCancel := sk.WithCancel(context.Background())
				g := xsync.NewGroup(parent)
				var mu sync.Mutex
				var stopReturned int64
				var late, active int
				quit := make(chan struct{})
				var wg sync.WaitGroup
				for k := 0; k < p.Goroutines; k++ {
					wg.Add(1)
					go func() {
						defer wg.Done()
						for {
							select {
							case <-quit:
								return
							default:
							}
							g.Do(func(ctx context.Context) {
								mu.Lock()
								active++
								if stopReturned != 0 {
									late++
								}
								mu.Unlock()
								runtime.Gosched() // (no fake-time sleep here: the registrars below never block, so fake time cannot advance)
								mu.Lock()
								active--
								mu.Unlock()
							})
						}
					}()
				}
				for y := 0; y < 1+round%5; y++ { // let the registrars get going
					runtime.Gosched()
				}
				switch p.StopKind {
				case "Stop+StopAndWait":
					g.Stop()
					g.StopAndWait()
				case "ParentCancel":
					parentCancel()
					g.StopAndWait()
				case "ParentCancel+Stoppers":
					parentCancel()
					var sw sync.WaitGroup
					for s := 0; s < 2; s++ {
						sw.Add(1)
						go func() { defer sw.Done(); g.StopAndWait() }()
					}
					g.StopAndWait()
					sw.Wait()
				default:
					g.StopAndWait()
				}
				mu.Lock()
				stopReturned = sk.Tick()
				running := active
				mu.Unlock()
				if running != 0 {
					verr = vk.Violf("barrier", "round %d: StopAndWait returned while %d functions started through Do were still running", round, running)
				}
				close(quit)
				wg.Wait()
				synctest.Wait() // anything that slipped through has started by now
				time.Sleep(5 * time.Millisecond)
				synctest.Wait()
				mu.Lock()
				l := late
				mu.Unlock()
				if l > 0 && verr == nil {
					verr = vk.Violf("started-after-stop", "round %d (%s): %d functions registered with Do concurrently with the stop started after StopAndWait had returned", round, p.StopKind, l)
				}
				parentCancel()
			}
		})
	}()
	if stuck != "" && verr == nil {
		verr = vk.Violf("stuck", "%s", stuck)
	}
	out.Label("stop:" + p.StopKind)
	out.NonTrivial = p.Goroutines >= 2
	out.Execs = p.Rounds
	return out, verr
}

func TestStopStorm(t *testing.T) {
	theT = t
	vk.Run(t, suite, "stop-storm", 400, genStorm, runStorm)
}

// ---------------------------------------------------------------------------------------------
// first calls of a trigger function racing each other, then triggers during runs: runs never overlap

type FirstCallPlan struct {
	Kind    string `json:"kind"` // Trigger | PeriodicOrTrigger
	Callers int    `json:"callers"`
	Rounds  int    `json:"rounds"`
	Later   int    `json:"later"` // trigger calls made afterwards, while runs are in progress
}

func genFirstCall(t *rapid.T) FirstCallPlan {
	return FirstCallPlan{Kind: rapid.SampledFrom([]string{"Trigger", "Trigger", "PeriodicOrTrigger"}).Draw(t, "kind"),
		Callers: rapid.IntRange(2, 8).Draw(t, "callers"), Rounds: rapid.IntRange(10, 40).Draw(t, "rounds"), Later: rapid.IntRange(1, 4).Draw(t, "later")}
}

func runFirstCall(p FirstCallPlan) (out vk.Outcome, verr error) {
	var stuck string
	func() {
		defer func() {
			if r := recover(); r != nil {
				stuck = fmt.Sprint(r)
			}
		}()
		synctest.Test(theT, func(t *testing.T) {
			defer func() {
				if r := recover(); r != nil {
					verr = vk.Violf("panic", "panic inside bubble: %v", r)
				}
			}()
			for round := 0; round < p.Rounds && verr == nil; round++ {
				g := xsync.NewGroup(context.Background())
				var mu sync.Mutex
				active, maxActive, runs := 0, 0, 0
				f := func(ctx context.Context) {
					mu.Lock()
					active++
					runs++
					if active > maxActive {
						maxActive = active
					}
					mu.Unlock()
					time.Sleep(2 * time.Millisecond)
					mu.Lock()
					active--
					mu.Unlock()
				}
				var fn func()
				if p.Kind == "Trigger" {
					fn = g.Trigger(f)
				} else {
					fn = g.PeriodicOrTrigger(time.Hour, 0, f)
				}
				gate := make(chan struct{})
				var cw sync.WaitGroup
				for k := 0; k < p.Callers; k++ {
					cw.Add(1)
					go func() { defer cw.Done(); <-gate; fn() }()
				}
				close(gate)
				cw.Wait()
				for k := 0; k < p.Later; k++ {
					time.Sleep(time.Millisecond) // a run is in progress now
					fn()
					fn()
				}
				time.Sleep(20 * time.Millisecond)
				g.StopAndWait()
				mu.Lock()
				ma, rn := maxActive, runs
				mu.Unlock()
				if ma > 1 {
					verr = vk.Violf("overlap", "round %d: %d runs of one %s function were in progress at the same time (%d racing first calls of the trigger function)", round, ma, p.Kind, p.Callers)
				}
				if rn == 0 {
					verr = vk.Violf("trigger-lost", "round %d: the function never ran although it was triggered %d times", round, p.Callers+2*p.Later)
				}
			}
		})
	}()
	if stuck != "" && verr == nil {
		verr = vk.Violf("stuck", "%s", stuck)
	}
	out.NonTrivial = true
	out.Execs = p.Rounds
	return out, verr
}

func TestTriggerFirstCallRace(t *testing.T) {
	theT = t
	vk.Run(t, suite, "trigger-first-call", 250, genFirstCall, runFirstCall)
}

// ---------------------------------------------------------------------------------------------
// trigger storm: a trigger call placed in the instants right after a run has finished, while the
// worker is on its way back to sleep. The call must still be followed by a run that begins after it.
// Inside a bubble "no run followed" is decided at quiescence (synctest.Wait), not by a timeout.

type TrigStormPlan struct {
	Kind   string `json:"kind"` // Trigger | PeriodicOrTrigger
	Rounds int    `json:"rounds"`
	Sweep  int    `json:"sweep"` // the delay between the end of a run and the next trigger call sweeps 0..Sweep busy iterations
	// Callers > 0: that many goroutines call the trigger, each pacing itself around the ends of the runs, until
	// Rounds runs have happened; what is checked is that two runs of f never overlap and none runs after the stop.
	Callers int `json:"callers,omitempty"`
}

func genTrigStorm(t *rapid.T) TrigStormPlan {
	return TrigStormPlan{Kind: rapid.SampledFrom([]string{"Trigger", "Trigger", "PeriodicOrTrigger"}).Draw(t, "kind"),
		Rounds: rapid.IntRange(1000, 5000).Draw(t, "rounds"), Sweep: rapid.SampledFrom([]int{16, 64, 256}).Draw(t, "sweep"),
		Callers: rapid.SampledFrom([]int{0, 0, 3, 4}).Draw(t, "callers")}
}

// runTrigOverlap: several callers trigger around the end of every run (real goroutines, no clock involved).
func runTrigOverlap(p TrigStormPlan) (out vk.Outcome, verr error) {
	g := xsync.NewGroup(context.Background())
	var active, maxActive atomic.Int32
	var runs atomic.Uint64
	f := func(ctx context.Context) {
		a := active.Add(1)
		for {
			m := maxActive.Load()
			if a <= m || maxActive.CompareAndSwap(m, a) {
				break
			}
		}
		for k := 0; k < 50; k++ {
			stormSink.Add(1)
		}
		runs.Add(1)
		active.Add(-1)
	}
	var trigger func()
	if p.Kind == "Trigger" {
		trigger = g.Trigger(f)
	} else {
		trigger = g.PeriodicOrTrigger(1000*time.Hour, 0, f)
	}
	var wg sync.WaitGroup
	var calls atomic.Uint64
	for c := 0; c < p.Callers; c++ {
		wg.Add(1)
		go func(c int) {
			defer wg.Done()
			for i := 0; runs.Load() < uint64(p.Rounds) && i < 50*p.Rounds; i++ {
				seen := runs.Load()
				trigger()
				calls.Add(1)
				for spin := 0; runs.Load() == seen && spin < 2000; spin++ { // until a run has ended (or nearly so)
					if spin%64 == 63 {
						runtime.Gosched()
					}
				}
				for k := 0; k < (i+c*7)%(p.Sweep+1); k++ {
					stormSink.Add(1)
				}
			}
		}(c)
	}
	wg.Wait()
	g.StopAndWait()
	after := runs.Load()
	if m := maxActive.Load(); m > 1 {
		verr = vk.Violf("overlap", "%d runs of one %s function were in progress at the same time (%d goroutines calling the trigger around the end of each run, %d runs, %d calls)", m, p.Kind, p.Callers, after, calls.Load())
	}
	runtime.Gosched()
	if verr == nil && (active.Load() != 0 || runs.Load() != after) {
		verr = vk.Violf("ran-after-stop", "the %s function was running after StopAndWait had returned", p.Kind)
	}
	out.NonTrivial, out.Execs = true, int(after)
	out.Label("trigger-storm/overlap")
	return out, verr
}

var stormSink atomic.Int64

func runTrigStorm(p TrigStormPlan) (out vk.Outcome, verr error) {
	if p.Callers > 0 {
		return runTrigOverlap(p)
	}
	var stuck string
	func() {
		defer func() {
			if r := recover(); r != nil {
				stuck = fmt.Sprint(r)
			}
		}()
		synctest.Test(theT, func(t *testing.T) {
			defer func() {
				if r := recover(); r != nil {
					verr = vk.Violf("panic", "panic inside bubble: %v", r)
				}
			}()
			g := xsync.NewGroup(context.Background())
			var started, ending, ended atomic.Uint64
			f := func(ctx context.Context) {
				started.Add(1)
				for k := 0; k < 400; k++ { // a run takes a moment, so that "during" and "at the very end of" a run exist
					stormSink.Add(1)
				}
				ending.Add(1) // the last thing f does before it returns
				ended.Add(1)
			}
			var trigger func()
			if p.Kind == "Trigger" {
				trigger = g.Trigger(f)
			} else {
				trigger = g.PeriodicOrTrigger(1000*time.Hour, 0, f)
			}
			// runAfter: has a run begun since `before` was sampled? spins briefly, then decides at quiescence
			runAfter := func(c *atomic.Uint64, before uint64) bool {
				for i := 0; i < 20000; i++ {
					if c.Load() != before {
						return true
					}
					if i%256 == 255 {
						runtime.Gosched()
					}
				}
				synctest.Wait()
				return c.Load() != before
			}
			for round := 0; round < p.Rounds; round++ {
				// the worker is idle and owes nothing: the previous round's run is over, its token used up
				synctest.Wait()
				b, e := started.Load(), ended.Load()
				trigger()
				if !runAfter(&ended, e) || started.Load() == b {
					verr = vk.Violf("trigger-lost", "round %d: a %s trigger call on an idle worker was not followed by a run", round, p.Kind)
					break
				}
				for k := 0; k < round%(p.Sweep+1); k++ {
					stormSink.Add(1)
				}
				b = started.Load()
				trigger()
				if !runAfter(&started, b) {
					verr = vk.Violf("trigger-lost", "round %d: a %s trigger call made right after a run had finished (%d busy iterations later) was never followed by a run that began after it", round, p.Kind, round%(p.Sweep+1))
					break
				}
				if round%2 == 1 {
					// ... and one made during a run, or in that run's last instructions: the run in progress began
					// before the call, so another one has to begin after it
					s0, en := started.Load(), ending.Load()
					trigger()
					if !runAfter(&started, s0) {
						verr = vk.Violf("trigger-lost", "round %d: a %s trigger call on an idle worker was not followed by a run", round, p.Kind)
						break
					}
					if round%4 == 1 { // wait for the run to reach its last instruction
						for i := 0; i < 20000 && ending.Load() == en; i++ {
						}
					}
					b = started.Load()
					trigger()
					if !runAfter(&started, b) {
						verr = vk.Violf("trigger-lost", "round %d: a %s trigger call made while a run was under way (ending: %v) was never followed by a run that began after the call", round, p.Kind, round%4 == 1)
						break
					}
				}
			}
			g.StopAndWait()
		})
	}()
	if stuck != "" && verr == nil {
		verr = vk.Violf("stuck", "%s", stuck)
	}
	out.NonTrivial = true
	out.Execs = p.Rounds
	return out, verr
}

func TestTriggerStorm(t *testing.T) {
	theT = t
	vk.Run(t, suite, "trigger-storm", 40, genTrigStorm, runTrigStorm)
}
