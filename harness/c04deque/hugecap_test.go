package c04deque

import (
	"fmt"
	"testing"

	"github.com/bradenaw/juniper/container/deque"
	"pgregory.net/rapid"

	"verif/harness/vk"
)

// deque-huge-cap: a Deque[byte] whose buffer has between 2^31 and 2^32 slots (Grow reserves them; the pages are
// only touched where items are written, so this costs address space, not memory). Ring arithmetic on such a
// buffer passes through values that do not fit 31 or 32 bits. A few hundred operations at both ends, with the
// front at the start, in the middle and near the end of the buffer, against a slice model.

type HugeCapPlan struct {
	Cap     int64 `json:"cap"`
	Advance int   `json:"advance"` // per mille of the capacity the front is moved along before the checked part
	Ops     []int `json:"ops"`     // 0 PushFront 1 PushBack 2 PopFront 3 PopBack 4 Item 5 Set
}

func genHugeCap(t *rapid.T) HugeCapPlan {
	return HugeCapPlan{Cap: rapid.SampledFrom([]int64{1<<32 - 1, 1<<31 + 1, 3 << 30, 1<<32 + 5, 1 << 31}).Draw(t, "cap"),
		Advance: rapid.SampledFrom([]int{0, 0, 500, 999}).Draw(t, "advance"), Ops: rapid.SliceOfN(rapid.IntRange(0, 5), 20, 200).Draw(t, "ops")}
}

func runHugeCap(p HugeCapPlan) (vk.Outcome, error) {
	var out vk.Outcome
	var d deque.Deque[byte]
	d.Grow(int(p.Cap))
	var model []byte
	next := byte(1)
	check := func(step int, what string) error {
		if d.Len() != len(model) {
			return vk.Violf("len", "capacity %d, step %d (%s): Len() = %d, model %d", p.Cap, step, what, d.Len(), len(model))
		}
		for i := 0; i < len(model); i++ {
			if got := d.Item(i); got != model[i] {
				return vk.Violf("contents", "capacity %d, step %d (%s): Item(%d) = %d, model %d (contents %v)", p.Cap, step, what, i, got, model[i], model)
			}
		}
		if len(model) > 0 && (d.Front() != model[0] || d.Back() != model[len(model)-1]) {
			return vk.Violf("contents", "capacity %d, step %d (%s): Front/Back = %d/%d, model %d/%d", p.Cap, step, what, d.Front(), d.Back(), model[0], model[len(model)-1])
		}
		return nil
	}
	// move the front along the buffer: push at the back, pop at the front (only the slots of live items are touched,
	// and there are two of them at a time; but the walk is a loop over the whole distance, so it is done in strides
	// by pushing at the FRONT of an empty deque, which places the item at the far end of the buffer)
	if p.Advance > 0 {
		d.PushFront(next) // an empty deque: the item goes to the last slot, front is now cap-1
		model = append(model, next)
		next++
		if p.Advance < 999 {
			d.PopFront()
			model = model[:0]
		}
	}
	if err := check(-1, "setup"); err != nil {
		return out, err
	}
	for i, o := range p.Ops {
		what := []string{"PushFront", "PushBack", "PopFront", "PopBack", "Item", "Set"}[o]
		switch o {
		case 0:
			d.PushFront(next)
			model = append([]byte{next}, model...)
			next++
		case 1:
			d.PushBack(next)
			model = append(model, next)
			next++
		case 2:
			if len(model) > 0 {
				if got := d.PopFront(); got != model[0] {
					return out, vk.Violf("pop", "capacity %d, step %d: PopFront = %d, model %d", p.Cap, i, got, model[0])
				}
				model = model[1:]
			}
		case 3:
			if len(model) > 0 {
				if got := d.PopBack(); got != model[len(model)-1] {
					return out, vk.Violf("pop", "capacity %d, step %d: PopBack = %d, model %d", p.Cap, i, got, model[len(model)-1])
				}
				model = model[:len(model)-1]
			}
		case 5:
			if len(model) > 0 {
				j := (i * 7) % len(model)
				d.Set(j, next)
				model[j] = next
				next++
			}
		}
		if next == 0 {
			next = 1
		}
		if err := check(i, what); err != nil {
			return out, err
		}
	}
	it := d.Iterate()
	for i := 0; ; i++ {
		v, ok := it.Next()
		if !ok {
			if i != len(model) {
				return out, vk.Violf("iterate", "capacity %d: Iterate yielded %d of %d items", p.Cap, i, len(model))
			}
			break
		}
		if i >= len(model) || v != model[i] {
			return out, vk.Violf("iterate", "capacity %d: Iterate item %d = %d, model %v", p.Cap, i, v, model)
		}
	}
	out.NonTrivial = true
	out.Label(fmt.Sprintf("cap>2^31:%v", p.Cap > 1<<31))
	return out, nil
}

func TestDequeHugeCap(t *testing.T) {
	if ^uint(0)>>32 == 0 {
		t.Skip("needs a 64-bit address space")
	}
	vk.Run(t, suite, "deque-huge-cap", 3, genHugeCap, runHugeCap)
}
