package c04deque

import (
	"fmt"
	"math"
	"runtime"
	"testing"
	"time"
	"weak"

	"github.com/bradenaw/juniper/container/deque"
	"pgregory.net/rapid"

	"verif/harness/vk"
)

var suite = vk.NewSuite("C04")

func TestMain(m *testing.M) { suite.HangLimit = 60 * time.Second; suite.Main(m) }

// Op is one step of a plan. The integer argument of index/size operations is Base+A where Base is
// resolved at execution time: "" = 0, "len" = current Len, "free" = cap-Len.
type Op struct {
	Op   string `json:"op"`
	Base string `json:"base,omitempty"`
	A    int    `json:"a,omitempty"`
}

type Plan struct {
	Ops []Op `json:"ops"`
}

var opNames = []string{
	"PushFront", "PushBack", "PopFront", "PopBack", "Front", "Back", "Item", "Set", "Len", "Iterate",
	"Grow", "Shrink", "PushBackN", "PushFrontN", "PopFrontN", "PopBackN", "PopUntil",
}

func genOp(t *rapid.T) Op {
	name := rapid.SampledFrom(opNames).Draw(t, "op")
	o := Op{Op: name}
	switch name {
	case "Item", "Set":
		switch rapid.IntRange(0, 6).Draw(t, "idxclass") {
		case 0:
			o.A = -1
		case 1:
			o.A = 0
		case 2:
			o.A = 1
		case 3:
			o.Base, o.A = "len", -1
		case 4:
			o.Base, o.A = "len", 0
		case 5:
			o.Base, o.A = "len", 1
		default:
			o.A = rapid.IntRange(0, 80).Draw(t, "idx")
		}
	case "Grow":
		switch rapid.IntRange(0, 6).Draw(t, "growclass") {
		case 0:
			o.A = -1
		case 1:
			o.A = 0
		case 2:
			o.A = 1
		case 3:
			o.Base, o.A = "free", -1
		case 4:
			o.Base, o.A = "free", 0
		case 5:
			o.Base, o.A = "free", 1
		default:
			o.A = rapid.IntRange(2, 100).Draw(t, "n")
		}
	case "Shrink":
		switch rapid.IntRange(0, 7).Draw(t, "shrinkclass") {
		case 7:
			// "keep any amount of spare room": a legal no-op, also at the far end of the int range
			o.A = rapid.SampledFrom([]int{math.MaxInt, math.MaxInt - 1, math.MaxInt / 2, math.MinInt}).Draw(t, "huge")
		case 0:
			o.A = -1
		case 1:
			o.A = 0
		case 2:
			o.A = 1
		case 3:
			o.Base, o.A = "free", -1
		case 4:
			o.Base, o.A = "free", 0
		case 5:
			o.Base, o.A = "free", 1
		default:
			o.A = rapid.IntRange(2, 40).Draw(t, "n")
		}
	case "PushBackN", "PushFrontN", "PopFrontN", "PopBackN":
		switch rapid.IntRange(0, 3).Draw(t, "nclass") {
		case 0:
			o.Base, o.A = "free", rapid.IntRange(-1, 1).Draw(t, "d")
		case 1:
			o.Base, o.A = "len", rapid.IntRange(-2, 0).Draw(t, "d")
		default:
			o.A = rapid.IntRange(1, 70).Draw(t, "n")
		}
	case "PopUntil":
		o.A = rapid.IntRange(0, 3).Draw(t, "left")
	}
	return o
}

func genPlan(t *rapid.T) Plan {
	p := Plan{Ops: rapid.SliceOfN(rapid.Custom(genOp), 1, 80).Draw(t, "ops")}
	if rapid.IntRange(0, 24).Draw(t, "backlog") == 0 { // one plan in 25 builds up a backlog of 1000-4300 items somewhere
		at := rapid.IntRange(0, len(p.Ops)).Draw(t, "backlogat")
		bulk := Op{Op: "BulkPush", A: rapid.IntRange(0, 3299).Draw(t, "backlogn")}
		p.Ops = append(p.Ops[:at], append([]Op{bulk}, p.Ops[at:]...)...)
	}
	return p
}

// runner is generic over the element type: *elem (fresh pointers, so that retention is visible) and
// any (values that include the nil interface and the zero int - a zero value is an ordinary element).
type runner[T comparable] struct {
	d      deque.Deque[T]
	model  []T
	mk     func(id int) T
	popped func(T) // called with every popped element (weak-pointer bookkeeping for the pointer instantiation)
	nextID int
	out    vk.Outcome
	// facts for the non-trivial rule
	sawWrappedOrFull bool
	reallocWrapped   bool
}

func (r *runner[T]) fresh() T {
	r.nextID++
	return r.mk(r.nextID)
}

func (r *runner[T]) resolve(o Op) int {
	capacity, _, _, _ := r.d.VerifState()
	switch o.Base {
	case "len":
		return len(r.model) + o.A
	case "free":
		return capacity - len(r.model) + o.A
	}
	return o.A
}

func (r *runner[T]) wrapped() bool {
	_, front, back, _ := r.d.VerifState()
	return len(r.model) > 0 && front > back
}

// observe compares the complete visible state with the model and checks slot retention.
func (r *runner[T]) observe(step int, o Op) error {
	d := &r.d
	if d.Len() != len(r.model) {
		return vk.Violf("len", "step %d %v: Len()=%d model %d", step, o, d.Len(), len(r.model))
	}
	for i, want := range r.model {
		if got := d.Item(i); got != want {
			return vk.Violf("item", "step %d %v: Item(%d)=%v want %v", step, o, i, deref(got), deref(want))
		}
	}
	if len(r.model) > 0 {
		if got := d.Front(); got != r.model[0] {
			return vk.Violf("front", "step %d %v: Front()=%v want %v", step, o, deref(got), deref(r.model[0]))
		}
		if got := d.Back(); got != r.model[len(r.model)-1] {
			return vk.Violf("back", "step %d %v: Back()=%v want %v", step, o, deref(got), deref(r.model[len(r.model)-1]))
		}
	} else {
		if p, _ := vk.Catch(func() { d.Front() }); !p {
			return vk.Violf("nopanic", "step %d %v: Front() on empty deque did not panic", step, o)
		}
		if p, _ := vk.Catch(func() { d.Back() }); !p {
			return vk.Violf("nopanic", "step %d %v: Back() on empty deque did not panic", step, o)
		}
	}
	it := d.Iterate()
	for i := 0; ; i++ {
		got, ok := it.Next()
		if i == len(r.model) {
			if ok {
				return vk.Violf("iterate", "step %d %v: Iterate yields more than %d items", step, o, len(r.model))
			}
			if _, ok2 := it.Next(); ok2 {
				return vk.Violf("iterate", "step %d %v: Iterate end not sticky", step, o)
			}
			break
		}
		if !ok {
			return vk.Violf("iterate", "step %d %v: Iterate ended after %d of %d items", step, o, i, len(r.model))
		}
		if got != r.model[i] {
			return vk.Violf("iterate", "step %d %v: Iterate item %d = %v want %v", step, o, i, deref(got), deref(r.model[i]))
		}
	}
	// two iterators alive at once are independent of each other: an outer one, and for its first three items a
	// complete inner walk (iterating pairs)
	if n := len(r.model); n >= 2 && n <= 64 {
		outer := d.Iterate()
		for i := 0; i < n; i++ {
			got, ok := outer.Next()
			if !ok || got != r.model[i] {
				return vk.Violf("iterate", "step %d %v: outer iterator item %d = (%v, %v), want %v (another iterator over the same deque was used in between)", step, o, i, deref(got), ok, deref(r.model[i]))
			}
			if i < 3 {
				inner := d.Iterate()
				for j := 0; j <= n; j++ {
					g2, ok2 := inner.Next()
					if ok2 != (j < n) || (ok2 && g2 != r.model[j]) {
						return vk.Violf("iterate", "step %d %v: inner iterator (created while another one is in use) item %d = (%v, %v)", step, o, j, deref(g2), ok2)
					}
				}
			}
		}
	}
	// retention: every raw slot outside the live window is nil.
	capacity, front, back, _ := d.VerifState()
	slots := d.VerifSlots()
	live := make([]bool, capacity)
	for i := range r.model {
		live[(front+i)%capacity] = true
	}
	for i, p := range slots {
		var zero T
		if !live[i] && p != zero {
			return vk.Violf("retained", "step %d %v: vacated slot %d (cap %d front %d back %d len %d) still references element %v",
				step, o, i, capacity, front, back, len(r.model), deref(p))
		}
	}
	full := capacity > 0 && len(r.model) == capacity
	if r.wrapped() || full {
		r.sawWrappedOrFull = true
		r.out.States = append(r.out.States, vk.HashOf([3]int{capacity, front, back}))
		if r.wrapped() {
			r.out.Label("wrapped")
		}
		if full {
			r.out.Label("full")
		}
		if full && r.wrapped() {
			r.out.Label("wrapped+full")
		}
	}
	return nil
}

// elem is what the pointer instantiation stores. It is deliberately larger than 16 bytes: the runtime packs
// smaller pointer-free objects several to a block ("tiny allocator"), and a weak pointer to one of them
// stays live for as long as any of its block mates does.
type elem struct {
	id  int
	pad [3]int
}

func deref(p any) any {
	if q, ok := p.(*elem); ok {
		if q == nil {
			return nil
		}
		return q.id
	}
	return p
}

func (r *runner[T]) expectPanic(step int, o Op, f func()) error {
	if p, _ := vk.Catch(f); !p {
		return vk.Violf("nopanic", "step %d %v: expected a panic (len %d)", step, o, len(r.model))
	}
	r.out.Label("expected-panic")
	return nil
}

func (r *runner[T]) pushBack() {
	v := r.fresh()
	r.d.PushBack(v)
	r.model = append(r.model, v)
}
func (r *runner[T]) pushFront() {
	v := r.fresh()
	r.d.PushFront(v)
	r.model = append([]T{v}, r.model...)
}
func (r *runner[T]) popFront(step int, o Op) error {
	got := r.d.PopFront()
	if got != r.model[0] {
		return vk.Violf("pop", "step %d %v: PopFront()=%v want %v", step, o, deref(got), deref(r.model[0]))
	}
	if r.popped != nil {
		r.popped(got)
	}
	var zero T
	r.model[0] = zero // (the model must not keep the popped element alive either)
	r.model = r.model[1:]
	return nil
}
func (r *runner[T]) popBack(step int, o Op) error {
	got := r.d.PopBack()
	if got != r.model[len(r.model)-1] {
		return vk.Violf("pop", "step %d %v: PopBack()=%v want %v", step, o, deref(got), deref(r.model[len(r.model)-1]))
	}
	if r.popped != nil {
		r.popped(got)
	}
	var zero T
	r.model[len(r.model)-1] = zero
	r.model = r.model[:len(r.model)-1]
	return nil
}

func (r *runner[T]) step(step int, o Op) error {
	d := &r.d
	capBefore, _, _, _ := d.VerifState()
	wrappedBefore := r.wrapped()
	arg := r.resolve(o)
	switch o.Op {
	case "PushFront":
		r.pushFront()
	case "PushBack":
		r.pushBack()
	case "PopFront":
		if len(r.model) == 0 {
			if err := r.expectPanic(step, o, func() { d.PopFront() }); err != nil {
				return err
			}
		} else if err := r.popFront(step, o); err != nil {
			return err
		}
	case "PopBack":
		if len(r.model) == 0 {
			if err := r.expectPanic(step, o, func() { d.PopBack() }); err != nil {
				return err
			}
		} else if err := r.popBack(step, o); err != nil {
			return err
		}
	case "Front", "Back", "Len", "Iterate":
		// covered by observe()
	case "Item":
		if arg < 0 || arg >= len(r.model) {
			if err := r.expectPanic(step, o, func() { d.Item(arg) }); err != nil {
				return err
			}
		}
	case "Set":
		v := r.fresh()
		if arg < 0 || arg >= len(r.model) {
			if err := r.expectPanic(step, o, func() { d.Set(arg, v) }); err != nil {
				return err
			}
		} else {
			d.Set(arg, v)
			r.model[arg] = v
		}
	case "Grow":
		d.Grow(arg)
		if capNow, _, _, _ := d.VerifState(); arg > 0 && capNow-len(r.model) < arg {
			return vk.Violf("grow", "step %d %v: after Grow(%d) only %d free slots", step, o, arg, capNow-len(r.model))
		}
	case "Shrink":
		if arg < 0 {
			if err := r.expectPanic(step, o, func() { d.Shrink(arg) }); err != nil {
				return err
			}
		} else {
			d.Shrink(arg)
			if capNow, _, _, _ := d.VerifState(); capNow-len(r.model) > arg && capNow-len(r.model) > 0 {
				return vk.Violf("shrink", "step %d %v: after Shrink(%d) %d free slots remain", step, o, arg, capNow-len(r.model))
			}
			r.out.Label("shrink")
		}
	case "BulkPush":
		// a long backlog: more items than the small plans ever hold (growth policies change with size); the
		// full observation runs every 257th push and at the end
		n := 1000 + o.A%3300
		for i := 0; i < n; i++ {
			r.pushBack() // (at the back only: the slice model pays O(n) for every push at the front)
			if d.Len() != len(r.model) {
				return vk.Violf("len", "step %d %v: after %d pushes of the backlog Len()=%d, model %d", step, o, i+1, d.Len(), len(r.model))
			}
			if i%257 == 0 {
				if err := r.observe(step, o); err != nil {
					return err
				}
			}
		}
		if err := r.observe(step, o); err != nil {
			return err
		}
		// ... and the backlog is worked off again (so that the rest of the plan runs on a small deque)
		for i := 0; len(r.model) > n%97; i++ {
			var err error
			if (o.A/2)%2 == 0 {
				err = r.popFront(step, o)
			} else {
				err = r.popBack(step, o)
			}
			if err != nil {
				return err
			}
			if i%257 == 0 {
				if err := r.observe(step, o); err != nil {
					return err
				}
			}
		}
		r.out.Label("backlog>1000")
	case "PushBackN", "PushFrontN":
		for i := 0; i < arg && i < 200; i++ {
			if o.Op == "PushBackN" {
				r.pushBack()
			} else {
				r.pushFront()
			}
			if err := r.observe(step, o); err != nil {
				return err
			}
		}
	case "PopFrontN", "PopBackN":
		for i := 0; i < arg && len(r.model) > 0; i++ {
			var err error
			if o.Op == "PopFrontN" {
				err = r.popFront(step, o)
			} else {
				err = r.popBack(step, o)
			}
			if err == nil {
				err = r.observe(step, o)
			}
			if err != nil {
				return err
			}
		}
	case "PopUntil":
		for len(r.model) > arg {
			var err error
			if len(r.model)%2 == 0 {
				err = r.popFront(step, o)
			} else {
				err = r.popBack(step, o)
			}
			if err == nil {
				err = r.observe(step, o)
			}
			if err != nil {
				return err
			}
		}
	default:
		return fmt.Errorf("unknown op %q", o.Op)
	}
	if capNow, _, _, _ := d.VerifState(); capNow != capBefore {
		r.out.Label("realloc")
		if wrappedBefore {
			r.reallocWrapped = true
			r.out.Label("realloc-while-wrapped")
		}
	}
	return r.observe(step, o)
}

// runPlan: pointer elements. Besides the raw-slot check after every step, "popped elements are not
// retained" is checked the way a user would notice it: every popped element is remembered through a weak
// pointer only, and after a garbage collection at the end of the plan - the deque itself still alive -
// none of them may be reachable any more (this also sees storage the read-only hook cannot see, such as
// the part of a backing array beyond the slice the deque keeps).
func runPlan(p Plan) (vk.Outcome, error) {
	var weaks []weak.Pointer[elem]
	var ids []int
	r := &runner[*elem]{mk: func(id int) *elem { return &elem{id: id} }}
	r.popped = func(e *elem) {
		weaks = append(weaks, weak.Make(e))
		ids = append(ids, e.id)
	}
	out, err := runOn(r, p)
	if err != nil {
		return out, err
	}
	gcWanted := len(p.Ops)%4 == 0
	for _, o := range p.Ops {
		if o.Op == "Shrink" || o.Op == "Grow" {
			gcWanted = true
		}
	}
	if gcWanted && len(weaks) > 0 {
		runtime.GC()
		for i, w := range weaks {
			// A popped element that is still reachable right after one collection is not yet a verdict: once in
			// some hundred thousand plans (one shard of one thorough run, never reproducible from its plan) an
			// element survived a cycle for reasons of the runtime's own (a frame scanned conservatively, a cycle
			// already under way). What the deque retains stays reachable for ever, so a few more cycles decide.
			for try := 0; try < 5 && w.Value() != nil; try++ {
				time.Sleep(time.Millisecond)
				runtime.GC()
			}
			if w.Value() != nil {
				runtime.KeepAlive(r)
				return out, vk.Violf("retained", "element %d was popped, yet it is still reachable after a garbage collection while the deque (len %d) is alive: the deque retains it", ids[i], r.d.Len())
			}
		}
		out.Label("gc-retention-checked")
	}
	runtime.KeepAlive(r)
	return out, nil
}

// runPlanAny: elements are interface values; every third one is the nil interface, every third one 0.
func runPlanAny(p Plan) (vk.Outcome, error) {
	return runWith(p, func(id int) any {
		switch id % 3 {
		case 0:
			return nil
		case 1:
			return 0
		}
		return id
	})
}

func runWith[T comparable](p Plan, mk func(int) T) (vk.Outcome, error) {
	return runOn(&runner[T]{mk: mk}, p)
}

func runOn[T comparable](r *runner[T], p Plan) (vk.Outcome, error) {
	if err := r.observe(-1, Op{Op: "zero"}); err != nil {
		return r.out, err
	}
	for i, o := range p.Ops {
		if err := r.step(i, o); err != nil {
			return r.out, err
		}
	}
	r.out.NonTrivial = r.sawWrappedOrFull && r.reallocWrapped
	return r.out, nil
}

func TestDeque(t *testing.T) {
	vk.Run(t, suite, "deque", 5000, genPlan, runPlan)
}

func TestDequeInterfaceElements(t *testing.T) {
	vk.Run(t, suite, "deque-any", 2500, genPlan, runPlanAny)
}

// Element types of unusual sizes: zero-size elements (a deque of struct{} is a counter; every slot has the same
// address and size 0) and elements much larger than a cache line (anything sized in bytes rather than in slots).
type wideElem struct {
	id  int
	pad [40]int64
}

func TestDequeOddElementSizes(t *testing.T) {
	vk.Run(t, suite, "deque-elem-size", 1500, genPlan, func(p Plan) (vk.Outcome, error) {
		if len(p.Ops)%2 == 0 {
			out, err := runWith(p, func(int) struct{} { return struct{}{} })
			out.Label("elem:struct{}")
			return out, err
		}
		out, err := runWith(p, func(id int) wideElem { return wideElem{id: id} })
		out.Label("elem:328-bytes")
		return out, err
	})
}

// FuzzDeque: native coverage-guided fuzzing of the same property (thorough tier only).
func FuzzDeque(f *testing.F) { vk.Fuzz(f, suite, "deque", genPlan, runPlan) }
