package c14mapit

import (
	"context"
	"errors"
	"fmt"
	"math"
	"runtime"
	"sync"
	"sync/atomic"
	"testing"
	"testing/synctest"
	"time"

	"github.com/bradenaw/juniper/parallel"
	"github.com/bradenaw/juniper/stream"
	"pgregory.net/rapid"

	"verif/harness/sk"
	"verif/harness/vk"
)

var suite = vk.NewSuite("C14")
var theT *testing.T

func TestMain(m *testing.M) { suite.Main(m) }

type Plan struct {
	Stream        bool   `json:"stream"`
	Len           int    `json:"len"`
	Par           int    `json:"par"`
	Buf           int    `json:"buf"`
	Lat           string `json:"lat"`  // zero | desc | head | random
	Pace          []int  `json:"pace"` // ms before each consumer call, cycled
	SrcErrAt      int    `json:"src_err_at"`
	FErrAt        []int  `json:"f_err_at,omitempty"`
	FErrKind      int    `json:"f_err_kind,omitempty"` // 0 plain sentinel, 1 wraps context.Canceled, 2 wraps context.DeadlineExceeded
	Timeouts      []int  `json:"timeouts,omitempty"`   // ms per consumer call (0 = no deadline), cycled
	CloseAfter    int    `json:"close_after"`
	CtorCancelled bool   `json:"ctor_cancelled,omitempty"`
	SrcGap        int    `json:"src_gap,omitempty"`
	CloseDelay    int    `json:"close_delay,omitempty"` // ms the source's Close takes
	// SrcBlockAt (MapStream, only together with a failing f): once that many (>= 1) items are out the source
	// has nothing more for now and blocks until its context ends - a live but idle source. 0 = never.
	SrcBlockAt int `json:"src_block_at,omitempty"`
	// Lockstep (MapIterator): the source only produces item k+1 once the consumer has been handed result k
	// (a source fed by what the consumer does with the results)
	Lockstep bool `json:"lockstep,omitempty"`
	// CtorCancelAtMs (MapStream): the context given to MapStream itself is cancelled that long after the start
	CtorCancelAtMs int `json:"ctor_cancel_at_ms,omitempty"`
	// FCtxAware (MapStream): f gives up, returning its context's error, as soon as the context it was handed ends
	// (that is MapStream's own context, which ends on a failure, on Close or with the constructor's context - not
	// the context of whichever Next call happens to be waiting)
	FCtxAware bool `json:"f_ctx_aware,omitempty"`
	// FBlockLast (MapStream with a failing source): the call of f for the last item before the source's failure
	// returns only when its context ends (a call that waits for something that will not come): the source's
	// failure has to end it
	FBlockLast bool `json:"f_block_last,omitempty"`
}

func genPlan(streamKind bool) func(t *rapid.T) Plan {
	return func(t *rapid.T) Plan {
		p := Plan{Stream: streamKind, SrcErrAt: -1, CloseAfter: -1}
		p.Len = rapid.SampledFrom([]int{0, 1, 2, 17, 17, 40, 100}).Draw(t, "len")
		p.Par = rapid.SampledFrom([]int{-1, 1, 2, 4}).Draw(t, "par")
		eff := p.Par
		if eff <= 0 {
			eff = runtime.GOMAXPROCS(-1)
		}
		// (no huge buffer sizes: "a larger buffer uses more memory" is documented, and MapStream does fill a
		// channel of that size when it is constructed)
		p.Buf = rapid.SampledFrom([]int{-1, 0, 1, eff - 1, eff, 3 * eff}).Draw(t, "buf")
		p.Lat = rapid.SampledFrom([]string{"zero", "desc", "desc", "head", "head", "random"}).Draw(t, "lat")
		p.Pace = rapid.SliceOfN(rapid.SampledFrom([]int{0, 0, 0, 5, 50, 2000}), 1, 4).Draw(t, "pace")
		p.SrcGap = rapid.SampledFrom([]int{0, 0, 3}).Draw(t, "srcgap")
		p.CloseDelay = rapid.SampledFrom([]int{0, 0, 5}).Draw(t, "closedelay")
		if streamKind {
			if rapid.IntRange(0, 3).Draw(t, "srcerr") == 0 {
				p.SrcErrAt = rapid.IntRange(0, p.Len).Draw(t, "srcerrat")
			}
			if rapid.IntRange(0, 2).Draw(t, "ferr") == 0 && p.Len > 0 {
				p.FErrAt = rapid.SliceOfNDistinct(rapid.IntRange(0, p.Len-1), 1, 3, func(x int) int { return x }).Draw(t, "ferrat")
				p.FErrKind = rapid.SampledFrom([]int{0, 0, 1, 2, 3}).Draw(t, "ferrkind")
			}
			if len(p.FErrAt) > 0 && p.SrcErrAt < 0 && rapid.IntRange(0, 2).Draw(t, "idle") == 0 {
				first := p.FErrAt[0]
				for _, i := range p.FErrAt {
					if i < first {
						first = i
					}
				}
				p.SrcBlockAt = rapid.IntRange(first+1, p.Len).Draw(t, "blockat")
			}
			if rapid.IntRange(0, 2).Draw(t, "timeouts") == 0 {
				p.Timeouts = rapid.SliceOfN(rapid.SampledFrom([]int{0, 0, 1, 7, 100}), 1, 4).Draw(t, "to")
			}
			if rapid.IntRange(0, 2).Draw(t, "close") == 0 {
				p.CloseAfter = rapid.IntRange(0, p.Len).Draw(t, "closeafter")
			}
			p.FCtxAware = rapid.IntRange(0, 2).Draw(t, "fctxaware") == 0
			p.FBlockLast = p.SrcErrAt >= 1 && rapid.IntRange(0, 2).Draw(t, "fblocklast") == 0
			p.CtorCancelled = rapid.IntRange(0, 11).Draw(t, "ctorcancel") == 0
			if !p.CtorCancelled && rapid.IntRange(0, 5).Draw(t, "ctorcancelat") == 0 {
				p.CtorCancelAtMs = rapid.SampledFrom([]int{1, 3, 10, 40, 200}).Draw(t, "ctorcancelms")
			}
		} else {
			p.Lockstep = rapid.IntRange(0, 3).Draw(t, "lockstep") == 0
		}
		return p
	}
}

func (p Plan) latency(i int) time.Duration {
	switch p.Lat {
	case "desc":
		return time.Duration(p.Len-i) * 10 * time.Millisecond
	case "head":
		if i == 0 {
			return time.Second
		}
		return time.Millisecond
	case "random":
		return time.Duration((i*7919+13)%23) * time.Millisecond
	}
	return 0
}

func fval(i int) int { return i*2 + 1 }

type countIter struct {
	n      int
	pos    atomic.Int64
	gap    time.Duration
	pulled atomic.Int64
	tokens chan struct{} // lockstep: one token per result the consumer has been handed (plus one to start)
}

func (c *countIter) Next() (int, bool) {
	if c.gap > 0 {
		time.Sleep(c.gap)
	}
	i := int(c.pos.Load())
	if i >= c.n {
		return 0, false
	}
	if c.tokens != nil {
		<-c.tokens
	}
	c.pos.Add(1)
	c.pulled.Add(1)
	return i, true
}

func bubble(f func() error) (verr error) {
	var stuck string
	func() {
		defer func() {
			if r := recover(); r != nil {
				stuck = fmt.Sprint(r)
			}
		}()
		synctest.Test(theT, func(t *testing.T) {
			defer func() {
				if r := recover(); r != nil {
					verr = vk.Violf("panic", "panic inside bubble: %v", r)
				}
			}()
			verr = f()
		})
	}()
	if stuck != "" && verr == nil {
		verr = vk.Violf("stuck", "deadlock or leaked goroutine: %s", stuck)
	}
	return verr
}

func run(p Plan) (vk.Outcome, error) {
	var out vk.Outcome
	if p.Len < 0 || len(p.Pace) == 0 {
		return out, fmt.Errorf("bad plan")
	}
	eff := p.Par
	if eff <= 0 {
		eff = runtime.GOMAXPROCS(-1)
	}
	bound := eff + 1
	if p.Buf > 1<<30 {
		bound = math.MaxInt
	} else if p.Buf > 0 {
		bound += p.Buf
	}
	var order []int // completion order of f calls
	var orderMu = make(chan struct{}, 1)
	reordered, boundReached, failureInFlight := false, false, false
	err := bubble(func() error {
		started := make([]atomic.Int32, p.Len+1)
		fErr := map[int]error{}
		for _, i := range p.FErrAt {
			fErr[i] = sk.NewSentinel(fmt.Sprintf("f-%d", i))
			switch p.FErrKind { // f's own failure may itself be (or wrap) a cancellation: a nested operation of f gave up
			case 1:
				fErr[i] = fmt.Errorf("f(%d): nested call: %w", i, context.Canceled)
			case 2:
				fErr[i] = fmt.Errorf("f(%d): nested call: %w", i, context.DeadlineExceeded)
			case 3:
				fErr[i] = fmt.Errorf("f(%d): truncated record: %w", i, stream.End)
			}
		}
		body := func(i int) {
			if i >= 0 && i < len(started) {
				started[i].Add(1)
			}
			if d := p.latency(i); d > 0 {
				time.Sleep(d)
			}
			orderMu <- struct{}{}
			order = append(order, i)
			<-orderMu
		}
		yielded := 0
		if !p.Stream {
			src := &countIter{n: p.Len, gap: time.Duration(p.SrcGap) * time.Millisecond}
			if p.Lockstep {
				src.tokens = make(chan struct{}, p.Len+1)
				src.tokens <- struct{}{}
			}
			it := parallel.MapIterator[int, int](src, p.Par, p.Buf, func(i int) int { body(i); return fval(i) })
			for {
				time.Sleep(time.Duration(p.Pace[yielded%len(p.Pace)]) * time.Millisecond)
				synctest.Wait()
				g := int(src.pulled.Load()) - yielded
				if g > bound {
					return vk.Violf("buffer-bound", "%d source items taken but not yet yielded, bound bufferSize+parallelism+1 = %d", g, bound)
				}
				if g == bound || (p.Buf <= eff && g >= eff+1) {
					boundReached = true
				}
				v, ok := it.Next()
				if !ok {
					break
				}
				if v != fval(yielded) {
					return vk.Violf("order", "result #%d is %d, want f(item %d) = %d", yielded, v, yielded, fval(yielded))
				}
				yielded++
				if src.tokens != nil {
					src.tokens <- struct{}{} // result k has been handed over: the source may produce item k+1
				}
				if yielded > p.Len {
					return vk.Violf("extra", "more results than source items")
				}
			}
			if yielded != p.Len {
				return vk.Violf("lost", "iterator ended after %d of %d results", yielded, p.Len)
			}
			if _, ok := it.Next(); ok {
				return vk.Violf("end-not-sticky", "MapIterator yielded after reporting the end")
			}
		} else {
			items := make([]int, p.Len)
			gaps := make([]time.Duration, p.Len)
			for i := range items {
				items[i], gaps[i] = i, time.Duration(p.SrcGap)*time.Millisecond
			}
			src := sk.NewRecStream("src", items)
			src.Gaps = gaps
			src.CloseDelay = time.Duration(p.CloseDelay) * time.Millisecond
			var srcE error = sk.NewSentinel("src-error")
			if p.FErrKind == 3 || p.SrcErrAt%2 == 1 { // the source's own error may wrap the end marker: a failure all the same
				srcE = fmt.Errorf("source: truncated record: %w", stream.End)
			}
			if p.SrcErrAt >= 0 {
				src.FinalAt, src.Final = p.SrcErrAt, srcE
			}
			if p.SrcBlockAt > 0 && len(p.FErrAt) > 0 && p.SrcErrAt < 0 {
				src.BlockAt = p.SrcBlockAt
			}
			ctorCtx, ctorCancel := sk.WithCancel(context.Background())
			defer ctorCancel()
			if p.CtorCancelled {
				ctorCancel()
			}
			if p.CtorCancelAtMs > 0 {
				quitC := make(chan struct{})
				var cw sync.WaitGroup
				cw.Add(1)
				go func() {
					defer cw.Done()
					tm := time.NewTimer(time.Duration(p.CtorCancelAtMs) * time.Millisecond)
					defer tm.Stop()
					select {
					case <-tm.C:
						ctorCancel()
					case <-quitC:
					}
				}()
				defer func() { close(quitC); cw.Wait() }() // (the fake clock stops when the bubble's root returns)
			}
			ms := parallel.MapStream[int, int](ctorCtx, src, p.Par, p.Buf, func(ctx context.Context, i int) (int, error) {
				if p.FBlockLast && p.SrcErrAt >= 1 && i == p.SrcErrAt-1 {
					if i >= 0 && i < len(started) {
						started[i].Add(1)
					}
					<-ctx.Done()
					return fval(i), ctx.Err()
				}
				if p.FCtxAware {
					if i >= 0 && i < len(started) {
						started[i].Add(1)
					}
					if d := p.latency(i); d > 0 {
						tm := time.NewTimer(d)
						select {
						case <-tm.C:
						case <-ctx.Done():
							tm.Stop()
							return fval(i), ctx.Err()
						}
					} else if ctx.Err() != nil {
						return fval(i), ctx.Err()
					}
					orderMu <- struct{}{}
					order = append(order, i)
					<-orderMu
				} else {
					body(i)
				}
				if e := fErr[i]; e != nil {
					return fval(i), e // (a value next to an error means nothing)
				}
				return fval(i), nil
			})
			minFault := p.Len + 1
			if p.SrcErrAt >= 0 {
				minFault = p.SrcErrAt
			}
			for _, i := range p.FErrAt {
				if i < minFault {
					minFault = i
				}
			}
			var final error
			calls, expiredInARow := 0, 0
			for p.CloseAfter < 0 || yielded < p.CloseAfter {
				time.Sleep(time.Duration(p.Pace[calls%len(p.Pace)]) * time.Millisecond)
				synctest.Wait()
				g := src.Handed() - yielded
				if g > bound {
					return vk.Violf("buffer-bound", "%d source items taken but not yet yielded, bound bufferSize+parallelism+1 = %d", g, bound)
				}
				if g == bound || (p.Buf <= eff && g >= eff+1) {
					boundReached = true
				}
				ctx := context.Background()
				cancel := func() {}
				timeout := 0
				if len(p.Timeouts) > 0 {
					timeout = p.Timeouts[calls%len(p.Timeouts)]
				}
				if expiredInARow >= 4 {
					timeout = 0 // be patient after several expired calls, so that the run makes progress
				}
				if timeout > 0 {
					ctx, cancel = sk.WithTimeout(ctx, time.Duration(timeout)*time.Millisecond)
				}
				calls++
				v, err := ms.Next(ctx)
				cancel()
				if err != nil {
					own := true
					for _, e := range fErr { // f's error may itself wrap a context error: it is f's, not this call's
						if err == e {
							own = false
						}
					}
					if own && timeout > 0 && errors.Is(err, context.DeadlineExceeded) {
						expiredInARow++
						continue // an expired Next costs nothing: carry on
					}
					final = err
					break
				}
				expiredInARow = 0
				if v != fval(yielded) {
					return vk.Violf("order", "result #%d is %d, want f(item %d) = %d", yielded, v, yielded, fval(yielded))
				}
				yielded++
				if yielded > minFault {
					return vk.Violf("result-beyond-failure", "result #%d was yielded although item %d failed", yielded-1, minFault)
				}
				if yielded > p.Len {
					return vk.Violf("extra", "more results than source items")
				}
			}
			if final != nil {
				if final == stream.End {
					if minFault <= p.Len && !p.CtorCancelled {
						return vk.Violf("error-swallowed", "item/source position %d fails, yet the stream ended normally after %d results", minFault, yielded)
					}
					if yielded != p.Len && !p.CtorCancelled {
						return vk.Violf("lost", "End after %d of %d results", yielded, p.Len)
					}
				} else {
					ok := p.SrcErrAt >= 0 && final == srcE
					for i, e := range fErr {
						if final == e {
							if started[i].Load() == 0 {
								return vk.Violf("wrong-error", "failed with the error of f(item %d), which never ran", i)
							}
							ok = true
						}
					}
					if (p.CtorCancelled || p.CtorCancelAtMs > 0) && errors.Is(final, context.Canceled) {
						ok = true
					}
					if !ok {
						return vk.Violf("wrong-error", "MapStream failed with %v: not an error the source or a call of f returned (construction context cancelled: %v)", final, p.CtorCancelled)
					}
					if len(order) > yielded+1 {
						failureInFlight = true
					}
				}
			}
			ms.Close()
			if err := src.Ownership(); err != nil {
				return vk.Violf("ownership", "after Close returned: %v", err)
			}
			for i := range started {
				if started[i].Load() > 1 {
					return vk.Violf("twice", "f ran %d times for item %d", started[i].Load(), i)
				}
			}
		}
		if !p.Stream {
			for i := 0; i < p.Len; i++ {
				if started[i].Load() != 1 {
					return vk.Violf("exactly-once", "f ran %d times for item %d", started[i].Load(), i)
				}
			}
		}
		return nil
	})
	for i := 1; i < len(order); i++ {
		if order[i] < order[i-1] {
			reordered = true
		}
	}
	if reordered {
		out.Label("completion-reordered")
	}
	if boundReached {
		out.Label("backpressure-engaged")
	}
	if failureInFlight {
		out.Label("failure-with-results-in-flight")
	}
	if p.Stream {
		out.Label("MapStream")
	} else {
		out.Label("MapIterator")
	}
	if p.CloseAfter >= 0 {
		out.Label("early-close")
	}
	out.NonTrivial = (reordered && boundReached) || failureInFlight
	return out, err
}

func runReps(p Plan) (vk.Outcome, error) {
	n := vk.Reps(3, 10)
	var out vk.Outcome
	for i := 0; i < n; i++ {
		o, err := run(p)
		if err != nil {
			return o, err
		}
		for _, l := range o.Labels {
			out.Label(l)
		}
		out.NonTrivial = out.NonTrivial || o.NonTrivial
	}
	out.Execs = n
	return out, nil
}

func TestMapIterator(t *testing.T) {
	theT = t
	vk.Run(t, suite, "map-iterator", 1000, genPlan(false), runReps)
}

func TestMapStream(t *testing.T) {
	theT = t
	vk.Run(t, suite, "map-stream", 2000, genPlan(true), runReps)
}

// ---------------------------------------------------------------- storm: long zero-latency runs, real parallelism
//
// The scripted plans above are short (tens of items) and shaped by fake latencies. A hand-off between
// the feeder, the workers and the consumer that goes wrong only when two of them run at the very same
// instant needs many items and nothing that slows them down: tens of thousands of items, f returns at
// once, every (parallelism, buffer) shape. In a bubble a lost wakeup is decided exactly: everything is
// blocked for good, which synctest reports. The order / exactly-once / bound oracles run as well.

type StormPlan struct {
	Stream bool `json:"stream"`
	N      int  `json:"n"`
	Par    int  `json:"par"`
	Buf    int  `json:"buf"`
	Yield  int  `json:"yield"` // the consumer calls Gosched every Yield items (0 = never)
}

func genStorm(t *rapid.T) StormPlan {
	return StormPlan{Stream: rapid.IntRange(0, 2).Draw(t, "stream") == 0, N: rapid.SampledFrom([]int{5000, 20000, 20000, 40000}).Draw(t, "n"),
		Par: rapid.SampledFrom([]int{1, 2, 2, 4, 8}).Draw(t, "par"), Buf: rapid.SampledFrom([]int{0, 0, 1, 2, 8}).Draw(t, "buf"),
		Yield: rapid.SampledFrom([]int{0, 1, 7}).Draw(t, "yield")}
}

func runStorm(p StormPlan) (vk.Outcome, error) {
	var out vk.Outcome
	err := bubble(func() error {
		src := &countIter{n: p.N}
		var inFlightMax atomic.Int64
		var yielded atomic.Int64
		note := func() {
			if d := src.pulled.Load() - yielded.Load(); d > inFlightMax.Load() {
				inFlightMax.Store(d)
			}
		}
		check := func(i, v int) error {
			if v != fval(i) {
				return vk.Violf("order", "result #%d is %d, want f(item %d) = %d (n=%d par=%d buf=%d)", i, v, i, fval(i), p.N, p.Par, p.Buf)
			}
			return nil
		}
		if !p.Stream {
			it := parallel.MapIterator[int, int](src, p.Par, p.Buf, func(x int) int { return fval(x) })
			for i := 0; ; i++ {
				v, ok := it.Next()
				if !ok {
					if i != p.N {
						return vk.Violf("lost", "MapIterator ended after %d of %d results", i, p.N)
					}
					break
				}
				if err := check(i, v); err != nil {
					return err
				}
				yielded.Add(1)
				note()
				if p.Yield > 0 && i%p.Yield == 0 {
					runtime.Gosched()
				}
			}
		} else {
			s := parallel.MapStream[int, int](context.Background(), stream.FromIterator[int](src), p.Par, p.Buf,
				func(_ context.Context, x int) (int, error) { return fval(x), nil })
			for i := 0; ; i++ {
				v, err := s.Next(context.Background())
				if err == stream.End {
					if i != p.N {
						return vk.Violf("lost", "MapStream ended after %d of %d results", i, p.N)
					}
					break
				}
				if err != nil {
					return vk.Violf("spurious-error", "MapStream: %v", err)
				}
				if err := check(i, v); err != nil {
					return err
				}
				yielded.Add(1)
				note()
				if p.Yield > 0 && i%p.Yield == 0 {
					runtime.Gosched()
				}
			}
			s.Close()
		}
		if lim := int64(p.Buf + p.Par + 1); inFlightMax.Load() > lim {
			return vk.Violf("bound", "%d source items taken but not yet yielded, bound is buffer %d + parallelism %d + 1", inFlightMax.Load(), p.Buf, p.Par)
		}
		return nil
	})
	out.NonTrivial = p.Par >= 2
	out.Execs = 1
	if p.Stream {
		out.Label("storm-stream")
	} else {
		out.Label("storm-iterator")
	}
	return out, err
}

func TestMapStorm(t *testing.T) {
	theT = t
	vk.Run(t, suite, "map-storm", 12, genStorm, runStorm)
}

// ---------------------------------------------------------------- storm: many workers finishing at the same instant
//
// With few items and many workers, all workers sit idle and are released together when the source
// ends: whatever they do on the way out (count themselves off, close the result channel) happens at
// the same instant on as many CPUs. A mistake there shows about once in a few hundred to a few
// thousand runs, usually as a panic on a library goroutine - which the driver reports together with
// the plan that was running (Crashy suite).

type FinishStormPlan struct {
	Stream bool `json:"stream"`
	Par    int  `json:"par"`
	N      int  `json:"n"`
	Rounds int  `json:"rounds"`
}

func genFinishStorm(t *rapid.T) FinishStormPlan {
	return FinishStormPlan{Stream: rapid.IntRange(0, 2).Draw(t, "stream") == 0, Par: rapid.SampledFrom([]int{4, 8, 16, 32, 64}).Draw(t, "par"),
		N: rapid.IntRange(0, 3).Draw(t, "n"), Rounds: rapid.IntRange(300, 1500).Draw(t, "rounds")}
}

func runFinishStorm(p FinishStormPlan) (vk.Outcome, error) {
	var out vk.Outcome
	for round := 0; round < p.Rounds; round++ {
		src := &countIter{n: p.N}
		got := 0
		if !p.Stream {
			it := parallel.MapIterator[int, int](src, p.Par, 0, func(x int) int { return fval(x) })
			for {
				v, ok := it.Next()
				if !ok {
					break
				}
				if v != fval(got) {
					return out, vk.Violf("order", "round %d: result #%d is %d", round, got, v)
				}
				got++
			}
		} else {
			s := parallel.MapStream[int, int](context.Background(), stream.FromIterator[int](src), p.Par, 0,
				func(_ context.Context, x int) (int, error) { return fval(x), nil })
			for {
				v, err := s.Next(context.Background())
				if err == stream.End {
					break
				}
				if err != nil {
					return out, vk.Violf("spurious-error", "round %d: MapStream: %v", round, err)
				}
				if v != fval(got) {
					return out, vk.Violf("order", "round %d: result #%d is %d", round, got, v)
				}
				got++
			}
			s.Close()
		}
		if got != p.N {
			return out, vk.Violf("lost", "round %d: %d of %d results (parallelism %d)", round, got, p.N, p.Par)
		}
	}
	out.NonTrivial, out.Execs = true, p.Rounds
	out.Label("finish-storm")
	return out, nil
}

func TestMapFinishStorm(t *testing.T) {
	suite.Crashy = true
	vk.Run(t, suite, "map-finish-storm", 30, genFinishStorm, runFinishStorm)
	suite.Crashy = false
}

// ---------------------------------------------------------------- lockstep source on the real clock
//
// A source that produces item k+1 only after the consumer has been handed result k. If the library waits
// for the source while it holds something the consumer's Next needs (a sync.Mutex, typically), the two
// wait for each other - a kind of wait a synctest bubble can neither see as a deadlock nor wait out, so
// this kind runs on real goroutines with a 5 s limit per Next (on the active clock).

type LockstepPlan struct {
	Stream bool `json:"stream"`
	N      int  `json:"n"`
	Par    int  `json:"par"`
	Buf    int  `json:"buf"`
}

func genLockstep(t *rapid.T) LockstepPlan {
	return LockstepPlan{Stream: rapid.Bool().Draw(t, "stream"), N: rapid.IntRange(2, 40).Draw(t, "n"),
		Par: rapid.SampledFrom([]int{-1, 1, 2, 4}).Draw(t, "par"), Buf: rapid.SampledFrom([]int{-1, 0, 1, 2, 5, 16}).Draw(t, "buf")}
}

func runLockstep(p LockstepPlan) (vk.Outcome, error) {
	var out vk.Outcome
	src := &countIter{n: p.N, tokens: make(chan struct{}, p.N+1)}
	src.tokens <- struct{}{}
	var next func() (int, bool, error)
	closer := func() {}
	if !p.Stream {
		it := parallel.MapIterator[int, int](src, p.Par, p.Buf, func(x int) int { return fval(x) })
		next = func() (int, bool, error) { v, ok := it.Next(); return v, ok, nil }
	} else {
		s := parallel.MapStream[int, int](context.Background(), stream.FromIterator[int](src), p.Par, p.Buf,
			func(_ context.Context, x int) (int, error) { return fval(x), nil })
		next = func() (int, bool, error) {
			v, err := s.Next(context.Background())
			if err == stream.End {
				return 0, false, nil
			}
			return v, err == nil, err
		}
		closer = s.Close
	}
	for k := 0; ; k++ {
		var v int
		var ok bool
		var err error
		done := make(chan struct{})
		go func() { v, ok, err = next(); close(done) }()
		select {
		case <-done:
		case <-vk.After(5 * time.Second):
			return out, vk.Violf("stuck", "Next #%d has not returned after 5 s: the source produces item %d as soon as result %d has been handed over, which has happened (n=%d parallelism=%d buffer=%d)", k, k, k-1, p.N, p.Par, p.Buf)
		}
		if err != nil {
			return out, vk.Violf("spurious-error", "Next #%d: %v", k, err)
		}
		if !ok {
			if k != p.N {
				return out, vk.Violf("lost", "ended after %d of %d results", k, p.N)
			}
			break
		}
		if v != fval(k) {
			return out, vk.Violf("order", "result #%d is %d, want %d", k, v, fval(k))
		}
		src.tokens <- struct{}{}
	}
	closer()
	out.NonTrivial = p.Par != 1
	return out, nil
}

func TestMapLockstepSource(t *testing.T) {
	vk.Run(t, suite, "map-lockstep", 40, genLockstep, runLockstep)
}
