package c14mapit

import (
	"context"
	"runtime"
	"sync/atomic"
	"testing"
	"time"

	"github.com/bradenaw/juniper/parallel"
	"github.com/bradenaw/juniper/stream"
	"pgregory.net/rapid"

	"verif/harness/sk"
	"verif/harness/vk"
)

// map-real-clock: MapIterator and MapStream on real goroutines, outside a bubble (an implementation whose
// workers wait for a sync.Mutex cannot be judged inside one). Nothing depends on time: f spins for a swept
// number of iterations so that later items finish first, the consumer reads everything or stops after j
// results and closes; the whole case has 10 s of active time. Oracles: results in source order, exactly
// once; the gauge "taken from the source, not yet yielded" within bufferSize+parallelism+1 whenever the
// consumer looks; a failure is the source's or f's own error; Close returns with the source closed once.

type RealPlan struct {
	Stream bool `json:"stream"`
	N      int  `json:"n"`
	Par    int  `json:"par"`
	Buf    int  `json:"buf"`
	Spin   int  `json:"spin"`     // f(i) spins ((n-i)%7)*Spin times
	ErrAt  int  `json:"err_at"`   // MapStream: the source fails once that many items are out; -1 = never
	FErrAt int  `json:"f_err_at"` // MapStream: f fails for that item; -1 = never
	Stop   int  `json:"stop"`     // MapStream: close after that many results; -1 = read to the end / error
	// OneP: the case runs with GOMAXPROCS(1) and parallelism <= 0 ("as many as there are processors": one)
	OneP bool `json:"one_p,omitempty"`
	// OneShot (MapIterator): the iterator is used in one expression - MapIterator(...).Next() - while another
	// goroutine forces garbage collections: the first result arrives all the same
	OneShot bool `json:"one_shot,omitempty"`
}

func genReal(t *rapid.T) RealPlan {
	p := RealPlan{Stream: rapid.Bool().Draw(t, "stream"), N: rapid.SampledFrom([]int{0, 1, 2, 9, 40, 200}).Draw(t, "n"),
		Par: rapid.SampledFrom([]int{1, 2, 4, 8}).Draw(t, "par"), Buf: rapid.SampledFrom([]int{0, 1, 3, 16}).Draw(t, "buf"),
		Spin: rapid.SampledFrom([]int{0, 50, 2000}).Draw(t, "spin"), ErrAt: -1, FErrAt: -1, Stop: -1}
	if p.Stream {
		switch rapid.IntRange(0, 3).Draw(t, "fault") {
		case 0:
			p.ErrAt = rapid.IntRange(0, p.N).Draw(t, "errat")
		case 1:
			if p.N > 0 {
				p.FErrAt = rapid.IntRange(0, p.N-1).Draw(t, "ferrat")
			}
		}
		if rapid.IntRange(0, 2).Draw(t, "early") == 0 {
			p.Stop = rapid.IntRange(0, p.N).Draw(t, "stop")
		}
	}
	if rapid.IntRange(0, 5).Draw(t, "onep") == 0 {
		p.OneP, p.Par = true, rapid.SampledFrom([]int{0, -1}).Draw(t, "parauto")
	}
	if !p.Stream && p.N > 0 && rapid.IntRange(0, 3).Draw(t, "oneshot") == 0 {
		p.OneShot = true
	}
	return p
}

var realSink atomic.Int64

type realIter struct {
	n, pos int
	taken  *atomic.Int64
}

func (it *realIter) Next() (int, bool) {
	if it.pos >= it.n {
		return 0, false
	}
	it.pos++
	it.taken.Add(1)
	return it.pos - 1, true
}

func runReal(p RealPlan) (vk.Outcome, error) {
	var out vk.Outcome
	eff := p.Par
	if p.OneP {
		defer runtime.GOMAXPROCS(runtime.GOMAXPROCS(1))
		out.Label("gomaxprocs=1")
		eff = 1
	}
	bound := int64(p.Buf + eff + 1)
	var calls = make([]atomic.Int32, p.N+1)
	spin := func(i int) {
		for k := ((p.N - i) % 7) * p.Spin; k > 0; k-- {
			realSink.Add(1)
		}
	}
	E, FE := sk.NewSentinel("E"), sk.NewSentinel("FE")
	done := make(chan error, 1)
	go func() {
		done <- func() error {
			if !p.Stream && p.OneShot {
				stopGC := make(chan struct{})
				gcDone := make(chan struct{})
				go func() {
					defer close(gcDone)
					for {
						select {
						case <-stopGC:
							return
						default:
							runtime.GC()
						}
					}
				}()
				defer func() { close(stopGC); <-gcDone }()
				for round := 0; round < 8; round++ { // (every abandoned MapIterator leaves its goroutines behind: keep the number small)
					var taken atomic.Int64
					v, ok := parallel.MapIterator[int, int](&realIter{n: p.N, taken: &taken}, p.Par, p.Buf, func(i int) int {
						if i == 0 {
							time.Sleep(200 * time.Microsecond) // long enough for a collection to happen during the call
						}
						return 3*i + 1
					}).Next()
					if !ok || v != 1 {
						return vk.Violf("lost", "MapIterator(%d items, ...).Next() used as one expression (round %d, collections running): (%d, %v), want (1, true)", p.N, round, v, ok)
					}
				}
				return nil
			}
			if !p.Stream {
				var taken atomic.Int64
				it := parallel.MapIterator[int, int](&realIter{n: p.N, taken: &taken}, p.Par, p.Buf, func(i int) int {
					calls[i].Add(1)
					spin(i)
					return 3*i + 1
				})
				for k := 0; ; k++ {
					if g := taken.Load() - int64(k); g > bound {
						return vk.Violf("buffer-bound", "MapIterator: %d source items taken but not yet yielded, bound bufferSize+parallelism+1 = %d", g, bound)
					}
					v, ok := it.Next()
					if !ok {
						if k != p.N {
							return vk.Violf("lost", "MapIterator ended after %d of %d results", k, p.N)
						}
						break
					}
					if k >= p.N || v != 3*k+1 {
						return vk.Violf("order", "MapIterator: result #%d is %d, want f(item %d) = %d", k, v, k, 3*k+1)
					}
				}
				for i := 0; i < p.N; i++ {
					if c := calls[i].Load(); c != 1 {
						return vk.Violf("call-count", "MapIterator: f called %d times for item %d", c, i)
					}
				}
				return nil
			}
			items := make([]int, p.N)
			for i := range items {
				items[i] = i
			}
			src := sk.NewRecStream("src", items)
			if p.ErrAt >= 0 {
				src.FinalAt, src.Final = p.ErrAt, E
			}
			ms := parallel.MapStream[int, int](context.Background(), src, p.Par, p.Buf, func(ctx context.Context, i int) (int, error) {
				calls[i].Add(1)
				spin(i)
				if i == p.FErrAt {
					return -1, FE
				}
				return 3*i + 1, nil
			})
			k := 0
			var final error
			for p.Stop < 0 || k < p.Stop {
				if g := int64(src.Handed() - k); g > bound {
					ms.Close()
					return vk.Violf("buffer-bound", "MapStream: %d source items taken but not yet yielded, bound bufferSize+parallelism+1 = %d", g, bound)
				}
				v, err := ms.Next(context.Background())
				if err != nil {
					final = err
					break
				}
				if k >= p.N || v != 3*k+1 {
					ms.Close()
					return vk.Violf("order", "MapStream: result #%d is %d, want f(item %d) = %d", k, v, k, 3*k+1)
				}
				k++
			}
			ms.Close()
			if err := src.Ownership(); err != nil {
				return vk.Violf("ownership", "MapStream: after Close returned: %v", err)
			}
			minFault := p.N
			if p.ErrAt >= 0 {
				minFault = p.ErrAt
			}
			if p.FErrAt >= 0 && p.FErrAt < minFault {
				minFault = p.FErrAt
			}
			if final != nil {
				switch {
				case final == stream.End:
					if p.ErrAt >= 0 || p.FErrAt >= 0 || k != p.N {
						return vk.Violf("lost", "MapStream reported the end after %d of %d results (source error at %d, f error at %d)", k, p.N, p.ErrAt, p.FErrAt)
					}
				case final == E && p.ErrAt >= 0, final == FE && p.FErrAt >= 0:
					if k > minFault {
						return vk.Violf("result-beyond-failure", "MapStream yielded %d results, the first failure is at item %d", k, minFault)
					}
				default:
					return vk.Violf("wrong-error", "MapStream failed with %v (source error at %d, f error at %d)", final, p.ErrAt, p.FErrAt)
				}
			}
			for i := 0; i < p.N; i++ {
				if c := calls[i].Load(); c > 1 {
					return vk.Violf("call-count", "MapStream: f called %d times for item %d", c, i)
				}
			}
			return nil
		}()
	}()
	select {
	case err := <-done:
		if err != nil {
			return out, err
		}
	case <-vk.After(10 * time.Second):
		return out, vk.Violf("stuck", "the case (%s) has not finished after 10 s", vk.Short(p))
	}
	out.NonTrivial = p.N > p.Par && p.Par >= 2
	out.Label("real")
	return out, nil
}

func TestMapRealClock(t *testing.T) {
	vk.Run(t, suite, "map-real-clock", 1500, genReal, runReal)
}
