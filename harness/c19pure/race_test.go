package c19pure

import (
	"sync"
	"testing"

	"github.com/bradenaw/juniper/xmath/xrand"
	"pgregory.net/rapid"

	"verif/harness/vk"
)

// The package-level Sample / Shuffle functions of xrand (the ones without an explicit *rand.Rand) draw
// from a source shared by the whole process, like math/rand's top-level functions: they are called from
// many goroutines at once. This kind does that under the race detector; every result is checked for
// size, range and distinctness as well.

type SampleRacePlan struct {
	Goroutines int `json:"goroutines"`
	Calls      int `json:"calls"`
	N          int `json:"n"`
	K          int `json:"k"`
}

func genSampleRace(t *rapid.T) SampleRacePlan {
	return SampleRacePlan{Goroutines: rapid.IntRange(2, 8).Draw(t, "g"), Calls: rapid.IntRange(50, 400).Draw(t, "calls"),
		N: rapid.IntRange(1, 40).Draw(t, "n"), K: rapid.IntRange(0, 12).Draw(t, "k")}
}

func runSampleRace(p SampleRacePlan) (vk.Outcome, error) {
	var out vk.Outcome
	var wg sync.WaitGroup
	errs := make([]error, p.Goroutines)
	for g := 0; g < p.Goroutines; g++ {
		wg.Add(1)
		go func(g int) {
			defer wg.Done()
			in := make([]int, p.N)
			for i := range in {
				in[i] = i
			}
			for c := 0; c < p.Calls && errs[g] == nil; c++ {
				var got []int
				panicked, pv := vk.Catch(func() {
					switch c % 3 {
					case 0:
						got = xrand.Sample(p.N, p.K)
					case 1:
						got = xrand.SampleSlice(in, p.K)
					default:
						sh := append([]int{}, in...)
						xrand.Shuffle(sh)
						got = sh
					}
				})
				if panicked {
					errs[g] = vk.Violf("sample-panic", "goroutine %d of %d, call %d: xrand's package-level function panicked: %v", g, p.Goroutines, c, pv)
					return
				}
				want := p.K
				if c%3 == 2 || want > p.N {
					want = p.N
				}
				seen := map[int]bool{}
				for _, x := range got {
					if x < 0 || x >= p.N || seen[x] {
						errs[g] = vk.Violf("sample-membership", "goroutine %d, call %d: result %v (n=%d k=%d)", g, c, got, p.N, p.K)
						return
					}
					seen[x] = true
				}
				if len(got) != want {
					errs[g] = vk.Violf("sample-size", "goroutine %d, call %d: %d items, want %d (n=%d k=%d)", g, c, len(got), want, p.N, p.K)
					return
				}
			}
		}(g)
	}
	wg.Wait()
	for _, e := range errs {
		if e != nil {
			return out, e
		}
	}
	out.NonTrivial, out.Execs = true, p.Goroutines*p.Calls
	return out, nil
}

func TestSampleRace(t *testing.T) {
	suite.Crashy = true
	vk.Run(t, suite, "sample-race", 40, genSampleRace, runSampleRace)
	suite.Crashy = false
}
