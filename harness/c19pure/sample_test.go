package c19pure

import (
	"context"
	"fmt"
	"math"
	"math/rand"
	"os"
	"sort"
	"strconv"
	"testing"

	"github.com/bradenaw/juniper/iterator"
	"github.com/bradenaw/juniper/stream"
	"github.com/bradenaw/juniper/xmath/xrand"

	"verif/harness/vk"
)

// SampleCase: one (function, n, k) configuration judged by a chi-square test over Samples draws from
// a generator seeded by Seed.
type SampleCase struct {
	Fn      string `json:"fn"` // RSample RSampleSlice RSampleIterator RSampleStream RShuffle
	N       int    `json:"n"`
	K       int    `json:"k"`
	Seed    int64  `json:"seed"`
	Samples int    `json:"samples"`
}

// chiCrit is the chi-square critical value for a tail probability of about 1e-9 (Wilson-Hilferty).
func chiCrit(df int) float64 {
	d := float64(df)
	z := 5.9978
	x := 1 - 2/(9*d) + z*math.Sqrt(2/(9*d))
	return d * x * x * x
}

func draw(c SampleCase, r *rand.Rand) ([]int, error) {
	in := make([]int, c.N)
	for i := range in {
		in[i] = i
	}
	switch c.Fn {
	case "RSample":
		return xrand.RSample(r, c.N, c.K), nil
	case "RSampleSlice":
		return xrand.RSampleSlice(r, in, c.K), nil
	case "RSampleIterator":
		return xrand.RSampleIterator(r, iterator.Slice(in), c.K), nil
	case "RSampleStream":
		return xrand.RSampleStream(context.Background(), r, stream.FromIterator(iterator.Slice(in)), c.K)
	case "RShuffle":
		xrand.RShuffle(r, in)
		return in, nil
	}
	return nil, fmt.Errorf("bad fn")
}

func runSample(c SampleCase) (vk.Outcome, error) {
	var out vk.Outcome
	out.Label("fn:" + c.Fn)
	r := rand.New(rand.NewSource(c.Seed))
	want := c.K
	if c.N < want {
		want = c.N
	}
	if c.Fn == "RShuffle" {
		want = c.N
	}
	subsets := map[string]int{}
	pos := make([][]int, c.N) // pos[item][position]
	for i := range pos {
		pos[i] = make([]int, want+1)
	}
	for s := 0; s < c.Samples; s++ {
		got, err := draw(c, r)
		if err != nil {
			return out, err
		}
		if len(got) != want {
			return out, vk.Violf("sample-size", "%s(n=%d,k=%d) returned %d items, want min(k,n) = %d", c.Fn, c.N, c.K, len(got), want)
		}
		seen := map[int]bool{}
		for p, x := range got {
			if x < 0 || x >= c.N || seen[x] {
				return out, vk.Violf("sample-members", "%s(n=%d,k=%d) returned %v: not distinct positions of the input", c.Fn, c.N, c.K, got)
			}
			seen[x] = true
			pos[x][p]++
		}
		key := append([]int{}, got...)
		sort.Ints(key)
		subsets[fmt.Sprint(key)]++
	}
	if c.Samples >= 1000 && want > 0 {
		// every subset equally likely
		nsub := binom(c.N, want)
		if nsub > 1 {
			exp := float64(c.Samples) / float64(nsub)
			chi := float64(nsub-len(subsets)) * exp // subsets never seen
			for _, cnt := range subsets {
				chi += (float64(cnt) - exp) * (float64(cnt) - exp) / exp
			}
			if crit := chiCrit(nsub - 1); chi > crit {
				return out, vk.Violf("sample-bias", "%s(n=%d,k=%d): subset frequencies are not uniform: chi-square %.1f > %.1f (df %d, %d samples)", c.Fn, c.N, c.K, chi, crit, nsub-1, c.Samples)
			}
		}
		// each chosen item is equally likely at each output position (the result is shuffled)
		if want > 1 {
			for item := 0; item < c.N; item++ {
				tot := 0
				for p := 0; p < want; p++ {
					tot += pos[item][p]
				}
				if tot < 200 {
					continue
				}
				exp := float64(tot) / float64(want)
				chi := 0.0
				for p := 0; p < want; p++ {
					chi += (float64(pos[item][p]) - exp) * (float64(pos[item][p]) - exp) / exp
				}
				if crit := chiCrit(want - 1); chi > crit {
					return out, vk.Violf("sample-bias", "%s(n=%d,k=%d): item %d is not uniformly placed in the output: %v (chi-square %.1f > %.1f)", c.Fn, c.N, c.K, item, pos[item][:want], chi, crit)
				}
			}
		}
	}
	out.NonTrivial = c.N >= 2 && (c.K >= c.N || c.K == 0 || c.Samples >= 1000)
	out.Execs = c.Samples
	return out, nil
}

func binom(n, k int) int {
	r := 1
	for i := 0; i < k; i++ {
		r = r * (n - i) / (i + 1)
	}
	return r
}

// TestSampling enumerates ALL (n <= 6, k <= n+1) for every sampling function.
func TestSampling(t *testing.T) {
	seed, _ := strconv.ParseInt(os.Getenv("VERIF_SEED"), 10, 64)
	shard, _ := strconv.ParseInt(os.Getenv("VERIF_SHARD"), 10, 64)
	samples := vk.Size(20000, 200000)
	for _, fn := range []string{"RSample", "RSampleSlice", "RSampleIterator", "RSampleStream", "RShuffle"} {
		for n := 0; n <= 6; n++ {
			for k := 0; k <= n+1; k++ {
				if fn == "RShuffle" && k != n {
					continue
				}
				c := SampleCase{Fn: fn, N: n, K: k, Seed: seed*7919 + shard*104729 + int64(n*31+k), Samples: samples}
				if !vk.Direct(t, suite, "sampling", c, runSample) {
					return
				}
			}
		}
	}
	// the variants that draw from the global generator: sizes and membership
	for n := 0; n <= 8; n++ {
		for k := 0; k <= n+1; k++ {
			in := make([]int, n)
			for i := range in {
				in[i] = i
			}
			outs := map[string][]int{"Sample": xrand.Sample(n, k), "SampleSlice": xrand.SampleSlice(in, k), "SampleIterator": xrand.SampleIterator(iterator.Slice(in), k)}
			ss, err := xrand.SampleStream(context.Background(), stream.FromIterator(iterator.Slice(in)), k)
			if err != nil {
				t.Fatalf("SampleStream: %v", err)
			}
			outs["SampleStream"] = ss
			sh := append([]int{}, in...)
			xrand.Shuffle(sh)
			if k == n {
				outs["Shuffle"] = sh
			}
			for fn, got := range outs {
				c := SampleCase{Fn: fn, N: n, K: k, Samples: 1}
				ok := vk.Direct(t, suite, "sampling", c, func(SampleCase) (vk.Outcome, error) {
					want := k
					if n < k {
						want = n
					}
					seen := map[int]bool{}
					for _, x := range got {
						if x < 0 || x >= n || seen[x] {
							return vk.Outcome{}, vk.Violf("sample-members", "%s(n=%d,k=%d) = %v", fn, n, k, got)
						}
						seen[x] = true
					}
					if len(got) != want {
						return vk.Outcome{}, vk.Violf("sample-size", "%s(n=%d,k=%d) returned %d items", fn, n, k, len(got))
					}
					return vk.Outcome{NonTrivial: n >= 2}, nil
				})
				if !ok {
					return
				}
			}
		}
	}
	// populations far beyond anything that fits in memory (RSample takes just n): k distinct positions below n, and
	// over 64 one-item draws both halves of the range are hit (each half is missed with probability 2^-64)
	for _, n := range []int{1 << 31, 1<<31 + 5, 1 << 36, 1 << 48, math.MaxInt64 / 2} {
		c := SampleCase{Fn: "RSample", N: n, K: 1, Seed: seed + int64(n%1000), Samples: 64}
		ok := vk.Direct(t, suite, "sampling", c, func(c SampleCase) (vk.Outcome, error) {
			var out vk.Outcome
			r := rand.New(rand.NewSource(c.Seed))
			low, high := 0, 0
			for i := 0; i < c.Samples; i++ {
				got := xrand.RSample(r, c.N, 1)
				if len(got) != 1 || got[0] < 0 || got[0] >= c.N {
					return out, vk.Violf("sample-membership", "RSample(n=%d, k=1) = %v", c.N, got)
				}
				if got[0] < c.N/2 {
					low++
				} else {
					high++
				}
				three := xrand.RSample(r, c.N, 3)
				if len(three) != 3 || three[0] == three[1] || three[0] == three[2] || three[1] == three[2] {
					return out, vk.Violf("sample-membership", "RSample(n=%d, k=3) = %v: want 3 distinct positions", c.N, three)
				}
			}
			if low == 0 || high == 0 {
				return out, vk.Violf("sample-uniformity", "RSample(n=%d, k=1): of %d draws %d fell into the lower half of the range and %d into the upper half", c.N, c.Samples, low, high)
			}
			out.NonTrivial = true
			out.Label("huge-population")
			return out, nil
		})
		if !ok {
			return
		}
	}
	// larger inputs: sizes and membership only
	for _, n := range []int{7, 50, 1000} {
		for _, k := range []int{0, 1, n / 2, n, n + 3} {
			for _, fn := range []string{"RSample", "RSampleSlice", "RSampleIterator", "RSampleStream"} {
				if !vk.Direct(t, suite, "sampling", SampleCase{Fn: fn, N: n, K: k, Seed: seed + int64(n+k), Samples: 50}, runSample) {
					return
				}
			}
		}
	}
}
