package c19pure

import (
	"errors"
	"fmt"
	"math"
	"reflect"
	"sort"
	"strings"
	"testing"
	"time"

	"github.com/bradenaw/juniper/iterator"
	"github.com/bradenaw/juniper/xerrors"
	"github.com/bradenaw/juniper/xmaps"
	"github.com/bradenaw/juniper/xmath"
	"github.com/bradenaw/juniper/xslices"
	"github.com/bradenaw/juniper/xsort"
	"pgregory.net/rapid"

	"verif/harness/vk"
)

var suite = vk.NewSuite("C19")

func TestMain(m *testing.M) { suite.HangLimit = 300 * time.Second; suite.Main(m) }

// Case is one helper applied to one input. Elements are (value, id) pairs so that the helpers only
// see "value" through the supplied predicate/equality/order while the oracle can follow identities.
type Case struct {
	Fn   string  `json:"fn"`
	In   []int   `json:"in"`            // values; element i has identity i
	In2  [][]int `json:"in2,omitempty"` // several slices / sets
	A    int     `json:"a,omitempty"`
	B    int     `json:"b,omitempty"`
	Mask int     `json:"mask,omitempty"` // predicate over values 0..7
	Cap  int     `json:"cap,omitempty"`  // extra capacity of the input slice
}

type el struct{ V, ID int }

func mk(in []int, extraCap int) []el {
	out := make([]el, len(in), len(in)+extraCap)
	for i, v := range in {
		out[i] = el{v, i}
	}
	return out
}

func vals(x []el) []int {
	out := make([]int, len(x))
	for i := range x {
		out[i] = x[i].V
	}
	return out
}

func ids(x []el) []int {
	out := make([]int, len(x))
	for i := range x {
		out[i] = x[i].ID
	}
	return out
}

func sortedCopy(x []int) []int {
	c := append([]int{}, x...)
	sort.Ints(c)
	return c
}

func eqInts(a, b []int) bool { return reflect.DeepEqual(append([]int{}, a...), append([]int{}, b...)) }

func lessV(a, b el) bool { return a.V < b.V }

func (c Case) pred(e el) bool { return c.Mask&(1<<uint(e.V&7)) != 0 }

func viol(c Case, format string, args ...any) error {
	return vk.Violf("helper:"+c.Fn, "%s: %s", vk.Short(c), fmt.Sprintf(format, args...))
}

// check runs one case against its specification.
func check(c Case) (vk.Outcome, error) {
	var out vk.Outcome
	out.Label("fn:" + c.Fn)
	in := mk(c.In, c.Cap)
	n := len(in)
	dup := false
	seen := map[int]bool{}
	for _, v := range c.In {
		if seen[v] {
			dup = true
		}
		seen[v] = true
	}
	out.NonTrivial = n >= 2 && dup
	switch c.Fn {
	case "Partition":
		orig := append([]el{}, in...)
		idx := xslices.Partition(in, c.pred)
		if !eqInts(sortedCopy(ids(in)), sortedCopy(ids(orig))) {
			return out, viol(c, "result %v is not a permutation of the input", ids(in))
		}
		falses := 0
		for _, e := range orig {
			if !c.pred(e) {
				falses++
			}
		}
		if idx != falses {
			return out, viol(c, "returned index %d, there are %d false elements", idx, falses)
		}
		for i, e := range in {
			if c.pred(e) != (i >= idx) {
				return out, viol(c, "element at %d has predicate %v, returned index %d (result values %v)", i, c.pred(e), idx, vals(in))
			}
		}
		out.NonTrivial = n >= 2 && falses > 0 && falses < n
	case "Filter", "FilterInPlace":
		var want []int
		for _, e := range in {
			if c.pred(e) {
				want = append(want, e.ID)
			}
		}
		orig := append([]el{}, in...)
		var got []el
		if c.Fn == "Filter" {
			got = xslices.Filter(in, c.pred)
			if !reflect.DeepEqual(in, orig) {
				return out, viol(c, "Filter modified its input")
			}
		} else {
			got = xslices.FilterInPlace(in, c.pred)
		}
		if !eqInts(ids(got), want) {
			return out, viol(c, "kept ids %v, want %v", ids(got), want)
		}
	case "AllAnyCount":
		all, any, cnt, first, last := true, false, 0, -1, -1
		for i, e := range in {
			if c.pred(e) {
				any = true
				cnt++
				if first < 0 {
					first = i
				}
				last = i
			} else {
				all = false
			}
		}
		if g := xslices.All(in, c.pred); g != all {
			return out, viol(c, "All = %v want %v", g, all)
		}
		if g := xslices.Any(in, c.pred); g != any {
			return out, viol(c, "Any = %v want %v", g, any)
		}
		if g := xslices.CountFunc(in, c.pred); g != cnt {
			return out, viol(c, "CountFunc = %d want %d", g, cnt)
		}
		if g := xslices.IndexFunc(in, c.pred); g != first {
			return out, viol(c, "IndexFunc = %d want %d", g, first)
		}
		if g := xslices.LastIndexFunc(in, c.pred); g != last {
			return out, viol(c, "LastIndexFunc = %d want %d", g, last)
		}
		x := c.A & 7
		wi, wl, wc := -1, -1, 0
		for i, v := range c.In {
			if v == x {
				if wi < 0 {
					wi = i
				}
				wl = i
				wc++
			}
		}
		if xslices.Index(c.In, x) != wi || xslices.LastIndex(c.In, x) != wl || xslices.Count(c.In, x) != wc {
			return out, viol(c, "Index/LastIndex/Count(%d) = %d/%d/%d want %d/%d/%d", x, xslices.Index(c.In, x), xslices.LastIndex(c.In, x), xslices.Count(c.In, x), wi, wl, wc)
		}
	case "Unique", "UniqueInPlace":
		var want []int
		sv := map[int]bool{}
		for _, v := range c.In {
			if !sv[v] {
				sv[v] = true
				want = append(want, v)
			}
		}
		src := append(make([]int, 0, n+c.Cap), c.In...)
		if c.Fn == "Unique" {
			got := xslices.Unique(src)
			if !eqInts(got, want) {
				return out, viol(c, "Unique = %v want %v", got, want)
			}
			if !eqInts(src, c.In) {
				return out, viol(c, "Unique modified its input")
			}
		} else {
			got := xslices.UniqueInPlace(src)
			if !eqInts(got, want) {
				return out, viol(c, "UniqueInPlace = %v want %v", got, want)
			}
			if len(got) > 0 && &got[0] != &src[0] {
				return out, viol(c, "UniqueInPlace did not work in place")
			}
			for i := len(got); i < n; i++ {
				if src[i] != 0 {
					return out, viol(c, "UniqueInPlace left %d in the vacated tail slot %d", src[i], i)
				}
			}
		}
	case "Compact", "CompactInPlace":
		var want []int
		for i, e := range in {
			if i == 0 || in[i-1].V != e.V {
				want = append(want, e.ID)
			}
		}
		eq := func(a, b el) bool { return a.V == b.V }
		var got []el
		if c.Fn == "Compact" {
			orig := append([]el{}, in...)
			got = xslices.CompactFunc(in, eq)
			if !reflect.DeepEqual(in, orig) {
				return out, viol(c, "CompactFunc modified its input")
			}
			if g2 := xslices.Compact(c.In); len(g2) != len(want) {
				return out, viol(c, "Compact = %v, want %d items", g2, len(want))
			}
		} else {
			got = xslices.CompactInPlaceFunc(in, eq)
			if g2 := xslices.CompactInPlace(append([]int{}, c.In...)); len(g2) != len(want) {
				return out, viol(c, "CompactInPlace = %v, want %d items", g2, len(want))
			}
		}
		if !eqInts(ids(got), want) {
			return out, viol(c, "kept ids %v want %v", ids(got), want)
		}
	case "Runs":
		if c.A%4 == 0 {
			// run-structured input over a tiny alphabet: long runs, a short one in between, the first value again
			ua, ub := ((c.A%40)+40)%40, ((c.B%48)+48)%48 // (A and B may be negative or huge)
			lens := []int{64 + ua, 1 + ub%3, 64 + ub, 200 + ua, 1, 1, 130}
			var long []int
			for i, l := range lens {
				for k := 0; k < l; k++ {
					long = append(long, i%2)
				}
			}
			rs := xslices.Runs(long, func(a, b int) bool { return a == b })
			if len(rs) != len(lens) {
				return out, viol(c, "Runs over runs of lengths %v of alternating values: %d runs", lens, len(rs))
			}
			for i, r := range rs {
				if len(r) != lens[i] {
					return out, viol(c, "Runs over runs of lengths %v of alternating values: run %d has %d items", lens, i, len(r))
				}
			}
		}
		got := xslices.Runs(in, func(a, b el) bool { return a.V == b.V })
		var flat []int
		for ri, r := range got {
			if len(r) == 0 {
				return out, viol(c, "run %d is empty (runs %v)", ri, got)
			}
			for j := range r {
				if r[j].V != r[0].V {
					return out, viol(c, "run %d mixes values (runs %v)", ri, got)
				}
				flat = append(flat, r[j].ID)
			}
			if ri > 0 && got[ri-1][0].V == r[0].V {
				return out, viol(c, "runs %d and %d should be one run", ri-1, ri)
			}
			if &r[0] != &in[r[0].ID] {
				return out, viol(c, "run %d does not share the input's array", ri)
			}
		}
		want := make([]int, n)
		for i := range want {
			want[i] = i
		}
		if !eqInts(flat, want) {
			return out, viol(c, "concatenated runs have ids %v, want the whole input (runs %v)", flat, got)
		}
		out.NonTrivial = n >= 2 && (c.In[0] != c.In[1] || dup)
	case "Group":
		{
			// a classifier with a memory (a quota: the first `budget` items are admitted): every item lands in
			// exactly one group, under a key the classifier returned for that very item, and no group is empty
			budget, seen := n/2, 0
			answers := make([]map[int]bool, n)
			gq := xslices.Group(in, func(e el) int {
				seen++
				k := 0
				if seen > budget {
					k = 1
				}
				if answers[e.ID] == nil {
					answers[e.ID] = map[int]bool{}
				}
				answers[e.ID][k] = true
				return k
			})
			placed := map[int]int{}
			for k, grp := range gq {
				if len(grp) == 0 {
					return out, viol(c, "Group with a stateful classifier: key %d has an empty group", k)
				}
				for _, e := range grp {
					placed[e.ID]++
					if !answers[e.ID][k] {
						return out, viol(c, "Group with a stateful classifier: item %d sits under key %d, which the classifier never returned for it", e.ID, k)
					}
				}
			}
			for id := 0; id < n; id++ {
				if placed[id] != 1 {
					return out, viol(c, "Group with a stateful classifier: item %d appears %d times", id, placed[id])
				}
			}
		}
		g := xslices.Group(in, func(e el) int { return e.V })
		cnt := 0
		for k, grp := range g {
			for j, e := range grp {
				cnt++
				if e.V != k || (j > 0 && grp[j-1].ID >= e.ID) {
					return out, viol(c, "group %d = %v", k, grp)
				}
			}
		}
		if cnt != n {
			return out, viol(c, "groups hold %d of %d elements", cnt, n)
		}
	case "Chunk":
		size := c.A
		var got [][]el
		panicked, _ := vk.Catch(func() { got = xslices.Chunk(in, size) })
		if panicked != (size <= 0) {
			return out, viol(c, "Chunk(len %d, chunkSize %d): panicked=%v, documented: panics iff chunkSize <= 0", n, size, panicked)
		}
		if panicked {
			out.NonTrivial = true
			return out, nil
		}
		pos := 0
		for i, ch := range got {
			if len(ch) == 0 || len(ch) > size || (len(ch) < size && i != len(got)-1) {
				return out, viol(c, "chunk %d has length %d (size %d, %d chunks)", i, len(ch), size, len(got))
			}
			if &ch[0] != &in[pos] {
				return out, viol(c, "chunk %d does not alias the input at %d", i, pos)
			}
			pos += len(ch)
		}
		if pos != n {
			return out, viol(c, "chunks cover %d of %d elements", pos, n)
		}
		out.NonTrivial = n >= 2
	case "RemoveUnordered":
		idx, cnt := c.A, c.B
		backing := in[:n:cap(in)]
		got := xslices.RemoveUnordered(in, idx, cnt)
		if len(got) != n-cnt {
			return out, viol(c, "length %d want %d", len(got), n-cnt)
		}
		var wantIDs []int
		for i := 0; i < n; i++ {
			if i < idx || i >= idx+cnt {
				wantIDs = append(wantIDs, i)
			}
		}
		if !eqInts(sortedCopy(ids(got)), sortedCopy(wantIDs)) {
			return out, viol(c, "kept ids %v, want (in any order) %v", ids(got), wantIDs)
		}
		for i := 0; i < idx; i++ {
			if got[i].ID != i {
				return out, viol(c, "prefix [0,%d) disturbed: %v", idx, ids(got))
			}
		}
		for i := n - cnt; i < n; i++ {
			if backing[i] != (el{}) {
				return out, viol(c, "tail slot %d of the original array not cleared: %v", i, backing[i])
			}
		}
		out.NonTrivial = n >= 2 && cnt > 0
	case "Shrink":
		got := xslices.Shrink(in, c.A)
		if !reflect.DeepEqual(append([]el{}, got...), append([]el{}, in...)) {
			return out, viol(c, "Shrink changed the contents: %v", got)
		}
		if cap(got)-len(got) > c.A {
			return out, viol(c, "cap %d > len %d + n %d", cap(got), len(got), c.A)
		}
		// the capacity bound for element sizes and lengths that fall between allocator size classes
		for L := 0; L <= 70; L += 1 + c.B%3 {
			for nn := 0; nn <= 3; nn++ {
				bs := make([]byte, L, L+9)
				is := make([]int, L, L+9)
				for i := range bs {
					bs[i], is[i] = byte(i), i
				}
				gb, gi := xslices.Shrink(bs, nn), xslices.Shrink(is, nn)
				if cap(gb) > L+nn || cap(gi) > L+nn || len(gb) != L || len(gi) != L {
					return out, viol(c, "Shrink(len %d cap %d, n=%d): []byte got len %d cap %d, []int got len %d cap %d; want cap <= %d", L, L+9, nn, len(gb), cap(gb), len(gi), cap(gi), L+nn)
				}
				for i := 0; i < L; i++ {
					if gb[i] != byte(i) || gi[i] != i {
						return out, viol(c, "Shrink changed the contents at %d", i)
					}
				}
			}
		}
		g2 := xslices.Grow(in, c.B)
		if cap(g2)-len(g2) < c.B || !reflect.DeepEqual(append([]el{}, g2...), append([]el{}, in...)) {
			return out, viol(c, "Grow(%d): cap %d len %d", c.B, cap(g2), len(g2))
		}
		out.NonTrivial = c.Cap > c.A
	case "Reverse":
		r := append([]el{}, in...)
		xslices.Reverse(r)
		for i := range r {
			if r[i].ID != n-1-i {
				return out, viol(c, "Reverse = %v", ids(r))
			}
		}
		out.NonTrivial = n >= 2
	case "Search":
		s := mk(sortedCopy(c.In), 0)
		item := el{c.A, -1}
		got := xsort.Search(s, lessV, item)
		want := 0
		for want < len(s) && s[want].V < item.V {
			want++
		}
		if got != want {
			return out, viol(c, "Search(%v, %d) = %d want %d (smallest index whose element is not less)", vals(s), item.V, got, want)
		}
	case "MergeSlices", "Merge":
		var ins [][]el
		var all []el
		id := 0
		for _, s := range c.In2 {
			ss := sortedCopy(s)
			x := make([]el, len(ss))
			for i, v := range ss {
				x[i] = el{v, id}
				id++
			}
			ins = append(ins, x)
			all = append(all, x...)
		}
		var got []el
		if c.Fn == "MergeSlices" {
			var pre []el
			if c.A%2 == 1 {
				pre = make([]el, 3, 5)
			}
			got = xsort.MergeSlices(lessV, pre, ins...)
		} else {
			its := make([]iterator.Iterator[el], len(ins), len(ins)+2)
			for i := range ins {
				its[i] = iterator.Slice(ins[i])
			}
			mine := append([]iterator.Iterator[el]{}, its...)
			got = iterator.Collect(xsort.Merge(lessV, its...))
			// the spread slice is the caller's: it still lists the same iterators afterwards
			for i := range its {
				if its[i] != mine[i] {
					return out, viol(c, "Merge(less, list...) overwrote element %d of the caller's list", i)
				}
			}
		}
		if !eqInts(sortedCopy(ids(got)), sortedCopy(ids(all))) {
			return out, viol(c, "output ids %v are not a permutation of the inputs (%d items)", ids(got), len(all))
		}
		if !xsort.SliceIsSorted(got, lessV) {
			return out, viol(c, "output %v is not sorted", vals(got))
		}
		for i := 1; i < len(got); i++ {
			if got[i].V < got[i-1].V {
				return out, viol(c, "output %v is not sorted", vals(got))
			}
		}
		out.NonTrivial = len(ins) >= 2 && len(all) >= 2
	case "MinK":
		k := c.A
		got := xsort.MinK(lessV, iterator.Slice(in), k)
		want := sortedCopy(c.In)
		if k < len(want) {
			want = want[:k]
		}
		if !eqInts(vals(got), want) {
			return out, viol(c, "MinK(k=%d) values %v want %v", k, vals(got), want)
		}
		sid := map[int]bool{}
		for _, e := range got {
			if e.ID < 0 || e.ID >= n || in[e.ID].V != e.V || sid[e.ID] {
				return out, viol(c, "MinK returned an element that is not a distinct input element: %v", got)
			}
			sid[e.ID] = true
		}
		out.NonTrivial = n >= 2 && (k == 0 || k >= n || dup)
	case "SortHelpers":
		x := append([]el{}, in...)
		xsort.SliceStable(x, lessV)
		for i := 1; i < len(x); i++ {
			if x[i].V < x[i-1].V || (x[i].V == x[i-1].V && x[i].ID < x[i-1].ID) {
				return out, viol(c, "SliceStable = %v", x)
			}
		}
		y := append([]el{}, in...)
		xsort.Slice(y, lessV)
		if !xsort.SliceIsSorted(y, lessV) || !eqInts(sortedCopy(ids(y)), sortedCopy(ids(in))) {
			return out, viol(c, "Slice = %v", y)
		}
		a, b := c.A&7, c.B&7
		if xsort.Greater(xsort.OrderedLess[int], a, b) != (a > b) || xsort.LessOrEqual(xsort.OrderedLess[int], a, b) != (a <= b) ||
			xsort.GreaterOrEqual(xsort.OrderedLess[int], a, b) != (a >= b) || xsort.Equal(xsort.OrderedLess[int], a, b) != (a == b) ||
			xsort.Reverse(xsort.OrderedLess[int])(a, b) != (b < a) {
			return out, viol(c, "comparison helpers disagree with the operators for %d, %d", a, b)
		}
		if s := sgn(xsort.LessCompare(xsort.OrderedLess[int])(a, b)); s != sgn(a-b) {
			return out, viol(c, "LessCompare(%d,%d) has sign %d", a, b, s)
		}
		// the same helpers under a coarse order (distinct but equivalent values) over a type that == cannot compare
		type unc struct {
			V int
			S []int
		}
		lessU := xsort.Less[unc](func(x, y unc) bool { return x.V/2 < y.V/2 })
		ua, ub := unc{a, []int{a}}, unc{b, []int{b, b}}
		ca, cb := a/2, b/2
		if xsort.Greater(lessU, ua, ub) != (ca > cb) || xsort.LessOrEqual(lessU, ua, ub) != (ca <= cb) ||
			xsort.GreaterOrEqual(lessU, ua, ub) != (ca >= cb) || xsort.Equal(lessU, ua, ub) != (ca == cb) ||
			xsort.Reverse(lessU)(ua, ub) != (cb < ca) {
			return out, viol(c, "comparison helpers under a coarse order disagree for %d, %d (classes %d, %d)", a, b, ca, cb)
		}
		if s := sgn(xsort.LessCompare(lessU)(ua, ub)); s != sgn(ca-cb) {
			return out, viol(c, "LessCompare under a coarse order (%d,%d) has sign %d, classes %d, %d", a, b, s, ca, cb)
		}
	case "SetAlgebra":
		sets := make([]xmaps.Set[int], len(c.In2))
		for i, s := range c.In2 {
			if s == nil && i%2 == 1 {
				continue // a nil set
			}
			sets[i] = xmaps.SetFromSlice(s)
		}
		inSet := func(i, x int) bool { _, ok := sets[i][x]; return ok }
		wantU, wantI := map[int]bool{}, map[int]bool{}
		for x := 0; x < 8; x++ {
			anyIn, allIn := false, len(sets) > 0
			for i := range sets {
				if inSet(i, x) {
					anyIn = true
				} else {
					allIn = false
				}
			}
			if anyIn {
				wantU[x] = true
			}
			if allIn {
				wantI[x] = true
			}
		}
		toMap := func(s xmaps.Set[int]) map[int]bool {
			m := map[int]bool{}
			for k := range s {
				m[k] = true
			}
			return m
		}
		if g := toMap(xmaps.Union(sets...)); !reflect.DeepEqual(g, wantU) {
			return out, viol(c, "Union = %v want %v", g, wantU)
		}
		if g := toMap(xmaps.Intersection(sets...)); !reflect.DeepEqual(g, wantI) {
			return out, viol(c, "Intersection = %v want %v", g, wantI)
		}
		if g := xmaps.Intersects(sets...); g != (len(wantI) > 0) {
			return out, viol(c, "Intersects = %v, intersection %v", g, wantI)
		}
		if len(sets) >= 2 {
			wantD := map[int]bool{}
			for x := range sets[0] {
				if !inSet(1, x) {
					wantD[x] = true
				}
			}
			if g := toMap(xmaps.Difference(sets[0], sets[1])); !reflect.DeepEqual(g, wantD) {
				return out, viol(c, "Difference = %v want %v", g, wantD)
			}
		}
		if len(sets) > 0 && sets[0] != nil { // the Set convenience methods
			cp := xmaps.SetFromSlice(c.In2[0])
			cp.Add(99)
			if !cp.Contains(99) || cp.Contains(98) || len(cp) != len(sets[0])+1 {
				return out, viol(c, "Set.Add/Contains")
			}
			cp.Remove(99)
			cp.Remove(98)
			if cp.Contains(99) || len(cp) != len(sets[0]) {
				return out, viol(c, "Set.Remove")
			}
		}
		for i, s := range c.In2 { // inputs untouched
			if sets[i] != nil && len(sets[i]) != len(xmaps.SetFromSlice(s)) {
				return out, viol(c, "an input set was modified")
			}
		}
		out.NonTrivial = len(sets) >= 2 || len(sets) == 0
	case "MapHelpers":
		keys := c.In
		valsIn := make([]int, n)
		for i := range valsIn {
			valsIn[i] = (c.A + i*c.B) & 3
		}
		m, ok := xmaps.FromKeysAndValues(keys, valsIn)
		distinct := map[int][]int{}
		for i, k := range keys {
			distinct[k] = append(distinct[k], valsIn[i])
		}
		if ok != (len(distinct) == n) || len(m) != len(distinct) {
			return out, viol(c, "FromKeysAndValues flag %v, %d keys (distinct %d of %d)", ok, len(m), len(distinct), n)
		}
		for k, v := range m {
			found := false
			for _, x := range distinct[k] {
				if x == v {
					found = true
				}
			}
			if !found {
				return out, viol(c, "FromKeysAndValues maps %d to %d, listed %v", k, v, distinct[k])
			}
		}
		if p, _ := vk.Catch(func() { xmaps.FromKeysAndValues(keys, append(valsIn, 1)) }); !p {
			return out, viol(c, "FromKeysAndValues with different lengths did not panic")
		}
		rev := xmaps.Reverse(m)
		cnt := 0
		for v, ks := range rev {
			for _, k := range ks {
				cnt++
				if m[k] != v {
					return out, viol(c, "Reverse lists key %d under %d", k, v)
				}
			}
		}
		if cnt != len(m) {
			return out, viol(c, "Reverse lists %d of %d keys", cnt, len(m))
		}
		// the key lists are the caller's now, each of them: appending to one does not show in another
		snap := map[int][]int{}
		for v, ks := range rev {
			snap[v] = append([]int{}, ks...)
		}
		for v, ks := range rev {
			rev[v] = append(ks, -12345)
		}
		for v, ks := range rev {
			if !eqInts(ks[:len(ks)-1], snap[v]) {
				return out, viol(c, "Reverse: after appending to every key list, the list of value %d reads %v (was %v): the lists share memory", v, ks[:len(ks)-1], snap[v])
			}
		}
		rs, rok := xmaps.ReverseSingle(m)
		if rok != (len(rev) == len(m)) || len(rs) != len(rev) {
			return out, viol(c, "ReverseSingle flag %v size %d (distinct values %d of %d)", rok, len(rs), len(rev), len(m))
		}
		for v, k := range rs {
			if m[k] != v {
				return out, viol(c, "ReverseSingle maps %d to key %d whose value is %d", v, k, m[k])
			}
		}
		ti := xmaps.ToIndex(keys)
		for k, i := range ti {
			if keys[i] != k {
				return out, viol(c, "ToIndex[%d] = %d", k, i)
			}
		}
		if len(ti) != len(distinct) {
			return out, viol(c, "ToIndex has %d keys want %d", len(ti), len(distinct))
		}
	case "Abs":
		if err := checkAbs(c); err != nil {
			return out, err
		}
		out.NonTrivial = true
	case "Clamp":
		x, lo, hi := c.A, c.B, c.Mask
		if lo > hi {
			lo, hi = hi, lo
		}
		g := xmath.Clamp(x, lo, hi)
		want := x
		if x < lo {
			want = lo
		} else if x > hi {
			want = hi
		}
		if g != want || xmath.Min(x, lo) != min(x, lo) || xmath.Max(x, hi) != max(x, hi) {
			return out, viol(c, "Clamp(%d,%d,%d) = %d want %d", x, lo, hi, g, want)
		}
		if gf := xmath.Clamp(float64(x)/3, float64(lo)/3, float64(hi)/3); gf < float64(lo)/3 || gf > float64(hi)/3 {
			return out, viol(c, "Clamp on floats out of range: %v", gf)
		}
		out.NonTrivial = x < lo || x > hi || lo == hi
	case "WithStack":
		if err := checkWithStack(c); err != nil {
			return out, err
		}
		out.NonTrivial = c.A > 0
	case "Join":
		// inputs get spare capacity filled with a marker: Join must build a NEW slice (documented: "joins
		// together the contents"), leaving every input - and whatever lies behind its length - alone.
		ins := make([][]int, len(c.In2))
		total := 0
		for i, x := range c.In2 {
			extra := (c.Cap + i*c.A) % 7
			if extra < 0 {
				extra = -extra
			}
			b := make([]int, len(x)+extra)
			copy(b, x)
			for j := len(x); j < len(b); j++ {
				b[j] = -7
			}
			ins[i] = b[:len(x)]
			total += len(x)
		}
		got := xslices.Join(ins...)
		var want []int
		for _, x := range c.In2 {
			want = append(want, x...)
		}
		if !eqInts(got, want) {
			return out, viol(c, "Join = %v want %v", got, want)
		}
		for i := range got {
			got[i] = -99 // scribble over the result
		}
		for i, x := range c.In2 {
			if !eqInts(ins[i], x) {
				return out, viol(c, "input %d changed when the result was modified: the result aliases it (%v, was %v)", i, ins[i], x)
			}
			full := ins[i][:cap(ins[i])]
			for j := len(x); j < len(full); j++ {
				if full[j] != -7 {
					return out, viol(c, "Join wrote into the spare capacity of input %d (slot %d = %d)", i, j, full[j])
				}
			}
		}
		out.NonTrivial = len(c.In2) >= 2 && total >= 2
	case "ClearFillJoinRepeat":
		x := append([]el{}, in...)
		xslices.Fill(x, el{7, 7})
		for _, e := range x {
			if e != (el{7, 7}) {
				return out, viol(c, "Fill")
			}
		}
		xslices.Clear(x)
		for _, e := range x {
			if e != (el{}) {
				return out, viol(c, "Clear")
			}
		}
		cl := xslices.Clone(in)
		if !reflect.DeepEqual(append([]el{}, cl...), append([]el{}, in...)) || (n > 0 && &cl[0] == &in[0]) {
			return out, viol(c, "Clone")
		}
		at := c.A % (n + 1)
		if at < 0 {
			at = -at
		}
		ins := xslices.Insert(append([]el{}, in...), at, el{9, 9}, el{8, 8})
		if len(ins) != n+2 || ins[at] != (el{9, 9}) || ins[at+1] != (el{8, 8}) {
			return out, viol(c, "Insert at %d = %v", at, ins)
		}
		// the inserted values may be a part of the slice itself (moving a block), with and without room to grow in place
		if n >= 2 {
			from := ((c.B % n) + n) % n
			to := from + 1 + ((c.A/7)%(n-from)+(n-from))%(n-from)
			for _, spare := range []int{0, n + 4} {
				src := make([]el, n, n+spare)
				copy(src, in)
				want := append(append(append([]el{}, in[:at]...), in[from:to]...), in[at:]...)
				got := xslices.Insert(src, at, src[from:to]...)
				if !reflect.DeepEqual(append([]el{}, got...), want) {
					return out, viol(c, "Insert(s, %d, s[%d:%d]...) with %d spare capacity = %v, want %v", at, from, to, spare, got, want)
				}
			}
		}
		rm := xslices.Remove(append([]el{}, ins...), at, 2)
		if !reflect.DeepEqual(append([]el{}, rm...), append([]el{}, in...)) {
			return out, viol(c, "Remove(Insert(x)) = %v want %v", rm, in)
		}
		if !xslices.Equal(c.In, append([]int{}, c.In...)) || (n > 0 && xslices.Equal(c.In, c.In[:n-1])) ||
			!xslices.EqualFunc(in, xslices.Clone(in), func(a, b el) bool { return a == b }) {
			return out, viol(c, "Equal/EqualFunc")
		}
		out.NonTrivial = n >= 2
	default:
		return out, fmt.Errorf("unknown helper %q", c.Fn)
	}
	return out, nil
}

func sgn(x int) int {
	if x < 0 {
		return -1
	}
	if x > 0 {
		return 1
	}
	return 0
}

func absCase[T ~int | ~int8 | ~int16 | ~int32 | ~int64](c Case, x T, minV T) error {
	var got T
	panicked, _ := vk.Catch(func() { got = xmath.Abs(x) })
	if panicked != (x == minV) {
		return viol(c, "Abs(%d) of %T: panicked=%v, must panic exactly for the minimum value", x, x, panicked)
	}
	if !panicked {
		want := x
		if x < 0 {
			want = -x
		}
		if got != want || got < 0 {
			return viol(c, "Abs(%d) = %d", x, got)
		}
	}
	return nil
}

func checkAbs(c Case) error {
	pick := func(min, max int64) int64 {
		switch c.B % 6 {
		case 0:
			return min
		case 1:
			return min + 1
		case 2:
			return max
		case 3:
			return 0
		case 4:
			return -1
		}
		span := uint64(max - min)
		return min + int64(uint64(c.A)*2654435761%span)
	}
	switch c.Mask % 5 {
	case 0:
		return absCase(c, int8(pick(math.MinInt8, math.MaxInt8)), math.MinInt8)
	case 1:
		return absCase(c, int16(pick(math.MinInt16, math.MaxInt16)), math.MinInt16)
	case 2:
		return absCase(c, int32(pick(math.MinInt32, math.MaxInt32)), math.MinInt32)
	case 3:
		return absCase(c, pick(math.MinInt64, math.MaxInt64), math.MinInt64)
	}
	return absCase(c, int(pick(math.MinInt, math.MaxInt)), math.MinInt)
}

type codeErr struct{ code int }

func (e *codeErr) Error() string { return fmt.Sprintf("code %d", e.code) }

// checkWithStack builds an error chain from the case and checks nil-preservation, transparency
// and idempotence.
func checkWithStack(c Case) error {
	if xerrors.WithStack(nil) != nil {
		return viol(c, "WithStack(nil) != nil")
	}
	base := errors.New("base")
	coded := &codeErr{c.B}
	var e error
	kind := c.A % 8
	switch kind {
	case 0:
		e = base
	case 1:
		e = fmt.Errorf("wrapped: %w", base)
	case 2:
		e = errors.Join(base, coded)
	case 3:
		e = xerrors.WithStack(base) // already wrapped
	case 4:
		e = fmt.Errorf("outer: %w", xerrors.WithStack(fmt.Errorf("mid: %w", coded))) // stack deeper in the chain
	case 5:
		e = coded
	case 6:
		e = partsErr{[]string{"a", "b"}} // an error of a dynamic type that == cannot compare
	default:
		e = fmt.Errorf("wrapped: %w", partsErr{[]string{"c"}})
	}
	w := xerrors.WithStack(e)
	if c.B%7 == 0 { // a call stack deeper than the 64-frame buffer WithStack fills at a time
		var deep func(n int) error
		deep = func(n int) error {
			if n == 0 {
				return xerrors.WithStack(e)
			}
			return deep(n - 1)
		}
		w = deep(150)
		if kind != 3 && kind != 4 {
			// the rendered stack is the real one: going 140 calls deeper adds exactly 140 frames
			frames := func(e error) int { return strings.Count(e.Error(), "(...)\n") }
			shallow, deeper, deepest := frames(deep(10)), frames(w), frames(deep(215))
			if deeper-shallow != 140 || deepest-deeper != 65 {
				return viol(c, "WithStack at recursion depth 10 / 150 / 215 renders %d / %d / %d frames (differences must be 140 and 65)", shallow, deeper, deepest)
			}
		}
	}
	if w == nil {
		return viol(c, "WithStack(non-nil) = nil")
	}
	hasBase := errors.Is(e, base)
	if errors.Is(w, base) != hasBase {
		return viol(c, "errors.Is does not see through WithStack")
	}
	// transparent to Is for every kind of target - sentinels that are and are not in the chain, values of
	// uncomparable types, other WithStack results (over the same and over other inner types): with and
	// without the stack the answer is the same, and asking never panics
	for ti, target := range []error{base, coded, errors.New("other"), &codeErr{c.B}, partsErr{[]string{"a", "b"}}, xerrors.WithStack(partsErr{[]string{"a", "b"}}),
		xerrors.WithStack(base), xerrors.WithStack(errors.New("other")), fmt.Errorf("t: %w", base), w} {
		var plain, stacked bool
		pp, pv := vk.Catch(func() { plain = errors.Is(e, target) })
		sp, sv := vk.Catch(func() { stacked = errors.Is(w, target) })
		if pp {
			return viol(c, "errors.Is(chain %d, target %d) panicked without any WithStack involved: %v", kind, ti, pv)
		}
		if sp {
			return viol(c, "errors.Is(WithStack(chain %d), target %d) panicked: %v (without the stack it answers %v)", kind, ti, sv, plain)
		}
		if ti < 9 && kind != 3 && kind != 4 && stacked != plain {
			return viol(c, "errors.Is(WithStack(chain %d), target %d) = %v, without the stack %v", kind, ti, stacked, plain)
		}
	}
	var ce *codeErr
	var ce2 *codeErr
	if errors.As(e, &ce) != errors.As(w, &ce2) || (ce != nil && ce != ce2) {
		return viol(c, "errors.As does not see through WithStack")
	}
	// (an error that is itself a stack wrapper is not comparable, so errors.Is can never match it as a target)
	if kind != 3 && errors.Is(w, e) != errors.Is(e, e) { // (false for both when e's type cannot be compared)
		return viol(c, "errors.Is(WithStack(e), e) = %v, errors.Is(e, e) = %v", errors.Is(w, e), errors.Is(e, e))
	}
	if msg, inner := w.Error(), e.Error(); len(msg) < len(inner) || msg[:len(inner)] != inner {
		return viol(c, "message %q does not start with the inner message %q", msg, inner)
	}
	// the wrapper shows the wrapped error as it is now, not as it was when it was wrapped or first printed
	mut := &mutableErr{msg: "first"}
	wm := xerrors.WithStack(mut)
	m1 := wm.Error()
	mut.msg = "second"
	if m2 := wm.Error(); !strings.HasPrefix(m1, "first") || !strings.HasPrefix(m2, "second") {
		return viol(c, "WithStack over an error whose message changed from \"first\" to \"second\": Error() began with %q, then with %q", firstLine(m1), firstLine(m2))
	}
	// idempotent: wrapping an error that already carries a stack returns it unchanged
	w2 := xerrors.WithStack(w)
	if !sameErr(w2, w) {
		return viol(c, "WithStack(WithStack(e)) wrapped a second time: %d bytes vs %d bytes of message", len(w2.Error()), len(w.Error()))
	}
	if kind == 3 || kind == 4 {
		if !sameErr(w, e) {
			return viol(c, "WithStack of an error that already has a stack attached did not return it unchanged")
		}
	}
	return nil
}

// mutableErr is an error whose message can change.
type mutableErr struct{ msg string }

func (e *mutableErr) Error() string { return e.msg }

func firstLine(s string) string {
	if i := strings.IndexByte(s, '\n'); i >= 0 {
		return s[:i]
	}
	return s
}

// partsErr is an error whose dynamic type == cannot compare.
type partsErr struct{ parts []string }

func (e partsErr) Error() string { return strings.Join(e.parts, "+") }

func sameErr(a, b error) (same bool) {
	defer func() {
		if recover() != nil { // uncomparable dynamic types: compare what can be observed
			same = a.Error() == b.Error()
		}
	}()
	return a == b
}

func runCase(c Case) (vk.Outcome, error) { return check(c) }

// ---------------------------------------------------------------- generated (rapid) cases

var fns = []string{"Partition", "Filter", "FilterInPlace", "AllAnyCount", "Unique", "UniqueInPlace", "Compact", "CompactInPlace", "Runs", "Group",
	"Chunk", "RemoveUnordered", "Shrink", "Reverse", "Search", "MergeSlices", "Merge", "MinK", "SortHelpers", "SetAlgebra", "MapHelpers", "Abs", "Clamp", "WithStack", "ClearFillJoinRepeat", "Join", "Join"}

func genCase(t *rapid.T) Case {
	c := Case{Fn: rapid.SampledFrom(fns).Draw(t, "fn")}
	maxLen := rapid.SampledFrom([]int{3, 10, 40, 200}).Draw(t, "maxlen")
	universe := rapid.SampledFrom([]int{1, 2, 3, 7}).Draw(t, "universe")
	c.In = rapid.SliceOfN(rapid.IntRange(0, universe), 0, maxLen).Draw(t, "in")
	if rapid.IntRange(0, 9).Draw(t, "big") == 0 {
		// hundreds of elements over hundreds of distinct values (implementations like to switch strategy with size)
		big := rapid.IntRange(130, 700).Draw(t, "biglen")
		wide := rapid.SampledFrom([]int{70, 200, 1000}).Draw(t, "wide")
		c.In = make([]int, big)
		x := rapid.IntRange(1, 1<<30).Draw(t, "bigseed")
		for i := range c.In {
			x = (x*1103515245 + 12345) & 0x7fffffff
			c.In[i] = (x >> 8) % wide
		}
	}
	c.Mask = rapid.IntRange(0, 255).Draw(t, "mask")
	c.Cap = rapid.SampledFrom([]int{0, 0, 1, 5}).Draw(t, "cap")
	n := len(c.In)
	switch c.Fn {
	case "Chunk":
		c.A = rapid.SampledFrom([]int{-3, -1, 0, 1, 2, n - 1, n, n + 1, 7, math.MaxInt, math.MaxInt - 1, math.MaxInt/2 + 1, math.MinInt}).Draw(t, "size")
	case "RemoveUnordered":
		c.A = rapid.IntRange(0, n).Draw(t, "idx")
		c.B = rapid.IntRange(0, n-c.A).Draw(t, "cnt")
		if rapid.Bool().Draw(t, "toend") {
			c.B = n - c.A
		}
	case "Shrink":
		c.A = rapid.SampledFrom([]int{0, 1, 2, 3, 4, 5, 6, math.MaxInt, math.MaxInt - 1, math.MaxInt / 2}).Draw(t, "n") // huge n: "any amount of spare capacity is fine"
		c.B = rapid.IntRange(0, 9).Draw(t, "grow")
	case "Search":
		c.A = rapid.IntRange(-1, universe+1).Draw(t, "item")
	case "MinK":
		c.A = rapid.SampledFrom([]int{0, 1, n - 1, n, n + 1, 3, math.MaxInt, math.MaxInt - 1}).Draw(t, "k") // huge k: "no limit"
		if c.A < 0 {
			c.A = 0
		}
	case "SetAlgebra":
		k := rapid.SampledFrom([]int{0, 1, 2, 3, 3, 4, 5}).Draw(t, "nsets")
		for i := 0; i < k; i++ {
			if rapid.IntRange(0, 7).Draw(t, "empty") == 0 {
				c.In2 = append(c.In2, nil)
			} else {
				c.In2 = append(c.In2, rapid.SliceOfN(rapid.IntRange(0, 7), 1, 10).Draw(t, "set"))
			}
		}
	case "MergeSlices", "Merge", "Join":
		k := rapid.IntRange(0, 4).Draw(t, "k")
		for i := 0; i < k; i++ {
			if rapid.IntRange(0, 3).Draw(t, "empty") == 0 {
				c.In2 = append(c.In2, nil)
			} else {
				c.In2 = append(c.In2, rapid.SliceOfN(rapid.IntRange(0, universe), 0, 12).Draw(t, "in2"))
			}
		}
		c.A = rapid.IntRange(0, 1).Draw(t, "pre")
	default:
		c.A = rapid.IntRange(-20, 1<<30).Draw(t, "a")
		c.B = rapid.IntRange(-20, 1<<30).Draw(t, "b")
		if c.Fn == "Clamp" {
			c.Mask = rapid.IntRange(-20, 40).Draw(t, "hi")
			c.A = rapid.IntRange(-30, 50).Draw(t, "x")
			c.B = rapid.IntRange(-20, 40).Draw(t, "lo")
		}
	}
	return c
}

func TestPureGenerated(t *testing.T) { vk.Run(t, suite, "helper", 6000, genCase, runCase) }

// ---------------------------------------------------------------- small-scope exhaustive

// TestPureExhaustive enumerates, for the helpers that only see their elements through a predicate,
// an equality or an order (parametricity), every input up to a length bound.
func TestPureExhaustive(t *testing.T) {
	if vk.Tier() == "quick" && false {
		t.Skip()
	}
	L := vk.Size(6, 8)
	count := 0
	run := func(c Case) bool {
		o, err := check(c)
		if err != nil {
			vk.Direct(t, suite, "helper-exhaustive", c, func(Case) (vk.Outcome, error) { return o, err })
			return false
		}
		suite.Sub("helper-exhaustive", c, o)
		count++
		return true
	}
	// boolean vectors: value 1 = predicate true (mask bit 1 set only)
	for n := 0; n <= L; n++ {
		for bits := 0; bits < 1<<uint(n); bits++ {
			in := make([]int, n)
			for i := range in {
				in[i] = (bits >> uint(i)) & 1
			}
			for _, fn := range []string{"Partition", "Filter", "FilterInPlace", "AllAnyCount"} {
				if !run(Case{Fn: fn, In: in, Mask: 2, A: 1}) {
					return
				}
			}
		}
	}
	// set partitions (restricted growth strings): every equality pattern
	var rgs func(prefix []int, max int)
	stop := false
	rgs = func(prefix []int, max int) {
		if stop {
			return
		}
		for _, fn := range []string{"Unique", "UniqueInPlace", "Compact", "CompactInPlace", "Runs", "Group"} {
			if !run(Case{Fn: fn, In: append([]int{}, prefix...), Cap: len(prefix) % 2}) {
				stop = true
				return
			}
		}
		if len(prefix) == L {
			return
		}
		for v := 0; v <= max+1 && v < 8; v++ {
			m := max
			if v > m {
				m = v
			}
			rgs(append(prefix, v), m)
		}
	}
	rgs(nil, -1)
	if stop {
		return
	}
	// Chunk and RemoveUnordered: every (len, argument) combination
	for n := 0; n <= L+1; n++ {
		in := make([]int, n)
		for i := range in {
			in[i] = i & 7
		}
		for size := -2; size <= n+2; size++ {
			if !run(Case{Fn: "Chunk", In: in, A: size}) {
				return
			}
		}
		for idx := 0; idx <= n; idx++ {
			for cnt := 0; idx+cnt <= n; cnt++ {
				if !run(Case{Fn: "RemoveUnordered", In: in, A: idx, B: cnt, Cap: cnt % 2}) {
					return
				}
			}
		}
	}
	// weak orders: all sequences over 3 values up to length min(L,6) for Search / MinK / merges
	M := L
	if M > 6 {
		M = 6
	}
	for n := 0; n <= M; n++ {
		total := 1
		for i := 0; i < n; i++ {
			total *= 3
		}
		for code := 0; code < total; code++ {
			in := make([]int, n)
			x := code
			for i := range in {
				in[i] = x % 3
				x /= 3
			}
			for item := -1; item <= 3; item++ {
				if !run(Case{Fn: "Search", In: in, A: item}) {
					return
				}
			}
			for k := 0; k <= n+1; k++ {
				if !run(Case{Fn: "MinK", In: in, A: k}) {
					return
				}
			}
			for cut := 0; cut <= n; cut++ {
				for _, fn := range []string{"MergeSlices", "Merge"} {
					if !run(Case{Fn: fn, In2: [][]int{in[:cut], in[cut:], nil}, A: cut}) {
						return
					}
				}
			}
		}
	}
	// set algebra: every tuple of up to 4 subsets of a 3-element universe (nil and empty sets included)
	subset := func(code int) []int {
		if code == 8 {
			return nil
		}
		x := []int{}
		for b := 0; b < 3; b++ {
			if code&(1<<uint(b)) != 0 {
				x = append(x, b)
			}
		}
		return x
	}
	for k := 0; k <= 4; k++ {
		total := 1
		for i := 0; i < k; i++ {
			total *= 8
		}
		for code := 0; code < total; code++ {
			var in2 [][]int
			x := code
			for i := 0; i < k; i++ {
				in2 = append(in2, subset(x%8))
				x /= 8
			}
			if !run(Case{Fn: "SetAlgebra", In2: in2}) {
				return
			}
		}
	}
	suite.Note("exhaustive_bound", L)
	suite.Count("exhaustive_cases", count)
}

func TestHelperExhaustiveReplay(t *testing.T) { vk.ReplayOnly(t, suite, "helper-exhaustive", runCase) }
