//go:debug asynctimerchan=1

// Package c11old runs stream.Batch under the pre-Go-1.23 timer-channel semantics (asynctimerchan=1),
// which is what the library gets when its user's main module says go < 1.23: a stopped or reset timer
// may then still hold a stale tick that Batch has to drain itself. testing/synctest refuses to run
// with that setting, so this test uses the real clock and only oracles that are sound on it: exact
// content (partition), and LOWER bounds on elapsed time (an underfilled batch is never early). The
// only upper bounds are 10 s liveness limits, four orders of magnitude above the expected timing.
package c11old

import (
	"context"
	"fmt"
	"runtime"
	"sync"
	"testing"
	"time"

	"github.com/bradenaw/juniper/stream"
	"pgregory.net/rapid"

	"verif/harness/sk"
	"verif/harness/vk"
)

var suite = vk.NewSuite("C11")

func TestMain(m *testing.M) { suite.Main(m) }

type Plan struct {
	MaxWaitUs int   `json:"max_wait_us"`
	BatchSize int   `json:"batch_size"`
	GapsUs    []int `json:"gaps_us"`  // delay before each source item
	PaceUs    []int `json:"pace_us"`  // consumer delay before each Next (cycled)
	CallUs    int   `json:"call_us"`  // per-call timeout of the consumer, 0 = none
	CloseAt   int   `json:"close_at"` // close after that many batches; -1 = read to the end
	// Slow: items at which the BatchFunc predicate takes 2 x maxWait (user code runs in Batch's own
	// goroutine, so its timer can fire while nobody is selecting on it)
	Slow []int `json:"slow,omitempty"`
	// Goexit: after its items the source ends the goroutine that called it (one of Batch's) with runtime.Goexit
	// instead of reporting the end: what has been read is still delivered, and Close returns
	Goexit bool `json:"goexit,omitempty"`
}

func genPlan(t *rapid.T) Plan {
	p := Plan{
		MaxWaitUs: rapid.SampledFrom([]int{300, 1000, 2000}).Draw(t, "maxwait"),
		BatchSize: rapid.IntRange(1, 4).Draw(t, "size"),
		CloseAt:   -1,
	}
	// the interesting coincidence: a batch fills (or an item arrives) just as the maxWait timer fires
	fill := p.MaxWaitUs
	if p.BatchSize > 1 {
		fill = p.MaxWaitUs / (p.BatchSize - 1)
	}
	n := rapid.IntRange(1, 24).Draw(t, "n")
	for i := 0; i < n; i++ {
		switch rapid.IntRange(0, 4).Draw(t, "gapclass") {
		case 0:
			p.GapsUs = append(p.GapsUs, 0)
		case 1, 2:
			p.GapsUs = append(p.GapsUs, fill+rapid.IntRange(-60, 60).Draw(t, "jit"))
		case 3:
			p.GapsUs = append(p.GapsUs, p.MaxWaitUs+rapid.IntRange(-60, 60).Draw(t, "jit"))
		default:
			p.GapsUs = append(p.GapsUs, rapid.IntRange(0, 3*p.MaxWaitUs).Draw(t, "gap"))
		}
		if p.GapsUs[i] < 0 {
			p.GapsUs[i] = 0
		}
	}
	p.PaceUs = rapid.SliceOfN(rapid.SampledFrom([]int{0, 0, 0, 50, p.MaxWaitUs / 2, p.MaxWaitUs, 2 * p.MaxWaitUs}), 1, 6).Draw(t, "pace")
	if rapid.IntRange(0, 3).Draw(t, "calltimeout") == 0 {
		p.CallUs = rapid.SampledFrom([]int{p.MaxWaitUs / 2, p.MaxWaitUs, 2 * p.MaxWaitUs}).Draw(t, "callus")
	}
	if rapid.Bool().Draw(t, "slowpred") {
		for i := 0; i < n; i++ {
			if rapid.IntRange(0, 3).Draw(t, "slow") == 0 {
				p.Slow = append(p.Slow, i)
			}
		}
	}
	if rapid.IntRange(0, 4).Draw(t, "closeearly") == 0 {
		p.CloseAt = rapid.IntRange(0, n).Draw(t, "closeat")
	}
	p.Goexit = rapid.IntRange(0, 5).Draw(t, "goexit") == 0
	return p
}

type source struct {
	mu     sync.Mutex
	gaps   []time.Duration
	pos    int
	handed []time.Time
	endAt  time.Time
	ended  bool
	closes int
	goexit bool
}

func (s *source) Next(ctx context.Context) (int, error) {
	s.mu.Lock()
	pos := s.pos
	s.mu.Unlock()
	if pos >= len(s.gaps) {
		s.mu.Lock()
		if !s.ended {
			s.ended, s.endAt = true, time.Now()
		}
		s.mu.Unlock()
		if s.goexit {
			runtime.Goexit()
		}
		return 0, stream.End
	}
	if d := s.gaps[pos]; d > 0 {
		t := time.NewTimer(d)
		select {
		case <-t.C:
		case <-ctx.Done():
			t.Stop()
			return 0, ctx.Err()
		}
	}
	s.mu.Lock()
	s.pos++
	s.handed = append(s.handed, time.Now()) // taken before Batch can possibly see the item
	s.mu.Unlock()
	return pos, nil
}

func (s *source) Close() { s.mu.Lock(); s.closes++; s.mu.Unlock() }

func us(n int) time.Duration { return time.Duration(n) * time.Microsecond }

func run(p Plan) (vk.Outcome, error) {
	var out vk.Outcome
	src := &source{goexit: p.Goexit}
	for _, g := range p.GapsUs {
		src.gaps = append(src.gaps, us(g))
	}
	maxWait := us(p.MaxWaitUs)
	var b stream.Stream[[]int]
	if len(p.Slow) == 0 {
		b = stream.Batch[int](src, maxWait, p.BatchSize)
	} else {
		slow := map[int]bool{}
		for _, i := range p.Slow {
			slow[i] = true
		}
		out.Labels = append(out.Labels, "slow-predicate")
		b = stream.BatchFunc[int](src, maxWait, func(batch []int) bool {
			if slow[batch[len(batch)-1]] {
				time.Sleep(2 * maxWait)
			}
			return len(batch) >= p.BatchSize
		})
	}
	next, batches, expired := 0, 0, 0
	var verr error
	sinceStart := vk.ActiveSince() // (active clock: a paused or starved process does not count)
	for i := 0; verr == nil; i++ {
		if p.CloseAt >= 0 && batches >= p.CloseAt {
			break
		}
		if sinceStart() > 10*time.Second {
			verr = vk.Violf("stuck", "no end of the batched stream 10 s after the start (source: %d items, gaps <= %d us)", len(p.GapsUs), 3*p.MaxWaitUs)
			break
		}
		if d := p.PaceUs[i%len(p.PaceUs)]; d > 0 {
			time.Sleep(us(d))
		}
		ctx, cancel := context.Background(), context.CancelFunc(func() {})
		if p.CallUs > 0 && expired < 3 {
			ctx, cancel = sk.WithTimeout(ctx, us(p.CallUs))
		}
		type res struct {
			batch []int
			err   error
		}
		resC := make(chan res, 1)
		go func() { batch, err := b.Next(ctx); resC <- res{batch, err} }()
		var batch []int
		var err error
		select {
		case r := <-resC:
			batch, err = r.batch, r.err
		case <-vk.After(10 * time.Second):
			// (Close would hang as well: the case is abandoned)
			return out, vk.Violf("stuck", "Next #%d has not returned 10 s after it was called (source: %d items, gaps <= %d us, maxWait %d us): neither items, nor the end, nor an error",
				i, len(p.GapsUs), 3*p.MaxWaitUs, p.MaxWaitUs)
		}
		got := time.Now()
		cancel()
		if err == stream.End {
			if next != len(p.GapsUs) {
				verr = vk.Violf("lost", "end reported after %d of %d source items", next, len(p.GapsUs))
			}
			break
		}
		if err != nil {
			if ctx.Err() != nil && err == ctx.Err() {
				expired++
				out.Labels = append(out.Labels, "call-expired")
				continue
			}
			verr = vk.Violf("wrong-error", "Next returned %v", err)
			break
		}
		expired = 0
		batches++
		if len(batch) == 0 || len(batch) > p.BatchSize {
			verr = vk.Violf("bad-batch-size", "batch %v with batchSize %d", batch, p.BatchSize)
			break
		}
		for _, v := range batch {
			if v != next {
				verr = vk.Violf("not-a-partition", "batch %d = %v, expected to continue at item %d", batches, batch, next)
				break
			}
			next++
		}
		if verr != nil {
			break
		}
		if len(batch) < p.BatchSize {
			src.mu.Lock()
			ended, endAt, oldest := src.ended, src.endAt, src.handed[batch[0]]
			src.mu.Unlock()
			if !ended || got.Before(endAt) {
				out.Labels = append(out.Labels, "underfilled-before-end")
				// got - oldest over-estimates the time the item spent in the batch, so this is a sound lower bound
				if w := got.Sub(oldest); w < maxWait {
					verr = vk.Violf("early-underfilled", "underfilled batch %v (batchSize %d) handed out %v after its oldest item left the source, maxWait %v, source not ended",
						batch, p.BatchSize, w, maxWait).With("old-timers", "true")
					break
				}
			}
		}
	}
	done := make(chan struct{})
	go func() { b.Close(); close(done) }()
	select {
	case <-done:
	case <-vk.After(10 * time.Second):
		if verr == nil {
			verr = vk.Violf("close-stuck", "Close has not returned after 10 s")
		}
		return out, verr
	}
	src.mu.Lock()
	closes := src.closes
	src.mu.Unlock()
	if verr == nil && closes != 1 {
		verr = vk.Violf("source-close", "source closed %d times by the time Batch's Close returned", closes)
	}
	out.NonTrivial = batches >= 2
	out.Labels = append(out.Labels, fmt.Sprintf("batchsize=%d", p.BatchSize))
	return out, verr
}

func TestBatchOldTimers(t *testing.T) {
	vk.Run(t, suite, "batch-old-timers", 150, genPlan, run)
}
