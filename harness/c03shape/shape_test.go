package c03shape

import (
	"testing"

	"verif/harness/treekit"
	"verif/harness/vk"
)

var suite = vk.NewSuite("C03")

func TestMain(m *testing.M) { suite.Main(m) }

func opts() treekit.Options { return treekit.Options{Shape: true, MaxCount: vk.Size(2100, 5000)} }

// TestTreeShape: the C01 plans with the structural walk after every elementary operation and
// comparator-call bounds on every lookup.
func TestTreeShape(t *testing.T) {
	vk.Run(t, suite, "shapeplan", 1200, treekit.GenPlan(opts()), treekit.RunPlan(opts()))
}

// FuzzTreeShape: native coverage-guided fuzzing of the same property (thorough tier only).
func FuzzTreeShape(f *testing.F) {
	vk.Fuzz(f, suite, "shapeplan", treekit.GenPlan(opts()), treekit.RunPlan(opts()))
}
