package c03shape

import (
	"fmt"
	"testing"

	"github.com/bradenaw/juniper/container/tree"
	"pgregory.net/rapid"

	"verif/harness/treekit"
	"verif/harness/vk"
)

// tree-huge: one tree with around a million keys - seven and more levels, which no history of single
// operations against a step-by-step model reaches. A monotone fill (which leaves every node on the spine
// at its fullest or emptiest), then keys scattered into the gaps so that splits cascade through every
// level, then a drain of a contiguous block so that merges do. Checked once per phase, in O(n): the
// structural walk (balance, occupancy, order, one path per key, Len), the depth bound, an iteration that is
// strictly ascending and complete, and a Contains for every key with its comparison count.

type HugePlan struct {
	N       int    `json:"n"`       // keys of the monotone fill (spaced 4 apart)
	Desc    bool   `json:"desc"`    // fill in descending order
	Scatter int    `json:"scatter"` // keys put into the gaps afterwards
	Stride  int    `json:"stride"`  // the scattered keys are (i*Stride) mod N, each 4*k+1
	Drain   int    `json:"drain"`   // keys deleted afterwards, a contiguous block starting at DrainAt
	DrainAt int    `json:"drain_at"`
	Flavor  string `json:"flavor"` // less | cmp
}

func genHuge(t *rapid.T) HugePlan {
	p := HugePlan{N: rapid.SampledFrom([]int{524287, 600000, 996530, 1048576, 1100000}).Draw(t, "n"), Desc: rapid.Bool().Draw(t, "desc"),
		Scatter: rapid.SampledFrom([]int{0, 50000, 200000}).Draw(t, "scatter"), Stride: rapid.SampledFrom([]int{7919, 104729, 3}).Draw(t, "stride"),
		Drain: rapid.SampledFrom([]int{0, 100000, 400000}).Draw(t, "drain"), Flavor: rapid.SampledFrom([]string{"less", "cmp"}).Draw(t, "flavor")}
	p.DrainAt = rapid.IntRange(0, p.N-1).Draw(t, "drainat")
	return p
}

func runHuge(p HugePlan) (vk.Outcome, error) {
	var out vk.Outcome
	calls := 0
	var m tree.Map[int, int]
	if p.Flavor == "less" {
		m = tree.NewMap[int, int](func(a, b int) bool { calls++; return a < b })
	} else {
		m = tree.NewMapCmp[int, int](func(a, b int) int {
			calls++
			switch {
			case a < b:
				return -1
			case a > b:
				return 1
			}
			return 0
		})
	}
	present := make([]bool, 4*p.N+8)
	count := 0
	put := func(k int) {
		m.Put(k, k+7)
		if !present[k] {
			present[k] = true
			count++
		}
	}
	check := func(phase string) error {
		s := m.VerifShape(false)
		if len(s.Problems) > 0 {
			return vk.Violf("shape", "%s: %d keys: %s", phase, count, s.Problems[0])
		}
		if s.NumKeys != count || s.Size != count || m.Len() != count {
			return vk.Violf("len", "%s: %d keys stored according to the walk, size field %d, Len() %d, expected %d", phase, s.NumKeys, s.Size, m.Len(), count)
		}
		if lv := treekit.LevelsBound(count); s.Height > lv {
			return vk.Violf("depth", "%s: %d keys on %d levels, bound %d", phase, count, s.Height, lv)
		}
		if s.NumNodes > 1 && s.MinOcc < tree.VerifMinKVs {
			return vk.Violf("underfull", "%s: a non-root node holds %d keys (minimum %d)", phase, s.MinOcc, tree.VerifMinKVs)
		}
		per := treekit.ShippedMaxKVs
		if p.Flavor == "less" {
			per *= 2
		}
		it := m.Iterate()
		prev, n := -1, 0
		for {
			kv, ok := it.Next()
			if !ok {
				break
			}
			if kv.Key <= prev || kv.Key >= len(present) || !present[kv.Key] || kv.Value != kv.Key+7 {
				return vk.Violf("iteration", "%s: iteration yielded (%d,%d) after key %d (present: %v)", phase, kv.Key, kv.Value, prev, kv.Key < len(present) && kv.Key >= 0 && present[kv.Key])
			}
			prev = kv.Key
			n++
		}
		if n != count {
			return vk.Violf("iteration", "%s: iteration yielded %d of %d keys", phase, n, count)
		}
		for k := 0; k < len(present); k++ {
			if !present[k] && k%4 > 1 {
				continue // (absent keys: every other one is enough)
			}
			before := calls
			if got := m.Contains(k); got != present[k] {
				return vk.Violf("contains", "%s: Contains(%d) = %v, want %v (%d keys, %d levels)", phase, k, got, present[k], count, s.Height)
			}
			if used := calls - before; used > per*s.Height {
				return vk.Violf("comparisons", "%s: Contains(%d) made %d comparisons on %d levels (at most %d per level)", phase, k, used, s.Height, per)
			}
		}
		out.Label(fmt.Sprintf("huge:levels=%d", s.Height))
		return nil
	}
	for i := 0; i < p.N; i++ {
		k := 4 * i
		if p.Desc {
			k = 4 * (p.N - 1 - i)
		}
		put(k)
	}
	if err := check("after the monotone fill"); err != nil {
		return out, err
	}
	if p.Scatter > 0 {
		for i := 0; i < p.Scatter; i++ {
			func() {
				defer func() {
					if r := recover(); r != nil {
						panic(fmt.Sprintf("Put(%d) after %d scattered puts on %d keys: %v", 4*((i*p.Stride)%p.N)+1, i, count, r))
					}
				}()
				put(4*((i*p.Stride)%p.N) + 1)
			}()
		}
		if err := check("after the scattered puts"); err != nil {
			return out, err
		}
	}
	if p.Drain > 0 {
		for k, left := 4*p.DrainAt, p.Drain; left > 0 && k < len(present); k++ {
			if present[k] {
				m.Delete(k)
				present[k] = false
				count--
				left--
			}
		}
		if err := check("after draining a block"); err != nil {
			return out, err
		}
	}
	out.NonTrivial = true
	return out, nil
}

func TestTreeHuge(t *testing.T) {
	vk.Run(t, suite, "tree-huge", 4, genHuge, runHuge)
}
