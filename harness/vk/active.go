package vk

import (
	"sync"
	"time"
)

// The "active clock": wall-clock limits that do not count time during which this process was not
// running at all. A virtual machine that is paused (snapshot, migration) or a machine so overloaded
// that nothing gets scheduled for seconds makes every plain time.After limit expire at once when it
// comes back - seen once in a thorough run, where the hang watchdogs of 16 independent processes fired
// in the same hundredth of a second. A heartbeat goroutine wakes every 50 ms; a beat that arrives more
// than 250 ms after the previous one only counts as 250 ms. Limits measured on this clock can only get
// longer than on the wall clock, never shorter, so they stay sound as liveness bounds.

var active struct {
	once    sync.Once
	mu      sync.Mutex
	elapsed time.Duration
	waiters []*activeWaiter
}

type activeWaiter struct {
	due time.Duration
	c   chan struct{}
}

func startActiveClock() {
	active.once.Do(func() {
		go func() {
			last := time.Now()
			for {
				time.Sleep(50 * time.Millisecond)
				now := time.Now()
				gap := now.Sub(last)
				last = now
				if gap > 250*time.Millisecond {
					gap = 250 * time.Millisecond
				}
				active.mu.Lock()
				active.elapsed += gap
				keep := active.waiters[:0]
				for _, w := range active.waiters {
					if active.elapsed >= w.due {
						close(w.c)
					} else {
						keep = append(keep, w)
					}
				}
				active.waiters = keep
				active.mu.Unlock()
			}
		}()
	})
}

// After is time.After on the active clock (see above). Not for use inside synctest bubbles.
func After(d time.Duration) <-chan struct{} {
	startActiveClock()
	w := &activeWaiter{c: make(chan struct{})}
	active.mu.Lock()
	w.due = active.elapsed + d
	active.waiters = append(active.waiters, w)
	active.mu.Unlock()
	return w.c
}

// ActiveSince returns a function reporting how much active time has passed since the call.
func ActiveSince() func() time.Duration {
	startActiveClock()
	active.mu.Lock()
	t0 := active.elapsed
	active.mu.Unlock()
	return func() time.Duration {
		active.mu.Lock()
		defer active.mu.Unlock()
		return active.elapsed - t0
	}
}
