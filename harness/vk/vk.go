// Package vk is the shared plumbing of the /verif harness: it drives a generator and an
// executor+oracle with rapid, counts what was explored, writes replay files for failing cases,
// honours known findings, and emits one evidence part per process for the ./check driver.
package vk

import (
	"encoding/binary"
	"encoding/json"
	"errors"
	"flag"
	"fmt"
	"hash/fnv"
	"os"
	"path/filepath"
	"runtime/debug"
	"sort"
	"strconv"
	"strings"
	"sync"
	"testing"
	"time"

	"pgregory.net/rapid"
)

// Violation is an oracle rejection. Kind is a short stable identifier of the violated clause,
// Sig carries the facts a known finding may be keyed on.
type Violation struct {
	Kind string         `json:"kind"`
	Msg  string         `json:"msg"`
	Sig  map[string]any `json:"sig,omitempty"`
	sub  *SubFailure
}

// SubFailure is returned by an executor that enumerates sub-cases (e.g. every fault position for
// one generated input): the replay file then holds the failing sub-case under its own kind, which
// a ReplayOnly test of that kind re-executes directly.
type SubFailure struct {
	Kind string
	Plan any
	Err  error
}

func (s *SubFailure) Error() string { return s.Err.Error() }
func (s *SubFailure) Unwrap() error { return s.Err }

func (v *Violation) Error() string { return v.Kind + ": " + v.Msg }

// Violf builds a Violation.
func Violf(kind, format string, args ...any) *Violation {
	return &Violation{Kind: kind, Msg: fmt.Sprintf(format, args...)}
}

// With attaches signature facts.
func (v *Violation) With(k string, val any) *Violation {
	if v.Sig == nil {
		v.Sig = map[string]any{}
	}
	v.Sig[k] = val
	return v
}

// Outcome is what an executor reports about a case that was run.
type Outcome struct {
	NonTrivial bool
	Labels     []string
	// States are hashes of distinct internal states reached (optional).
	States []uint64
	// Execs is the number of executions this case stands for (repetitions); 0 means 1.
	Execs int
}

func (o *Outcome) Label(l string) {
	for _, x := range o.Labels {
		if x == l {
			return
		}
	}
	o.Labels = append(o.Labels, l)
}

type knownFinding struct {
	ID       string         `json:"id"`
	Status   string         `json:"status"`
	Property string         `json:"property"`
	Kind     string         `json:"kind"`
	Match    map[string]any `json:"match"`
	What     string         `json:"what"`
}

type kindStats struct {
	Requested int `json:"requested"`
	Executed  int `json:"executed"`
	NonTriv   int `json:"nontrivial"`
}

// Suite accumulates evidence for one property in one process.
type Suite struct {
	Prop string
	// Crashy makes Run write the plan about to be executed to current-<pid>.json first, so that a
	// process-killing failure (race detector exit, panic on a library goroutine) leaves a replay.
	Crashy bool
	// HangLimit > 0 runs every case under a wall-clock watchdog: a case that has not returned by
	// then ends the process with exit code 3 ("inconclusive: hang") after saving the plan. It is
	// never reported as a violation.
	HangLimit time.Duration

	mu        sync.Mutex
	start     time.Time
	evals     int
	execs     int
	nontriv   map[uint64]struct{}
	states    map[uint64]struct{}
	labels    map[string]int
	samples   []json.RawMessage
	ntSamples int
	kinds     map[string]*kindStats
	known     []knownFinding
	knownHits map[string]int
	extra     map[string]any
	failed    int
}

func NewSuite(prop string) *Suite {
	s := &Suite{
		Prop:      prop,
		HangLimit: 120 * time.Second,
		start:     time.Now(),
		nontriv:   map[uint64]struct{}{},
		states:    map[uint64]struct{}{},
		labels:    map[string]int{},
		kinds:     map[string]*kindStats{},
		knownHits: map[string]int{},
		extra:     map[string]any{},
	}
	if p := os.Getenv("VERIF_KNOWN"); p != "" {
		if b, err := os.ReadFile(p); err == nil {
			var all []knownFinding
			if json.Unmarshal(b, &all) == nil {
				for _, k := range all {
					if k.Property == prop && k.Status == "open" {
						s.known = append(s.known, k)
					}
				}
			}
		}
	}
	return s
}

// Main runs the tests and writes the evidence part.
func (s *Suite) Main(m *testing.M) {
	code := m.Run()
	s.Flush()
	os.Exit(code)
}

func outDir() string {
	if d := os.Getenv("VERIF_OUT"); d != "" {
		return d
	}
	return os.TempDir()
}

func replayDir(prop string) string {
	if d := os.Getenv("VERIF_REPLAYS"); d != "" {
		return d
	}
	return filepath.Join(outDir(), "replays", prop)
}

// Tier is "quick" or "thorough".
func Tier() string {
	if os.Getenv("VERIF_TIER") == "thorough" {
		return "thorough"
	}
	return "quick"
}

func Thorough() bool { return Tier() == "thorough" }

// Scale multiplies base case counts (set by the driver per tier).
func Scale() float64 {
	if v := os.Getenv("VERIF_SCALE"); v != "" {
		if f, err := strconv.ParseFloat(v, 64); err == nil && f > 0 {
			return f
		}
	}
	return 1
}

// Reps picks the repetition count for schedule-dependent scripts.
func Reps(quick, thorough int) int {
	if v := os.Getenv("VERIF_REPS"); v != "" {
		if n, err := strconv.Atoi(v); err == nil && n > 0 {
			return n
		}
	}
	if Thorough() {
		return thorough
	}
	return quick
}

// Size picks a size parameter by tier.
func Size(quick, thorough int) int {
	if Thorough() {
		return thorough
	}
	return quick
}

func hashBytes(b []byte) uint64 {
	h := fnv.New64a()
	h.Write(b)
	return h.Sum64()
}

// HashOf hashes any JSON-serialisable value.
func HashOf(v any) uint64 {
	b, _ := json.Marshal(v)
	return hashBytes(b)
}

type replayFile struct {
	Property string          `json:"property"`
	Kind     string          `json:"kind"`
	Seed     string          `json:"seed,omitempty"`
	Error    *Violation      `json:"error,omitempty"`
	Plan     json.RawMessage `json:"plan"`
}

func (s *Suite) writeReplay(name, kind string, plan any, v *Violation) string {
	dir := replayDir(s.Prop)
	os.MkdirAll(dir, 0o755)
	pb, _ := json.Marshal(plan)
	rf := replayFile{Property: s.Prop, Kind: kind, Seed: os.Getenv("VERIF_SEED"), Error: v, Plan: pb}
	b, _ := json.MarshalIndent(rf, "", " ")
	p := filepath.Join(dir, name)
	os.WriteFile(p, b, 0o644)
	return p
}

func (s *Suite) matchKnown(v *Violation) *knownFinding {
	for i := range s.known {
		k := &s.known[i]
		if k.Kind != v.Kind {
			continue
		}
		ok := true
		for mk, mv := range k.Match {
			sv, has := v.Sig[mk]
			if !has || fmt.Sprint(sv) != fmt.Sprint(mv) {
				ok = false
				break
			}
		}
		if ok {
			return k
		}
	}
	return nil
}

// asViolation converts any error into a Violation.
func asViolation(err error) *Violation {
	var v *Violation
	if !errors.As(err, &v) {
		v = &Violation{Kind: "error", Msg: err.Error()}
	}
	var sf *SubFailure
	if errors.As(err, &sf) {
		cp := *v
		cp.sub = sf
		v = &cp
	}
	return v
}

// Guard runs f and converts a panic into a Violation of kind "panic".
func Guard(f func() error) (err error) {
	defer func() {
		if r := recover(); r != nil {
			st := string(debug.Stack())
			if len(st) > 3000 {
				st = st[:3000]
			}
			err = &Violation{Kind: "panic", Msg: fmt.Sprintf("unexpected panic: %v\n%s", r, st)}
		}
	}()
	return f()
}

func (s *Suite) record(kind string, plan any, out Outcome) {
	pb, _ := json.Marshal(plan)
	h := hashBytes(append([]byte(kind+"|"), pb...))
	s.mu.Lock()
	defer s.mu.Unlock()
	s.evals++
	if out.Execs > 0 {
		s.execs += out.Execs
	} else {
		s.execs++
	}
	ks := s.kinds[kind]
	ks.Executed++
	for _, l := range out.Labels {
		s.labels[kind+"/"+l]++
	}
	for _, st := range out.States {
		s.states[st] = struct{}{}
	}
	if out.NonTrivial {
		ks.NonTriv++
		if _, dup := s.nontriv[h]; !dup {
			s.nontriv[h] = struct{}{}
		}
	}
	// samples: first case of each kind, then up to 2 non-trivial ones per kind.
	take := false
	if ks.Executed == 1 {
		take = true
	} else if out.NonTrivial && ks.NonTriv <= 2 {
		take = true
	}
	if take && len(s.samples) < 12 {
		if len(pb) > 1500 {
			pb, _ = json.Marshal(map[string]any{"kind": kind, "truncated_plan_json": string(pb[:1500]) + "..."})
		} else {
			pb, _ = json.Marshal(map[string]any{"kind": kind, "nontrivial": out.NonTrivial, "labels": out.Labels, "plan": json.RawMessage(pb)})
		}
		s.samples = append(s.samples, pb)
	}
}

// Count adds an extra named counter to the evidence (e.g. "race_runs").
func (s *Suite) Count(name string, n int) {
	s.mu.Lock()
	defer s.mu.Unlock()
	if cur, ok := s.extra[name].(int); ok {
		s.extra[name] = cur + n
	} else {
		s.extra[name] = n
	}
}

// Note sets an extra key of the evidence.
func (s *Suite) Note(name string, v any) {
	s.mu.Lock()
	defer s.mu.Unlock()
	s.extra[name] = v
}

// Established records a violation that the running case has already demonstrated, for the one situation
// in which the case may then be unable to return: the failure itself (say, a panic that escaped from the
// library with one of its mutexes held) can wedge a goroutine of the case for good. If the case does not
// return within a few seconds after this call, the recorded violation is reported instead of a hang.
func Established(err error) {
	establishedMu.Lock()
	established = err
	c := establishedC
	establishedMu.Unlock()
	if c != nil {
		select {
		case c <- struct{}{}:
		default:
		}
	}
}

var (
	establishedMu sync.Mutex
	established   error
	establishedC  chan struct{}
)

// runOne executes one plan with all bookkeeping; it returns a violation to report, or nil.
func Exec[P any](s *Suite, kind string, plan P, exec func(P) (Outcome, error)) *Violation {
	if s.Crashy {
		s.writeReplay(fmt.Sprintf("current-%d.json", os.Getpid()), kind, plan, nil)
	}
	var out Outcome
	var err error
	body := func() {
		err = Guard(func() error {
			var e error
			out, e = exec(plan)
			return e
		})
	}
	if s.HangLimit > 0 {
		done := make(chan struct{})
		estC := make(chan struct{}, 1)
		establishedMu.Lock()
		established, establishedC = nil, estC
		establishedMu.Unlock()
		var bOut Outcome
		var bErr error
		go func() {
			bErr = Guard(func() error {
				var e error
				bOut, e = exec(plan)
				return e
			})
			close(done)
		}()
		hang := After(s.HangLimit) // on the active clock: a paused or starved process is not a hung case
	wait:
		select {
		case <-done:
			out, err = bOut, bErr
		case <-estC:
			select {
			case <-done:
				out, err = bOut, bErr
			case <-After(5 * time.Second):
				// the case demonstrated a violation and then wedged: report the violation
				establishedMu.Lock()
				err = established
				establishedMu.Unlock()
				break wait
			}
		case <-hang:
			p := s.writeReplay(fmt.Sprintf("hang-%s-seed%s%s.json", kind, os.Getenv("VERIF_SEED"), partTag()), kind, plan, nil)
			fmt.Printf("VERIF-HANG property=%s kind=%s after=%s replay=%s\n", s.Prop, kind, s.HangLimit, p)
			s.Flush()
			os.Exit(3)
		}
	} else {
		body()
	}
	if err == nil {
		s.record(kind, plan, out)
		return nil
	}
	v := asViolation(err)
	if k := s.matchKnown(v); k != nil {
		s.mu.Lock()
		s.knownHits[k.ID]++
		s.mu.Unlock()
		s.record(kind, plan, out)
		return nil
	}
	return v
}

// Run drives one generated check. base is the quick-tier case count (scaled by VERIF_SCALE).
// In replay mode (VERIF_REPLAY set) it executes the stored plan instead, if it is of this kind.
func Run[P any](t *testing.T, s *Suite, kind string, base int, gen func(*rapid.T) P, exec func(P) (Outcome, error)) {
	t.Helper()
	s.mu.Lock()
	if s.kinds[kind] == nil {
		s.kinds[kind] = &kindStats{}
	}
	s.mu.Unlock()

	if rp := os.Getenv("VERIF_REPLAY"); rp != "" {
		replayOne(t, s, kind, rp, exec, true)
		return
	}
	// regression tier: stored plans of earlier (seeded) failures run first.
	if rd := os.Getenv("VERIF_REGRESS"); rd != "" {
		files, _ := filepath.Glob(filepath.Join(rd, s.Prop, "*.json"))
		sort.Strings(files)
		for _, f := range files {
			replayOne(t, s, kind, f, exec, false)
		}
	}
	n := int(float64(base) * Scale())
	if n < 1 {
		n = 1
	}
	s.mu.Lock()
	s.kinds[kind].Requested += n
	s.mu.Unlock()
	flag.Set("rapid.checks", strconv.Itoa(n))
	name := fmt.Sprintf("fail-%s-seed%s%s.json", kind, os.Getenv("VERIF_SEED"), partTag())
	rapid.Check(t, func(rt *rapid.T) {
		plan := gen(rt)
		if v := Exec(s, kind, plan, exec); v != nil {
			var p string
			if v.sub != nil {
				p = s.writeReplay(fmt.Sprintf("fail-%s-seed%s%s.json", v.sub.Kind, os.Getenv("VERIF_SEED"), partTag()), v.sub.Kind, v.sub.Plan, v)
			} else {
				p = s.writeReplay(name, kind, plan, v)
			}
			s.mu.Lock()
			s.failed++
			s.mu.Unlock()
			fmt.Printf("VERIF-FAIL property=%s kind=%s replay=%s\n", s.Prop, kind, p)
			rt.Fatalf("%s/%s: %v", s.Prop, kind, v)
		}
	})
}

// Fuzz registers the same generator/executor pair as a native fuzz target (coverage-guided
// mutation of the byte string that feeds the rapid generator). Used by the thorough tier only.
func Fuzz[P any](f *testing.F, s *Suite, kind string, gen func(*rapid.T) P, exec func(P) (Outcome, error)) {
	s.mu.Lock()
	if s.kinds[kind] == nil {
		s.kinds[kind] = &kindStats{}
	}
	s.mu.Unlock()
	f.Fuzz(rapid.MakeFuzz(func(rt *rapid.T) {
		plan := gen(rt)
		if v := Exec(s, kind, plan, exec); v != nil {
			p := s.writeReplay(fmt.Sprintf("fail-%s-fuzz.json", kind), kind, plan, v)
			fmt.Printf("VERIF-FAIL property=%s kind=%s replay=%s\n", s.Prop, kind, p)
			rt.Fatalf("%s/%s: %v", s.Prop, kind, v)
		}
	}))
}

func partTag() string {
	if p := os.Getenv("VERIF_PART"); p != "" && p != "j0-s0" {
		return "-" + p
	}
	return ""
}

func replayOne[P any](t *testing.T, s *Suite, kind, path string, exec func(P) (Outcome, error), strict bool) {
	b, err := os.ReadFile(path)
	if err != nil {
		if strict {
			t.Fatalf("replay: %v", err)
		}
		return
	}
	var rf replayFile
	if err := json.Unmarshal(b, &rf); err != nil {
		if strict {
			t.Fatalf("replay: bad file %s: %v", path, err)
		}
		return
	}
	if rf.Kind != kind {
		return
	}
	var plan P
	if err := json.Unmarshal(rf.Plan, &plan); err != nil {
		t.Fatalf("replay: bad plan in %s: %v", path, err)
	}
	reps := 1
	if v := os.Getenv("VERIF_REPLAY_REPS"); v != "" && strict {
		reps, _ = strconv.Atoi(v)
	}
	fails := 0
	var last *Violation
	for i := 0; i < reps; i++ {
		if v := Exec(s, kind, plan, exec); v != nil {
			fails++
			last = v
		}
	}
	if strict {
		fmt.Printf("VERIF-REPLAY property=%s kind=%s runs=%d failed=%d\n", s.Prop, kind, reps, fails)
	}
	if last != nil {
		p := path
		if !strict {
			p = s.writeReplay("regress-"+filepath.Base(path), kind, plan, last)
		}
		fmt.Printf("VERIF-FAIL property=%s kind=%s replay=%s\n", s.Prop, kind, p)
		t.Fatalf("%s/%s replay %s: %d of %d runs failed: %v", s.Prop, kind, filepath.Base(path), fails, reps, last)
	}
}

// ReplayOnly registers a kind that is never generated on its own (sub-cases of an enumerating
// executor) so that its replay and regression files can be re-executed.
func ReplayOnly[P any](t *testing.T, s *Suite, kind string, exec func(P) (Outcome, error)) {
	s.mu.Lock()
	if s.kinds[kind] == nil {
		s.kinds[kind] = &kindStats{}
	}
	s.mu.Unlock()
	if rp := os.Getenv("VERIF_REPLAY"); rp != "" {
		replayOne(t, s, kind, rp, exec, true)
		return
	}
	if rd := os.Getenv("VERIF_REGRESS"); rd != "" {
		files, _ := filepath.Glob(filepath.Join(rd, s.Prop, "*.json"))
		sort.Strings(files)
		for _, f := range files {
			replayOne(t, s, kind, f, exec, false)
		}
	}
}

// Sub records one enumerated sub-case in the evidence.
func (s *Suite) Sub(kind string, plan any, out Outcome) {
	s.mu.Lock()
	if s.kinds[kind] == nil {
		s.kinds[kind] = &kindStats{}
	}
	s.kinds[kind].Requested++
	s.mu.Unlock()
	s.record(kind, plan, out)
}

// Direct runs a non-generated (enumerated) family of cases through the same bookkeeping.
// It returns false after reporting the first violation.
func Direct[P any](t *testing.T, s *Suite, kind string, plan P, exec func(P) (Outcome, error)) bool {
	s.mu.Lock()
	if s.kinds[kind] == nil {
		s.kinds[kind] = &kindStats{}
	}
	s.kinds[kind].Requested++
	s.mu.Unlock()
	if v := Exec(s, kind, plan, exec); v != nil {
		p := s.writeReplay(fmt.Sprintf("fail-%s-seed%s%s.json", kind, os.Getenv("VERIF_SEED"), partTag()), kind, plan, v)
		fmt.Printf("VERIF-FAIL property=%s kind=%s replay=%s\n", s.Prop, kind, p)
		t.Fatalf("%s/%s: %v", s.Prop, kind, v)
		return false
	}
	return true
}

type evidencePart struct {
	Property   string                `json:"property"`
	Tier       string                `json:"tier"`
	Seed       string                `json:"seed"`
	Evals      int                   `json:"evaluations"`
	Execs      int                   `json:"executions"`
	Kinds      map[string]*kindStats `json:"kinds"`
	Labels     map[string]int        `json:"labels"`
	Samples    []json.RawMessage     `json:"samples"`
	States     int                   `json:"states"`
	KnownHits  map[string]int        `json:"known_hits"`
	Extra      map[string]any        `json:"extra"`
	WallS      float64               `json:"wall_s"`
	Failed     int                   `json:"failed"`
	HashesFile string                `json:"hashes_file"`
	StatesFile string                `json:"states_file"`
}

func writeHashes(path string, m map[uint64]struct{}) {
	buf := make([]byte, 0, 8*len(m))
	for h := range m {
		buf = binary.LittleEndian.AppendUint64(buf, h)
	}
	os.WriteFile(path, buf, 0o644)
}

// Flush writes the evidence part of this process.
func (s *Suite) Flush() {
	s.mu.Lock()
	defer s.mu.Unlock()
	dir := filepath.Join(outDir(), "parts")
	os.MkdirAll(dir, 0o755)
	tag := os.Getenv("VERIF_PART")
	if tag == "" || os.Getenv("VERIF_FUZZ") != "" {
		tag += "-" + strconv.Itoa(os.Getpid())
	}
	base := filepath.Join(dir, s.Prop+"-"+tag)
	writeHashes(base+".hashes", s.nontriv)
	writeHashes(base+".states", s.states)
	p := evidencePart{
		Property: s.Prop, Tier: Tier(), Seed: os.Getenv("VERIF_SEED"),
		Evals: s.evals, Execs: s.execs, Kinds: s.kinds, Labels: s.labels, Samples: s.samples,
		States: len(s.states), KnownHits: s.knownHits, Extra: s.extra,
		WallS: time.Since(s.start).Seconds(), Failed: s.failed,
		HashesFile: base + ".hashes", StatesFile: base + ".states",
	}
	b, _ := json.MarshalIndent(p, "", " ")
	os.WriteFile(base+".json", b, 0o644)
	if s.Crashy {
		os.Remove(filepath.Join(replayDir(s.Prop), fmt.Sprintf("current-%d.json", os.Getpid())))
	}
}

// Short is a helper for compact error text.
func Short(v any) string {
	b, _ := json.Marshal(v)
	if len(b) > 400 {
		return string(b[:400]) + "..."
	}
	return string(b)
}

// Catch runs f and reports whether it panicked and with what.
func Catch(f func()) (panicked bool, val any) {
	defer func() {
		if r := recover(); r != nil {
			panicked = true
			val = r
		}
	}()
	f()
	return false, nil
}

// JoinLabels is a convenience for building label names.
func JoinLabels(parts ...string) string { return strings.Join(parts, ":") }
