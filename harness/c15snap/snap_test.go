package c15snap

import (
	"fmt"
	"testing"
	"time"

	"github.com/bradenaw/juniper/container/deque"
	"github.com/bradenaw/juniper/container/xheap"
	"pgregory.net/rapid"

	"verif/harness/vk"
)

var suite = vk.NewSuite("C15")

func TestMain(m *testing.M) { suite.HangLimit = 60 * time.Second; suite.Main(m) }

// MidOp is an operation applied between Iterate()/Next calls.
type MidOp struct {
	Op  string `json:"op"`
	A   int    `json:"a,omitempty"`
	B   int    `json:"b,omitempty"`
	Rel string `json:"rel,omitempty"`
}

type SetupOp struct {
	Op string `json:"op"`
	N  int    `json:"n,omitempty"`
}

type Plan struct {
	Kind  string    `json:"kind"` // deque | heap | queue
	Setup []SetupOp `json:"setup"`
	Pre   []MidOp   `json:"pre,omitempty"` // between Iterate() and the first Next
	J     int       `json:"j"`             // Next calls before Mid: J mod (len+1)
	Mid   []MidOp   `json:"mid,omitempty"`
}

// effect of an operation on the container
type effect int

const (
	none      effect = iota // provably nothing happened (e.g. Remove of an absent key)
	touched                 // contents equal, representation may differ (Grow/Shrink): panic tolerated
	changed                 // contents changed, same membership count (Set, Update of a present key)
	addRemove               // an element was added or removed
)

type container interface {
	snapshot() []int
	ordered() bool
	iterate() func() (int, bool)
	apply(o MidOp) effect
}

// ---------------------------------------------------------------- deque

type dq struct {
	d         deque.Deque[int]
	next      int
	genAtIter int // the deque's modification counter when Iterate() was called (read through the hook, used for steering only)
}

func (c *dq) fresh() int { c.next++; return c.next }
func (c *dq) snapshot() []int {
	out := make([]int, 0, c.d.Len())
	for i := 0; i < c.d.Len(); i++ {
		out = append(out, c.d.Item(i))
	}
	return out
}
func (c *dq) ordered() bool { return true }
func (c *dq) iterate() func() (int, bool) {
	it := c.d.Iterate()
	_, _, _, c.genAtIter = c.d.VerifState()
	return it.Next
}
func (c *dq) setup(o SetupOp) {
	switch o.Op {
	case "PushBackN":
		for i := 0; i < o.N; i++ {
			c.d.PushBack(c.fresh())
		}
	case "PushFrontN":
		for i := 0; i < o.N; i++ {
			c.d.PushFront(c.fresh())
		}
	case "PopFrontN":
		for i := 0; i < o.N && c.d.Len() > 0; i++ {
			c.d.PopFront()
		}
	case "PopBackN":
		for i := 0; i < o.N && c.d.Len() > 0; i++ {
			c.d.PopBack()
		}
	case "Shrink":
		c.d.Shrink(o.N % 3)
	case "Grow":
		c.d.Grow(o.N)
	case "BigToQuarter":
		// a long backlog that has mostly been worked off: thousands of pushes, then pops until the deque is just
		// above a quarter (N%3: exactly at / one above / two above) of its buffer - the next pop or two cross the line
		for i := 0; i < 1100+o.N*131%3000; i++ {
			c.d.PushBack(c.fresh())
		}
		for {
			capacity, _, _, _ := c.d.VerifState()
			if c.d.Len() <= capacity/4+o.N%3 || c.d.Len() <= 1 {
				break
			}
			if o.N%2 == 0 {
				c.d.PopFront()
			} else {
				c.d.PopBack()
			}
		}
	case "FillToCap":
		capacity, _, _, _ := c.d.VerifState()
		for c.d.Len() < capacity {
			c.d.PushBack(c.fresh())
		}
	}
}
func (c *dq) apply(o MidOp) effect {
	capBefore, _, _, _ := c.d.VerifState()
	switch o.Op {
	case "PushFront":
		c.d.PushFront(c.fresh())
		return addRemove
	case "PushBack":
		c.d.PushBack(c.fresh())
		return addRemove
	case "PopFront":
		if c.d.Len() == 0 {
			return none
		}
		c.d.PopFront()
		return addRemove
	case "PopBack":
		if c.d.Len() == 0 {
			return none
		}
		c.d.PopBack()
		return addRemove
	case "Set":
		if c.d.Len() == 0 {
			return none
		}
		c.d.Set(o.A%c.d.Len(), c.fresh())
		return changed
	case "Churn":
		// Exactly 256 or 65536 modifications (by the deque's own counter, read through the hook): a stale-iterator
		// test that keeps only the low bits of the counter is fooled by exactly such a distance.
		target := []int{256, 65536}[o.A%2]
		for i := 0; i < 3*target; i++ {
			_, _, _, g := c.d.VerifState()
			d := g - c.genAtIter
			if d > 0 && d%target == 0 {
				break
			}
			if rem := target - d%target; rem >= 4 || c.d.Len() == 0 {
				c.d.PushBack(c.fresh())
				c.d.PopBack()
			} else {
				c.d.Set(0, c.fresh())
			}
		}
		return addRemove
	case "DrainRefill":
		// Empty the deque, then refill it with fresh values. If emptying rewinds the modification counter,
		// refill until the counter is back at the value the iterator remembers (a stale iterator would then
		// look valid); on a counter that only ever grows this is just "pop everything, push a few".
		for c.d.Len() > 0 {
			c.d.PopFront()
		}
		if o.B%2 == 0 {
			c.d.Shrink(0) // (an emptied deque may give its buffer back; its history it may not forget)
		}
		for pushes := 0; pushes < 300; pushes++ {
			_, _, _, g := c.d.VerifState()
			if (g == c.genAtIter && pushes > 0) || (g > c.genAtIter && pushes > o.A%4) {
				break
			}
			c.d.PushBack(c.fresh())
		}
		return addRemove
	case "Grow":
		c.d.Grow(o.A)
	case "Shrink":
		c.d.Shrink(o.A % 4)
	case "Rejected":
		// calls that are documented to panic and to leave the deque as it was: nothing has been modified
		n := c.d.Len()
		vk.Catch(func() { c.d.Set(n+o.A%3, c.fresh()) })
		vk.Catch(func() { c.d.Set(-1-o.A%3, c.fresh()) })
		vk.Catch(func() { c.d.Item(n) })
		vk.Catch(func() { c.d.Shrink(-1 - o.A) })
		if n == 0 {
			vk.Catch(func() { c.d.PopFront() })
			vk.Catch(func() { c.d.PopBack() })
			vk.Catch(func() { c.d.Front() })
			vk.Catch(func() { c.d.Back() })
		}
		return none
	case "Reads":
		if n := c.d.Len(); n > 0 {
			c.d.Front()
			c.d.Back()
			c.d.Item(o.A % n)
		}
		return none
	}
	if capNow, _, _, _ := c.d.VerifState(); capNow != capBefore {
		return touched
	}
	return none
}

// ---------------------------------------------------------------- heap

// hel is the heap's element type: {pri, id} plus a string, so that the element type holds a pointer (code that
// treats pointer-free and pointer-holding element types differently takes the second path).
type hel struct {
	pri, id int
	name    string
}

func mkHel(pri, id int) hel { return hel{pri, id, fmt.Sprintf("job-%d", id)} }

type hp struct {
	h    xheap.Heap[hel]
	next int
}

func pack(e hel) int {
	if e.name != fmt.Sprintf("job-%d", e.id) {
		return -1 // not an element anybody pushed
	}
	return e.id<<12 | (e.pri + 100)
}
func (c *hp) snapshot() []int {
	var out []int
	it := c.h.Iterate()
	for {
		e, ok := it.Next()
		if !ok {
			return out
		}
		out = append(out, pack(e))
	}
}
func (c *hp) ordered() bool { return false }
func (c *hp) iterate() func() (int, bool) {
	it := c.h.Iterate()
	return func() (int, bool) {
		e, ok := it.Next()
		if !ok {
			return 0, false
		}
		return pack(e), true
	}
}
func (c *hp) apply(o MidOp) effect {
	switch o.Op {
	case "Push":
		c.next++
		c.h.Push(mkHel(o.A%6, c.next))
		return addRemove
	case "Pop":
		if c.h.Len() == 0 {
			return none
		}
		c.h.Pop()
		return addRemove
	case "Grow":
		c.h.Grow(o.A)
		return touched
	case "Shrink":
		c.h.Shrink(o.A % 4)
		return touched
	case "Rejected":
		if c.h.Len() == 0 {
			vk.Catch(func() { c.h.Pop() })
			vk.Catch(func() { c.h.Peek() })
		}
		return none
	case "Reads": // read-only calls leave an iteration in progress alone
		if c.h.Len() > 0 {
			c.h.Peek()
		}
		return none
	case "Churn": // exactly 256 or 65536 pushes and pops (see the deque's Churn)
		target := []int{256, 65536}[o.A%2]
		for i := 0; i < target/2; i++ {
			c.next++
			c.h.Push(mkHel(o.A%6, c.next))
			c.h.Pop()
		}
		return addRemove
	}
	return none
}

// ---------------------------------------------------------------- queue

type pq struct {
	q    xheap.PriorityQueue[int, int]
	next int
}

func (c *pq) keysInArrayOrder() []int {
	var out []int
	it := c.q.Iterate()
	for {
		k, ok := it.Next()
		if !ok {
			return out
		}
		out = append(out, k)
	}
}
func (c *pq) snapshot() []int { return c.keysInArrayOrder() }
func (c *pq) ordered() bool   { return false }
func (c *pq) iterate() func() (int, bool) {
	it := c.q.Iterate()
	return it.Next
}
func (c *pq) apply(o MidOp) effect {
	ks := c.keysInArrayOrder()
	n := len(ks)
	pickKey := func() (int, bool) {
		if n == 0 {
			return 0, false
		}
		lastInner := (n - 2) / 2
		switch o.Rel {
		case "root":
			return ks[0], true
		case "last":
			return ks[n-1], true
		case "inner":
			if lastInner >= 1 {
				return ks[1+o.A%lastInner], true
			}
		case "leaf":
			if lo := lastInner + 1; lo >= 1 && lo < n-1 {
				return ks[lo+o.A%(n-1-lo)], true
			}
		}
		return ks[o.A%n], true
	}
	switch o.Op {
	case "UpdateLower", "UpdateHigher", "UpdateEqual":
		k, ok := pickKey()
		if !ok {
			return none
		}
		p := c.q.Priority(k)
		switch o.Op {
		case "UpdateLower":
			p -= 1 + o.B%20
		case "UpdateHigher":
			p += 1 + o.B%20
		}
		c.q.Update(k, p)
		return changed
	case "UpdateNew":
		c.next++
		c.q.Update(1000+c.next, o.B%8)
		return addRemove
	case "Remove":
		k, ok := pickKey()
		if !ok {
			return none
		}
		c.q.Remove(k)
		return addRemove
	case "RemoveAbsent":
		c.q.Remove(-5 - o.A)
		return none
	case "Rejected":
		if n == 0 {
			vk.Catch(func() { c.q.Pop() })
			vk.Catch(func() { c.q.Peek() })
		}
		vk.Catch(func() { c.q.Priority(-5 - o.A) })
		return none
	case "Reads":
		c.q.Contains(-5 - o.A)
		if k, ok := pickKey(); ok {
			c.q.Peek()
			c.q.Contains(k)
			c.q.Priority(k)
		}
		return none
	case "Pop":
		if n == 0 {
			return none
		}
		c.q.Pop()
		return addRemove
	case "Grow":
		c.q.Grow(o.A)
		return touched
	case "Churn": // exactly 256 or 65536 insertions and removals (see the deque's Churn)
		target := []int{256, 65536}[o.A%2]
		for i := 0; i < target/2; i++ {
			c.q.Update(-77, o.B%8)
			c.q.Remove(-77)
		}
		return addRemove
	}
	return none
}

// ---------------------------------------------------------------- generator

var dequeMid = []string{"PushFront", "PushBack", "PopFront", "PopBack", "Set", "Grow", "Shrink", "Grow", "Shrink", "Set", "DrainRefill", "Churn", "Rejected", "Reads"}
var heapMid = []string{"Push", "Pop", "Grow", "Shrink", "Push", "Pop", "Churn", "Rejected", "Reads", "Reads"}
var queueMid = []string{"UpdateLower", "UpdateHigher", "UpdateEqual", "UpdateLower", "UpdateHigher", "UpdateNew", "Remove", "RemoveAbsent", "Pop", "Grow", "Churn", "Rejected", "Reads", "Reads"}
var posRel = []string{"root", "last", "inner", "leaf", "any"}

func genMid(t *rapid.T, kind string) MidOp {
	var names []string
	switch kind {
	case "deque":
		names = dequeMid
	case "heap":
		names = heapMid
	default:
		names = queueMid
	}
	o := MidOp{Op: rapid.SampledFrom(names).Draw(t, "mid"), A: rapid.IntRange(0, 100).Draw(t, "a"), B: rapid.IntRange(0, 100).Draw(t, "b")}
	if o.Op == "Churn" && o.A%2 == 1 && rapid.IntRange(0, 3).Draw(t, "churnbig") != 0 {
		o.A-- // the 65536 variant is expensive: one churn in eight
	}
	if kind == "queue" {
		o.Rel = rapid.SampledFrom(posRel).Draw(t, "rel")
	}
	return o
}

func genPlan(kind string) func(t *rapid.T) Plan {
	return func(t *rapid.T) Plan {
		p := Plan{Kind: kind}
		ns := rapid.IntRange(0, 6).Draw(t, "nsetup")
		for i := 0; i < ns; i++ {
			var names []string
			if kind == "deque" {
				names = []string{"PushBackN", "PushFrontN", "PopFrontN", "PopBackN", "Shrink", "Grow", "FillToCap", "PushBackN"}
				if i == ns-1 && rapid.IntRange(0, 11).Draw(t, "big") == 0 {
					names = []string{"BigToQuarter"}
				}
			} else {
				names = []string{"PushN", "PushN", "PopN"}
			}
			p.Setup = append(p.Setup, SetupOp{Op: rapid.SampledFrom(names).Draw(t, "setup"), N: rapid.SampledFrom([]int{1, 1, 2, 3, 5, 8, 15, 16, 17, 33}).Draw(t, "n")})
		}
		if rapid.IntRange(0, 5).Draw(t, "haspre") == 0 {
			p.Pre = append(p.Pre, genMid(t, kind))
		}
		p.J = rapid.IntRange(0, 40).Draw(t, "j")
		nm := rapid.SampledFrom([]int{0, 1, 1, 1, 1, 2, 3}).Draw(t, "nmid")
		for i := 0; i < nm; i++ {
			p.Mid = append(p.Mid, genMid(t, kind))
		}
		return p
	}
}

// ---------------------------------------------------------------- executor + oracle

func build(p Plan) (container, error) {
	switch p.Kind {
	case "deque":
		c := &dq{}
		for _, s := range p.Setup {
			c.setup(s)
		}
		return c, nil
	case "heap":
		c := &hp{}
		var initial []hel
		for _, s := range p.Setup {
			if s.Op == "PushN" && len(initial) < 10 && c.next == len(initial) {
				for i := 0; i < s.N; i++ {
					c.next++
					initial = append(initial, mkHel((i*7)%5, c.next))
				}
			}
		}
		c.h = xheap.New(func(a, b hel) bool { return a.pri < b.pri }, initial)
		for _, s := range p.Setup[min(1, len(p.Setup)):] {
			switch s.Op {
			case "PushN":
				for i := 0; i < s.N; i++ {
					c.next++
					c.h.Push(mkHel((c.next*5)%7, c.next))
				}
			case "PopN":
				for i := 0; i < s.N && c.h.Len() > 0; i++ {
					c.h.Pop()
				}
			}
		}
		return c, nil
	case "queue":
		c := &pq{}
		c.q = xheap.NewPriorityQueue[int, int](func(a, b int) bool { return a < b }, nil)
		for _, s := range p.Setup {
			switch s.Op {
			case "PushN":
				for i := 0; i < s.N; i++ {
					c.next++
					c.q.Update(c.next, (c.next*5)%7)
				}
			case "PopN":
				for i := 0; i < s.N && c.q.Len() > 0; i++ {
					c.q.Pop()
				}
			}
		}
		return c, nil
	}
	return nil, fmt.Errorf("bad kind %q", p.Kind)
}

func isPrefix(got, cand []int, ordered bool) bool {
	if len(got) > len(cand) {
		return false
	}
	if ordered {
		for i := range got {
			if got[i] != cand[i] {
				return false
			}
		}
		return true
	}
	in := map[int]bool{}
	for _, x := range cand {
		in[x] = true
	}
	seen := map[int]bool{}
	for _, x := range got {
		if !in[x] || seen[x] {
			return false
		}
		seen[x] = true
	}
	return true
}

func runPlan(p Plan) (vk.Outcome, error) {
	var out vk.Outcome
	c, err := build(p)
	if err != nil {
		return out, err
	}
	s0 := c.snapshot()
	next := c.iterate()
	worst := none
	var history []string
	note := func(o MidOp, e effect) {
		history = append(history, fmt.Sprintf("%s->%d", o.Op, e))
		if e > worst {
			worst = e
		}
	}
	for _, o := range p.Pre {
		note(o, c.apply(o))
	}
	var s1 []int
	var got []int
	started, mustPanic, dead, ended := false, false, false, false
	call := func(what string) error {
		if !started {
			s1 = c.snapshot()
			started = true
		}
		var v int
		var ok bool
		panicked, pv := vk.Catch(func() { v, ok = next() })
		if panicked {
			if worst == none {
				return vk.Violf("panic-unchanged", "%s: Next panicked (%v) although the container was not changed; history %v", what, pv, history)
			}
			dead = true
			out.Label("panicked")
			return nil
		}
		if dead {
			out.Label("answered-after-a-panic")
		}
		if mustPanic { // (also for an iterator that had already reported the end: "panics if ... modified since iteration started")
			return vk.Violf("no-panic-after-add-remove", "%s: an element was added/removed after iteration had started, yet Next returned (%v,%v) instead of panicking; history %v",
				what, v, ok, history)
		}
		if ok {
			if ended {
				return vk.Violf("revived", "%s: Next yielded %d after reporting the end", what, v)
			}
			got = append(got, v)
			if !isPrefix(got, s0, c.ordered()) && !isPrefix(got, s1, c.ordered()) {
				return vk.Violf("wrong-data", "%s: iterator has returned %v, which is not a prefix of the snapshot at Iterate() %v nor of the one at the first Next %v; history %v",
					what, got, s0, s1, history)
			}
			return nil
		}
		ended = true
		full0 := len(got) == len(s0) && isPrefix(got, s0, c.ordered())
		full1 := len(got) == len(s1) && isPrefix(got, s1, c.ordered())
		if !full0 && !full1 {
			return vk.Violf("early-end", "%s: iterator reported exhaustion after %v, snapshot at Iterate() %v, at first Next %v; history %v", what, got, s0, s1, history)
		}
		return nil
	}
	size := len(s0)
	j := p.J % (size + 2) // size+1: one call past the end, so that the iterator has finished before the mid ops
	for i := 0; i < j && !dead; i++ {
		if err := call(fmt.Sprintf("Next #%d", i+1)); err != nil {
			return out, err
		}
	}
	effectful := false
	for _, o := range p.Mid {
		e := c.apply(o)
		note(o, e)
		if e != none {
			effectful = true
			out.Label(p.Kind + ":" + o.Op)
		}
		if e == addRemove && started {
			mustPanic = true
		}
	}
	afterPanic := 0
	for i := 0; i < size+6 && afterPanic < 3; i++ {
		// (a caller that recovered from the panic and polls again must not be handed wrong data either: the
		// same oracle applies to whatever the iterator answers then)
		if dead {
			afterPanic++
		}
		if err := call(fmt.Sprintf("Next #%d after mid ops", i+1)); err != nil {
			return out, err
		}
	}
	if ended && !dead {
		// A second iterator, created after the first one has finished: the finished one stays finished (or
		// panics, if the container was changed since), the new one yields the whole current contents.
		s2 := c.snapshot()
		next2 := c.iterate()
		var v int
		var ok bool
		if panicked, _ := vk.Catch(func() { v, ok = next() }); !panicked && ok {
			return out, vk.Violf("revived", "the exhausted iterator yielded %d after another iterator had been created on the same container", v)
		}
		var got2 []int
		for i := 0; i < len(s2)+3; i++ {
			var v2 int
			var ok2 bool
			if panicked, pv := vk.Catch(func() { v2, ok2 = next2() }); panicked {
				return out, vk.Violf("panic-unchanged", "second iterator: Next panicked (%v) although the container was not changed since it was created", pv)
			}
			if !ok2 {
				break
			}
			got2 = append(got2, v2)
		}
		if len(got2) != len(s2) || !isPrefix(got2, s2, c.ordered()) {
			return out, vk.Violf("wrong-data", "a second iterator created after the first had finished yielded %v, contents %v", got2, s2)
		}
		out.Label("second-iterator")
	}
	if !dead && !ended {
		return out, vk.Violf("endless", "iterator still yielding after %d calls on a snapshot of %d", size+6+j, size)
	}
	if worst == none {
		out.Label("unchanged-full-iteration")
	}
	out.NonTrivial = j > 0 && j < size && effectful
	return out, nil
}

func TestDequeIter(t *testing.T) { vk.Run(t, suite, "deque-iter", 4000, genPlan("deque"), runPlan) }
func TestHeapIter(t *testing.T)  { vk.Run(t, suite, "heap-iter", 2000, genPlan("heap"), runPlan) }
func TestQueueIter(t *testing.T) { vk.Run(t, suite, "queue-iter", 4000, genPlan("queue"), runPlan) }
