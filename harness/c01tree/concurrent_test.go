package c01tree

import (
	"fmt"
	"sync"
	"testing"

	"pgregory.net/rapid"

	"verif/harness/treekit"
	"verif/harness/vk"
)

// ConcPlan: a pre-filled tree, its present keys partitioned into writer sets (each goroutine Puts
// new values on its own present keys) and reader sets (Get/Contains/First/Last-free lookups of keys
// nobody writes). Run under the race detector (the job is built with -race).
type ConcPlan struct {
	Cfg     treekit.Config `json:"cfg"`
	Fill    treekit.Op     `json:"fill"`
	Writers int            `json:"writers"`
	Readers int            `json:"readers"`
	Mult    int            `json:"mult"`
	Rounds  int            `json:"rounds"`
}

func genConc(t *rapid.T) ConcPlan {
	p := ConcPlan{Cfg: treekit.GenConfig(t)}
	p.Cfg.Keys = "int"
	p.Fill = treekit.Op{Op: "Fill", Start: rapid.IntRange(1, 100).Draw(t, "start"),
		Count:  rapid.SampledFrom([]int{1, 2, 15, 16, 40, 127, 128, 300, 1030, 2500}).Draw(t, "count"),
		Stride: rapid.SampledFrom([]int{1, 2, 4, 5}).Draw(t, "stride"),
		Order:  rapid.SampledFrom([]string{"asc", "desc", "saw", "shuf"}).Draw(t, "order"), Mult: 13}
	p.Writers = rapid.IntRange(1, 6).Draw(t, "writers")
	p.Readers = rapid.IntRange(0, 6).Draw(t, "readers")
	p.Mult = rapid.SampledFrom([]int{1, 3, 7, 16, 17}).Draw(t, "mult")
	p.Rounds = rapid.IntRange(1, 4).Draw(t, "rounds")
	return p
}

func runConc(p ConcPlan) (vk.Outcome, error) {
	var out vk.Outcome
	c := treekit.New(treekit.IntKeys, p.Cfg, nil)
	m := &treekit.Model{Ord: treekit.Orders[p.Cfg.Order]}
	id := 0
	for _, k := range treekit.FillKeys(p.Fill) {
		id++
		v := &treekit.Val{ID: id}
		if p.Cfg.Set {
			v = nil
		}
		c.Put(k, v)
		m.Put(k, v)
	}
	n := m.Len()
	groups := p.Writers + p.Readers
	owner := func(i int) int { return (i * p.Mult) % groups }
	c2 := c.Copy()
	var wg sync.WaitGroup
	errs := make(chan error, groups)
	final := make([]*treekit.Val, n) // final[i] written only by entry i's owner
	for g := 0; g < groups; g++ {
		wg.Add(1)
		go func(g int) {
			defer wg.Done()
			cc := c
			if g%2 == 1 {
				cc = c2
			}
			for r := 0; r < p.Rounds; r++ {
				for i := 0; i < n; i++ {
					if owner(i) != g {
						continue
					}
					k := m.Es[i].Reps[0]
					if g < p.Writers {
						v := &treekit.Val{ID: 1000000 + g*100000 + r*10000 + i}
						if p.Cfg.Set {
							v = nil
						}
						cc.Put(k, v)
						final[i] = v
					} else {
						if !cc.Contains(k) {
							errs <- vk.Violf("conc-contains", "reader %d: Contains(%d) false during concurrent Puts to other keys", g, k)
							return
						}
						if cc.IsMap() {
							if v := cc.Get(k); v != m.Es[i].Val {
								errs <- vk.Violf("conc-get", "reader %d: Get(%d) returned another key's or a stale value", g, k)
								return
							}
						}
					}
				}
			}
		}(g)
	}
	wg.Wait()
	close(errs)
	for e := range errs {
		return out, e
	}
	if c.Len() != n {
		return out, vk.Violf("conc-len", "Len %d after concurrent Puts to present keys, was %d", c.Len(), n)
	}
	for i := 0; i < n; i++ {
		k := m.Es[i].Reps[0]
		want := m.Es[i].Val
		if owner(i) < p.Writers {
			want = final[i]
		}
		if !c.Contains(k) {
			return out, vk.Violf("conc-lost", "key %d missing after concurrent Puts", k)
		}
		if c.IsMap() {
			if got := c.Get(k); got != want {
				return out, vk.Violf("conc-effect", "key %d: value after the run is not its writer's last Put", k)
			}
		}
	}
	out.NonTrivial = p.Writers >= 2 && p.Readers >= 1 && n >= 16
	out.Label(fmt.Sprintf("writers=%d", p.Writers))
	if n > 255 {
		out.Label("height>=3")
	}
	return out, nil
}

func TestConcurrent(t *testing.T) {
	suite.Crashy = true
	vk.Run(t, suite, "concurrent", 300, genConc, runConc)
	suite.Crashy = false
}
