package c01tree

import (
	"testing"

	"verif/harness/treekit"
	"verif/harness/vk"
)

var suite = vk.NewSuite("C01")

func TestMain(m *testing.M) { suite.Main(m) }

func opts() treekit.Options { return treekit.Options{MaxCount: vk.Size(2000, 5000)} }

// TestTreeModel: generated histories against the sorted-slice reference model.
func TestTreeModel(t *testing.T) {
	vk.Run(t, suite, "treeplan", 2500, treekit.GenPlan(opts()), treekit.RunPlan(opts()))
}

// FuzzTreeModel: native coverage-guided fuzzing of the same property (thorough tier only).
func FuzzTreeModel(f *testing.F) {
	vk.Fuzz(f, suite, "treeplan", treekit.GenPlan(opts()), treekit.RunPlan(opts()))
}
