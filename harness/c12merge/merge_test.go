package c12merge

import (
	"context"
	"fmt"
	"strings"
	"sync"
	"sync/atomic"
	"testing"
	"testing/synctest"
	"time"

	"github.com/bradenaw/juniper/chans"
	"github.com/bradenaw/juniper/iterator"
	"github.com/bradenaw/juniper/stream"
	"pgregory.net/rapid"

	"verif/harness/sk"
	"verif/harness/vk"
)

var suite = vk.NewSuite("C12")
var theT *testing.T

func TestMain(m *testing.M) { suite.Main(m) }

func bubble(f func() error) (verr error) {
	var stuck string
	func() {
		defer func() {
			if r := recover(); r != nil {
				stuck = fmt.Sprint(r)
			}
		}()
		synctest.Test(theT, func(t *testing.T) {
			defer func() {
				if r := recover(); r != nil {
					verr = vk.Violf("panic", "panic inside bubble: %v", r)
				}
			}()
			verr = f()
		})
	}()
	if stuck != "" && verr == nil {
		verr = vk.Violf("stuck", "the bubble did not come to rest (a call never returned or a goroutine was left behind): %s", stuck)
	}
	return verr
}

type Input struct {
	Gaps    []int `json:"gaps"`              // ms before each value; len = number of values
	Buf     int   `json:"buf,omitempty"`     // channel capacity (chans.*)
	ErrAt   int   `json:"errat"`             // stream.Merge: -1 none, else fails with E once this many items are out
	Blocks  bool  `json:"blocks,omitempty"`  // stream.Merge: after its items the input blocks until its ctx ends
	ErrKind int   `json:"errkind,omitempty"` // 0 = plain sentinel, 1 = an error wrapping context.Canceled, 2 = wrapping context.DeadlineExceeded
	// Lib (stream.Merge): the input is one of the library's own streams instead of a recording double:
	// stream.Empty() when it has no values, stream.FromIterator(iterator.Slice(..)) otherwise (no gaps)
	Lib bool `json:"lib,omitempty"`
	// Wrap (stream.Merge): the input is handed over as a struct value with func fields (not comparable)
	Wrap bool `json:"wrap,omitempty"`
}

type Plan struct {
	Inputs     []Input `json:"inputs"`
	Pace       []int   `json:"pace"` // consumer: ms before each receive (cycled)
	OutBuf     int     `json:"outbuf,omitempty"`
	CloseAfter int     `json:"close_after"`       // stream.Merge: -1 = read to the end, else Close after this many items
	CallMs     int     `json:"call_ms,omitempty"` // stream.Merge: per-call timeout of the consumer (0 = none); an expired call is retried
	// Replicate
	Dsts []Dst `json:"dsts,omitempty"`
}

type Dst struct {
	Buf  int `json:"buf"`
	Pace int `json:"pace"`
}

var gapChoices = []int{0, 0, 0, 1, 10, 100}
var arities = []int{0, 1, 2, 3, 4, 7, 2, 3, 65, 130} // (wide merges: implementations switch strategy with the number of inputs)

func genInput(t *rapid.T, streamKind bool) Input {
	in := Input{ErrAt: -1}
	n := rapid.SampledFrom([]int{0, 0, 1, 2, 3, 6}).Draw(t, "nvals")
	for i := 0; i < n; i++ {
		in.Gaps = append(in.Gaps, rapid.SampledFrom(gapChoices).Draw(t, "gap"))
	}
	in.Buf = rapid.SampledFrom([]int{0, 0, 1, 3}).Draw(t, "buf")
	if streamKind {
		switch rapid.IntRange(0, 7).Draw(t, "ending") {
		case 0:
			in.ErrAt = rapid.IntRange(0, n).Draw(t, "errat")
			in.ErrKind = rapid.IntRange(0, 3).Draw(t, "errkind")
		case 1:
			in.Blocks = true
		case 2, 3:
			in.Lib = true
		}
		in.Wrap = rapid.IntRange(0, 3).Draw(t, "wrap") == 0
	}
	return in
}

func genPlan(kind string) func(t *rapid.T) Plan {
	return func(t *rapid.T) Plan {
		p := Plan{CloseAfter: -1}
		arity := rapid.SampledFrom(arities).Draw(t, "arity")
		if kind == "stream-merge" {
			arity = rapid.SampledFrom([]int{0, 1, 2, 3, 4, 5, 2, 3, 65, 130}).Draw(t, "sarity") // (wide merges too)
		}
		if kind == "replicate" {
			arity = 1
		}
		for i := 0; i < arity; i++ {
			p.Inputs = append(p.Inputs, genInput(t, kind == "stream-merge"))
		}
		p.Pace = rapid.SliceOfN(rapid.SampledFrom([]int{0, 0, 1, 10, 500}), 1, 4).Draw(t, "pace")
		p.OutBuf = rapid.SampledFrom([]int{0, 0, 2}).Draw(t, "outbuf")
		if kind == "stream-merge" {
			if rapid.IntRange(0, 3).Draw(t, "calltimeout") == 0 {
				p.CallMs = rapid.SampledFrom([]int{1, 5, 50}).Draw(t, "callms")
			}
			if arity > 0 && rapid.IntRange(0, 7).Draw(t, "allempty") == 0 {
				for i := range p.Inputs {
					p.Inputs[i] = Input{ErrAt: -1, Lib: true}
				}
			}
			total := 0
			blocks := false
			for _, in := range p.Inputs {
				total += len(in.Gaps)
				blocks = blocks || in.Blocks
			}
			if blocks || rapid.IntRange(0, 3).Draw(t, "early") == 0 {
				p.CloseAfter = rapid.IntRange(0, total).Draw(t, "closeafter")
			}
		}
		if kind == "replicate" {
			nd := rapid.IntRange(0, 4).Draw(t, "ndst")
			for i := 0; i < nd; i++ {
				p.Dsts = append(p.Dsts, Dst{Buf: rapid.SampledFrom([]int{0, 1, 5}).Draw(t, "dbuf"), Pace: rapid.SampledFrom([]int{0, 1, 50}).Draw(t, "dpace")})
			}
		}
		return p
	}
}

func val(input, k int) int { return (input+1)*1000 + k }

func ms(x int) time.Duration { return time.Duration(x) * time.Millisecond }

func interleaved(p Plan) bool {
	nonEmpty, short := 0, false
	max := 0
	for _, in := range p.Inputs {
		if len(in.Gaps) > 0 {
			nonEmpty++
		}
		if len(in.Gaps) > max {
			max = len(in.Gaps)
		}
	}
	for _, in := range p.Inputs {
		if len(in.Gaps) < max {
			short = true
		}
	}
	return nonEmpty >= 2 && short
}

// ---------------------------------------------------------------- chans.Merge

func runChansMerge(p Plan) (vk.Outcome, error) {
	var out vk.Outcome
	err := bubble(func() error {
		ins := make([]chan int, len(p.Inputs))
		ro := make([]<-chan int, len(p.Inputs))
		total := 0
		var open atomic.Int32
		var prod sync.WaitGroup
		for i, in := range p.Inputs {
			prod.Add(1)
			ins[i] = make(chan int, in.Buf)
			ro[i] = ins[i]
			total += len(in.Gaps)
			open.Add(1)
			go func(i int, in Input) {
				for k, g := range in.Gaps {
					time.Sleep(ms(g))
					ins[i] <- val(i, k)
				}
				open.Add(-1)
				close(ins[i])
				prod.Done()
			}(i, in)
		}
		outc := make(chan int, p.OutBuf)
		var returned atomic.Bool
		go func() {
			chans.Merge(outc, ro...)
			returned.Store(true)
		}()
		next := map[int]int{}
		got := 0
		for got < total {
			time.Sleep(ms(p.Pace[got%len(p.Pace)]))
			synctest.Wait()
			if returned.Load() && got+len(outc) < total {
				return vk.Violf("returned-early", "chans.Merge returned after %d of %d values were delivered", got+len(outc), total)
			}
			v := <-outc
			i, k := v/1000-1, v%1000
			if i < 0 || i >= len(p.Inputs) || k >= len(p.Inputs[i].Gaps) {
				return vk.Violf("invented-value", "received %d, which no input sent", v)
			}
			if k != next[i] {
				return vk.Violf("order", "input %d: received its value #%d, expected #%d (lost, duplicated or reordered)", i, k, next[i])
			}
			next[i]++
			got++
		}
		prod.Wait() // every input is closed now
		synctest.Wait()
		select {
		case v := <-outc:
			return vk.Violf("extra-value", "received %d after all %d values", v, total)
		default:
		}
		if open.Load() == 0 && !returned.Load() {
			return vk.Violf("not-finished", "all %d inputs are closed and all %d values delivered, chans.Merge has not returned", len(p.Inputs), total)
		}
		if !returned.Load() {
			return vk.Violf("not-finished", "chans.Merge has not returned at quiescence (open inputs: %d)", open.Load())
		}
		return nil
	})
	out.Label(fmt.Sprintf("arity=%d", len(p.Inputs)))
	out.NonTrivial = interleaved(p) || len(p.Inputs) <= 1
	return out, err
}

// ---------------------------------------------------------------- chans.Replicate

func runReplicate(p Plan) (vk.Outcome, error) {
	var out vk.Outcome
	if len(p.Inputs) != 1 {
		return out, fmt.Errorf("bad plan")
	}
	err := bubble(func() error {
		in := p.Inputs[0]
		n := len(in.Gaps)
		src := make(chan int, in.Buf)
		var prod sync.WaitGroup
		prod.Add(1)
		go func() {
			defer prod.Done()
			for k, g := range in.Gaps {
				time.Sleep(ms(g))
				src <- val(0, k)
			}
			close(src)
		}()
		dsts := make([]chan int, len(p.Dsts))
		wo := make([]chan<- int, len(p.Dsts))
		for i, d := range p.Dsts {
			dsts[i] = make(chan int, d.Buf)
			wo[i] = dsts[i]
		}
		var returned atomic.Bool
		go func() {
			chans.Replicate(src, wo...)
			returned.Store(true)
		}()
		var wg sync.WaitGroup
		errs := make([]error, len(p.Dsts))
		for i, d := range p.Dsts {
			wg.Add(1)
			go func(i int, d Dst) {
				defer wg.Done()
				for k := 0; k < n; k++ {
					time.Sleep(ms(d.Pace))
					if returned.Load() && len(dsts[i]) == 0 {
						errs[i] = vk.Violf("returned-early", "Replicate returned before destination %d had value #%d", i, k)
						return
					}
					v := <-dsts[i]
					if v != val(0, k) {
						errs[i] = vk.Violf("order", "destination %d: value #%d is %d, want %d", i, k, v, val(0, k))
						return
					}
				}
			}(i, d)
		}
		wg.Wait()
		for _, e := range errs {
			if e != nil {
				return e
			}
		}
		prod.Wait() // the source is closed now
		synctest.Wait()
		for i := range dsts {
			select {
			case v := <-dsts[i]:
				return vk.Violf("extra-value", "destination %d received %d after the whole source", i, v)
			default:
			}
		}
		if !returned.Load() {
			return vk.Violf("not-finished", "source closed and every destination has all %d values, Replicate has not returned", n)
		}
		return nil
	})
	out.Label(fmt.Sprintf("dsts=%d", len(p.Dsts)))
	out.NonTrivial = len(p.Dsts) >= 2 && len(p.Inputs[0].Gaps) >= 2 || len(p.Dsts) == 0
	return out, err
}

// ---------------------------------------------------------------- stream.Merge

// funcStream is a stream implemented as a struct VALUE with func fields: a type that == cannot compare and that
// cannot be a map key. Streams are interface values; nothing says they are comparable.
type funcStream[T any] struct {
	next  func(ctx context.Context) (T, error)
	close func()
}

func (f funcStream[T]) Next(ctx context.Context) (T, error) { return f.next(ctx) }
func (f funcStream[T]) Close()                              { f.close() }

func runStreamMerge(p Plan) (vk.Outcome, error) {
	var out vk.Outcome
	err := bubble(func() error {
		E := make([]error, len(p.Inputs))
		recs := make([]*sk.RecStream[int], len(p.Inputs))
		ss := make([]stream.Stream[int], len(p.Inputs))
		total := 0
		anyErr, anyBlock := false, false
		for i, in := range p.Inputs {
			items := make([]int, len(in.Gaps))
			gaps := make([]time.Duration, len(in.Gaps))
			for k := range items {
				items[k], gaps[k] = val(i, k), ms(in.Gaps[k])
			}
			r := sk.NewRecStream(fmt.Sprintf("in%d", i), items)
			r.Gaps = gaps
			E[i] = sk.NewSentinel(fmt.Sprintf("E%d", i))
			switch in.ErrKind { // an input may fail, for reasons of its own, with an error that wraps a context error
			case 1:
				E[i] = fmt.Errorf("input %d: upstream call failed: %w", i, context.Canceled)
			case 2:
				E[i] = fmt.Errorf("input %d: upstream call failed: %w", i, context.DeadlineExceeded)
			case 3: // ... or the end marker: a failure all the same, not the end of the input
				E[i] = fmt.Errorf("input %d: truncated record: %w", i, stream.End)
			}
			if in.ErrAt >= 0 {
				r.FinalAt, r.Final = in.ErrAt, E[i]
				anyErr = true
			} else if in.Blocks {
				r.BlockAt = len(items)
				anyBlock = true
			}
			if in.ErrAt < 0 || in.ErrAt > len(items) {
				total += len(items)
			} else {
				total += in.ErrAt
			}
			recs[i], ss[i] = r, r
			if in.Wrap {
				ss[i] = funcStream[int]{next: r.Next, close: r.Close}
			}
			if in.Lib && in.ErrAt < 0 && !in.Blocks {
				recs[i] = nil
				if len(items) == 0 {
					ss[i] = stream.Empty[int]()
				} else {
					ss[i] = stream.FromIterator(iterator.Slice(items))
				}
			}
		}
		m := stream.Merge(ss...)
		next := map[int]int{}
		got := 0
		var final error
		bg := context.Background()
		for p.CloseAfter < 0 || got < p.CloseAfter {
			time.Sleep(ms(p.Pace[got%len(p.Pace)]))
			ctx, cancel := bg, context.CancelFunc(func() {})
			if p.CallMs > 0 {
				ctx, cancel = sk.WithTimeout(bg, ms(p.CallMs))
			}
			v, err := m.Next(ctx)
			expired := ctx.Err() != nil
			cancel()
			if err != nil {
				if expired && err == context.DeadlineExceeded {
					// this call's own context ran out: costs nothing, the next call carries on
					out.Label("call-expired")
					continue
				}
				final = err
				break
			}
			i, k := v/1000-1, v%1000
			if i < 0 || i >= len(p.Inputs) || k >= len(p.Inputs[i].Gaps) {
				return vk.Violf("invented-value", "received %d, which no input yields", v)
			}
			if k != next[i] {
				return vk.Violf("order", "input %d: received its value #%d, expected #%d", i, k, next[i])
			}
			next[i]++
			got++
			if got > total {
				return vk.Violf("extra-value", "received more than the %d values the inputs hold", total)
			}
		}
		if final != nil {
			if final == stream.End {
				if anyErr {
					// an input failed: End is only acceptable if that failure was never reached... every input is read to its end, so it was
					return vk.Violf("error-swallowed", "an input fails with an error, the merged stream reported the normal end after %d values", got)
				}
				if got != total {
					return vk.Violf("lost-value", "End after %d of %d values", got, total)
				}
			} else {
				isInputErr := false
				for i := range E {
					if p.Inputs[i].ErrAt >= 0 && final == E[i] {
						isInputErr = true
					}
				}
				if !isInputErr {
					return vk.Violf("wrong-error", "merged stream failed with %v, which no input returned", final)
				}
				// no later call may report the normal end
				if _, err2 := m.Next(bg); err2 == nil || err2 == stream.End {
					return vk.Violf("error-not-sticky", "after the input error the next call returned %v", err2)
				}
			}
		}
		m.Close()
		// after Close returned: every input closed exactly once, nothing left running (the bubble must exit)
		for _, r := range recs {
			if r == nil {
				continue
			}
			if err := r.Ownership(); err != nil {
				return vk.Violf("ownership", "after Close of the merged stream: %v", err)
			}
		}
		if anyBlock {
			out.Label("blocking-input")
		}
		if anyErr {
			out.Label("input-error")
		}
		return nil
	})
	out.Label(fmt.Sprintf("arity=%d", len(p.Inputs)))
	if p.CloseAfter >= 0 {
		out.Label("early-close")
	}
	out.NonTrivial = interleaved(p) || len(p.Inputs) <= 1 || p.CloseAfter >= 0
	return out, err
}

func reps(f func(Plan) (vk.Outcome, error)) func(Plan) (vk.Outcome, error) {
	return func(p Plan) (vk.Outcome, error) {
		n := vk.Reps(3, 10)
		var out vk.Outcome
		for i := 0; i < n; i++ {
			o, err := f(p)
			if err != nil {
				return o, err
			}
			out = o
		}
		out.Execs = n
		return out, nil
	}
}

func TestChansMerge(t *testing.T) {
	theT = t
	vk.Run(t, suite, "chans-merge", 1200, genPlan("chans-merge"), reps(runChansMerge))
}

func TestReplicate(t *testing.T) {
	theT = t
	vk.Run(t, suite, "replicate", 600, genPlan("replicate"), reps(runReplicate))
}

func TestStreamMerge(t *testing.T) {
	theT = t
	vk.Run(t, suite, "stream-merge", 1200, genPlan("stream-merge"), reps(runStreamMerge))
}

// ---------------------------------------------------------------- chans.Merge over an interface element type

// runChansMergeIface: the same producers, but the channels carry error values, some of them nil
// (a nil interface is a perfectly good channel value). Every arity must move them all.
func runChansMergeIface(p Plan) (vk.Outcome, error) {
	var out vk.Outcome
	nils := 0
	err := bubble(func() error {
		ins := make([]chan error, len(p.Inputs))
		ro := make([]<-chan error, len(p.Inputs))
		total, wantNil := 0, 0
		sent := map[error][2]int{}
		var prod sync.WaitGroup
		for i, in := range p.Inputs {
			ins[i] = make(chan error, in.Buf)
			ro[i] = ins[i]
			total += len(in.Gaps)
			vals := make([]error, len(in.Gaps))
			for k := range vals {
				if (k+i)%2 == 0 {
					wantNil++
				} else {
					vals[k] = sk.NewSentinel(fmt.Sprintf("v%d-%d", i, k))
					sent[vals[k]] = [2]int{i, k}
				}
			}
			prod.Add(1)
			go func(i int, in Input, vals []error) {
				defer prod.Done()
				for k, g := range in.Gaps {
					time.Sleep(ms(g))
					ins[i] <- vals[k]
				}
				close(ins[i])
			}(i, in, vals)
		}
		outc := make(chan error, p.OutBuf)
		var returned atomic.Bool
		panicked := make(chan any, 1)
		go func() {
			defer func() {
				if r := recover(); r != nil {
					panicked <- r
				}
			}()
			chans.Merge(outc, ro...)
			returned.Store(true)
		}()
		gotNil := 0
		last := map[int]int{}
		for got := 0; got < total; got++ {
			time.Sleep(ms(p.Pace[got%len(p.Pace)]))
			select {
			case v := <-outc:
				if v == nil {
					gotNil++
					continue
				}
				ik, ok := sent[v]
				if !ok {
					return vk.Violf("invented-value", "received %v, which no input sent", v)
				}
				if prev, seen := last[ik[0]]; seen && ik[1] <= prev {
					return vk.Violf("order", "input %d: value #%d received after #%d", ik[0], ik[1], prev)
				}
				last[ik[0]] = ik[1]
			case r := <-panicked:
				return vk.Violf("merge-panic", "chans.Merge over chan error with %d inputs panicked after %d of %d values (some values are nil errors): %v", len(p.Inputs), got, total, r)
			}
		}
		prod.Wait()
		synctest.Wait()
		if gotNil != wantNil {
			return vk.Violf("lost-value", "%d nil values sent, %d received", wantNil, gotNil)
		}
		select {
		case r := <-panicked:
			return vk.Violf("merge-panic", "chans.Merge panicked: %v", r)
		default:
		}
		if !returned.Load() {
			return vk.Violf("not-finished", "chans.Merge (interface values) has not returned at quiescence")
		}
		nils = wantNil
		return nil
	})
	out.Label(fmt.Sprintf("arity=%d", len(p.Inputs)))
	out.NonTrivial = nils > 0 && len(p.Inputs) >= 2
	return out, err
}

func TestChansMergeInterfaceValues(t *testing.T) {
	theT = t
	vk.Run(t, suite, "chans-merge-iface", 600, genPlan("chans-merge"), reps(runChansMergeIface))
}

// ---------------------------------------------------------------- stream.Merge: inputs that finish at the same instant

type BurstPlan struct {
	Arity  int `json:"arity"`
	Items  int `json:"items"`
	Rounds int `json:"rounds"`
}

func genBurst(t *rapid.T) BurstPlan {
	return BurstPlan{Arity: rapid.IntRange(2, 6).Draw(t, "arity"), Items: rapid.IntRange(0, 2).Draw(t, "items"), Rounds: rapid.IntRange(20, 120).Draw(t, "rounds")}
}

// runBurst: all inputs have the same (tiny) length and no gaps, so their goroutines reach the end
// together; whichever of them is "the last one" must close the output exactly once. A panic on one of
// Merge's own goroutines (e.g. a double close) kills the process: the driver then reports the plan
// that was running (suite.Crashy).
func runBurst(p BurstPlan) (vk.Outcome, error) {
	var out vk.Outcome
	err := bubble(func() error {
		bg := context.Background()
		for round := 0; round < p.Rounds; round++ {
			ss := make([]stream.Stream[int], p.Arity)
			recs := make([]*sk.RecStream[int], p.Arity)
			for i := range ss {
				items := make([]int, p.Items)
				for k := range items {
					items[k] = val(i, k)
				}
				recs[i] = sk.NewRecStream(fmt.Sprintf("in%d", i), items)
				ss[i] = recs[i]
			}
			m := stream.Merge(ss...)
			got := 0
			for {
				_, err := m.Next(bg)
				if err == stream.End {
					break
				}
				if err != nil {
					return vk.Violf("spurious-error", "round %d: %v", round, err)
				}
				got++
				if got > p.Arity*p.Items {
					return vk.Violf("extra-value", "round %d: more values than the inputs hold", round)
				}
			}
			if got != p.Arity*p.Items {
				return vk.Violf("lost-value", "round %d: End after %d of %d values", round, got, p.Arity*p.Items)
			}
			if _, err := m.Next(bg); err != stream.End {
				return vk.Violf("end-not-sticky", "round %d: Next after End returned %v", round, err)
			}
			m.Close()
			for _, r := range recs {
				if err := r.Ownership(); err != nil {
					return vk.Violf("ownership", "round %d: %v", round, err)
				}
			}
		}
		return nil
	})
	out.NonTrivial = true
	out.Execs = p.Rounds
	return out, err
}

func TestStreamMergeSimultaneousEnd(t *testing.T) {
	theT = t
	suite.Crashy = true
	vk.Run(t, suite, "stream-merge-burst", 300, genBurst, runBurst)
	suite.Crashy = false
}

// ---------------------------------------------------------------- chans.Merge next to another receiver on one of its inputs
//
// An input of Merge may be a work queue that somebody else receives from as well (a second Merge, a
// plain worker). Merge then moves what IT receives: together with what the other receiver took that is
// exactly what was sent, and nothing that nobody sent (no zero values conjured up from a closed or
// drained input) ever comes out.

type SharedPlan struct {
	Arity  int `json:"arity"`
	Buf    int `json:"buf"`
	N      int `json:"n"` // values per input
	Rounds int `json:"rounds"`
}

func genShared(t *rapid.T) SharedPlan {
	return SharedPlan{Arity: rapid.SampledFrom([]int{1, 2, 2, 2, 2, 2, 3, 4, 5}).Draw(t, "arity"), Buf: rapid.SampledFrom([]int{1, 2, 4, 8}).Draw(t, "buf"),
		N: rapid.IntRange(1, 12).Draw(t, "n"), Rounds: rapid.IntRange(50, 200).Draw(t, "rounds")}
}

func runShared(p SharedPlan) (vk.Outcome, error) {
	var out vk.Outcome
	err := bubble(func() error {
		for round := 0; round < p.Rounds; round++ {
			ins := make([]chan int, p.Arity)
			ro := make([]<-chan int, p.Arity)
			var prod sync.WaitGroup
			for i := range ins {
				ins[i] = make(chan int, p.Buf)
				ro[i] = ins[i]
				prod.Add(1)
				go func(i int) {
					defer prod.Done()
					for k := 0; k < p.N; k++ {
						ins[i] <- val(i, k)
					}
					close(ins[i])
				}(i)
			}
			outc := make(chan int, 1)
			mergeDone := make(chan struct{})
			go func() { chans.Merge(outc, ro...); close(outc); close(mergeDone) }()
			var stolen []int
			thiefDone := make(chan struct{})
			go func() { // the other receiver on input 0: takes what it can get until the input is closed
				defer close(thiefDone)
				for v := range ins[0] {
					stolen = append(stolen, v)
				}
			}()
			var merged []int
			for v := range outc {
				merged = append(merged, v)
			}
			<-thiefDone
			<-mergeDone
			prod.Wait()
			seen := map[int]bool{}
			for _, v := range append(append([]int{}, merged...), stolen...) {
				i, k := v/1000-1, v%1000
				if i < 0 || i >= p.Arity || k >= p.N {
					return vk.Violf("invented-value", "round %d: chans.Merge over %d inputs (one of them shared with another receiver) delivered %d, which nobody sent; merged %v", round, p.Arity, v, merged)
				}
				if seen[v] {
					return vk.Violf("duplicate", "round %d: value %d was delivered twice", round, v)
				}
				seen[v] = true
			}
			if len(seen) != p.Arity*p.N {
				return vk.Violf("lost-value", "round %d: %d of %d values arrived (merged %d, taken by the other receiver %d)", round, len(seen), p.Arity*p.N, len(merged), len(stolen))
			}
			last := map[int]int{}
			for _, v := range merged {
				i, k := v/1000-1, v%1000
				if l, ok := last[i]; ok && k < l {
					return vk.Violf("order", "round %d: input %d out of order in the merged output: %v", round, i, merged)
				}
				last[i] = k
			}
		}
		return nil
	})
	out.NonTrivial, out.Execs = p.Arity >= 2, p.Rounds
	out.Label(fmt.Sprintf("shared-input/arity=%d", p.Arity))
	return out, err
}

func TestChansMergeSharedInput(t *testing.T) {
	theT = t
	vk.Run(t, suite, "chans-merge-shared", 150, genShared, runShared)
}

// ---------------------------------------------------------------- stream.Merge: which error wins when an input fails
//
// One input fails while the others sit in a Next that honours its context. Merge cancels them when it
// sees the failure; their "context canceled" is Merge's own doing and must never be what the consumer
// is told. The window (a cancelled sibling overtaking the failing input's report) is a few instructions
// wide, so: many rounds, several idle siblings.

type ErrStormPlan struct {
	Failing int `json:"failing,omitempty"` // inputs that fail at the same instant, each with an error of another concrete type (0 = 1)
	Idle    int `json:"idle"`              // inputs that block until their context ends
	After   int `json:"after"`             // the failing input yields this many values first
	Rounds  int `json:"rounds"`
}

// stormErr is an error of a non-pointer concrete type.
type stormErr struct{ inner error }

func (e stormErr) Error() string { return "storm: " + e.inner.Error() }
func (e stormErr) Unwrap() error { return e.inner }

func genErrStorm(t *rapid.T) ErrStormPlan {
	return ErrStormPlan{Failing: rapid.SampledFrom([]int{1, 1, 2, 3, 8}).Draw(t, "failing"), Idle: rapid.IntRange(1, 6).Draw(t, "idle"), After: rapid.IntRange(0, 2).Draw(t, "after"), Rounds: rapid.IntRange(100, 500).Draw(t, "rounds")}
}

func runErrStorm(p ErrStormPlan) (vk.Outcome, error) {
	var out vk.Outcome
	err := bubble(func() error {
		for round := 0; round < p.Rounds; round++ {
			var Es []error
			var ss []stream.Stream[int]
			var recs []*sk.RecStream[int]
			nf := p.Failing
			if nf < 1 {
				nf = 1
			}
			for fi := 0; fi < nf; fi++ {
				var E error = sk.NewSentinel(fmt.Sprintf("E%d", fi))
				switch fi % 3 { // errors of different concrete types
				case 1:
					E = fmt.Errorf("input %d failed: %w", fi, E)
				case 2:
					E = stormErr{E}
				}
				Es = append(Es, E)
				var items []int
				if fi == 0 {
					items = make([]int, p.After)
					for k := range items {
						items[k] = val(0, k)
					}
				}
				f := sk.NewRecStream(fmt.Sprintf("failing%d", fi), items)
				f.FinalAt, f.Final = len(items), E
				recs, ss = append(recs, f), append(ss, stream.Stream[int](f))
			}
			for i := 0; i < p.Idle; i++ {
				r := sk.NewRecStream[int](fmt.Sprintf("idle%d", i), nil)
				r.BlockAt = 0
				recs, ss = append(recs, r), append(ss, stream.Stream[int](r))
			}
			// the failing input goes to a random position among the idle ones
			pos := round % len(ss)
			ss[0], ss[pos] = ss[pos], ss[0]
			m := stream.Merge(ss...)
			var final error
			for i := 0; i <= p.After+1; i++ {
				_, err := m.Next(context.Background())
				if err != nil {
					final = err
					break
				}
			}
			m.Close()
			okErr := false
			for _, E := range Es {
				okErr = okErr || final == E
			}
			if !okErr {
				return vk.Violf("wrong-error", "round %d: %d input(s) failed while %d others were idle in a context-aware Next; the merged stream reported %v, which none of them returned", round, nf, p.Idle, final)
			}
			for _, r := range recs {
				if err := r.Ownership(); err != nil {
					return vk.Violf("ownership", "round %d: after Close of the merged stream: %v", round, err)
				}
			}
		}
		return nil
	})
	out.NonTrivial, out.Execs = true, p.Rounds
	out.Label("merge-error-storm")
	return out, err
}

func TestStreamMergeErrorStorm(t *testing.T) {
	theT = t
	vk.Run(t, suite, "stream-merge-error-storm", 40, genErrStorm, runErrStorm)
}

// ---------------------------------------------------------------- chans.Replicate over interface values incl. nil

type RepIfacePlan struct {
	N    int   `json:"n"`    // values
	Dsts []int `json:"dsts"` // buffer size of each destination
}

func genRepIface(t *rapid.T) RepIfacePlan {
	return RepIfacePlan{N: rapid.IntRange(0, 8).Draw(t, "n"), Dsts: rapid.SliceOfN(rapid.SampledFrom([]int{0, 1, 4}), 0, 5).Draw(t, "dsts")}
}

func runRepIface(p RepIfacePlan) (vk.Outcome, error) {
	var out vk.Outcome
	err := bubble(func() error {
		src := make(chan error, 1)
		vals := make([]error, p.N)
		for k := range vals {
			if k%2 == 0 {
				vals[k] = nil // a nil error is a value like any other
			} else {
				vals[k] = sk.NewSentinel(fmt.Sprintf("v%d", k))
			}
		}
		dsts := make([]chan error, len(p.Dsts))
		wo := make([]chan<- error, len(p.Dsts))
		for i, b := range p.Dsts {
			dsts[i] = make(chan error, b)
			wo[i] = dsts[i]
		}
		panicked := make(chan any, 1)
		done := make(chan struct{})
		go func() {
			defer close(done)
			defer func() {
				if r := recover(); r != nil {
					panicked <- r
				}
			}()
			chans.Replicate(src, wo...)
		}()
		go func() {
			for _, v := range vals {
				src <- v
			}
			close(src)
		}()
		got := make([][]error, len(dsts))
		var wg sync.WaitGroup
		quit := make(chan struct{})
		for i := range dsts {
			wg.Add(1)
			go func(i int) {
				defer wg.Done()
				for len(got[i]) < p.N {
					select {
					case v := <-dsts[i]:
						got[i] = append(got[i], v)
					case <-quit:
						return
					}
				}
			}(i)
		}
		synctest.Wait()
		close(quit)
		wg.Wait()
		select {
		case r := <-panicked:
			return vk.Violf("replicate-panic", "chans.Replicate over chan error (every other value is a nil error) to %d destinations panicked: %v", len(dsts), r)
		default:
		}
		for i := range dsts {
			if len(got[i]) != p.N {
				return vk.Violf("lost-value", "destination %d of %d received %d of %d values", i, len(dsts), len(got[i]), p.N)
			}
			for k, v := range got[i] {
				if v != vals[k] {
					return vk.Violf("order", "destination %d: value #%d is %v, sent %v", i, k, v, vals[k])
				}
			}
		}
		select {
		case <-done:
		default:
			return vk.Violf("not-finished", "chans.Replicate has not returned although its source is closed and everything was delivered")
		}
		return nil
	})
	out.NonTrivial = p.N >= 2 && len(p.Dsts) >= 2
	out.Label(fmt.Sprintf("replicate-iface/dsts=%d", len(p.Dsts)))
	return out, err
}

func TestReplicateInterfaceValues(t *testing.T) {
	theT = t
	vk.Run(t, suite, "replicate-iface", 400, genRepIface, runRepIface)
}

// ---------------------------------------------------------------- stream.Merge over hundreds of long-lived inputs
//
// Every input has one value ready and then stays open and idle (a subscription). All of those values
// have to come out while the inputs are still open - the merge may not serve its inputs in shifts.

type WidePlan struct {
	N int `json:"n"`
}

func genWide(t *rapid.T) WidePlan {
	return WidePlan{N: rapid.SampledFrom([]int{65, 130, 257, 300, 1000}).Draw(t, "n")}
}

func runWide(p WidePlan) (vk.Outcome, error) {
	var out vk.Outcome
	err := bubble(func() error {
		recs := make([]*sk.RecStream[int], p.N)
		ss := make([]stream.Stream[int], p.N)
		for i := range recs {
			r := sk.NewRecStream(fmt.Sprintf("in%d", i), []int{i})
			r.BlockAt = 1 // after its one value the input blocks until its context ends
			recs[i], ss[i] = r, r
		}
		m := stream.Merge(ss...)
		seen := make([]bool, p.N)
		for got := 0; got < p.N; got++ {
			var v int
			var err error
			done := make(chan struct{})
			go func() { v, err = m.Next(context.Background()); close(done) }()
			synctest.Wait()
			select {
			case <-done:
			default:
				m.Close()
				<-done
				return vk.Violf("lost-value", "%d inputs are open and each has handed over (or holds) one value; after %d of them came out the merged stream has nothing to deliver at quiescence", p.N, got)
			}
			if err != nil {
				return vk.Violf("spurious-error", "Next #%d: %v", got, err)
			}
			if v < 0 || v >= p.N || seen[v] {
				return vk.Violf("invented-value", "Next #%d returned %d (duplicate or unknown)", got, v)
			}
			seen[v] = true
		}
		m.Close()
		for _, r := range recs {
			if err := r.Ownership(); err != nil {
				return vk.Violf("ownership", "after Close of the merged stream: %v", err)
			}
		}
		return nil
	})
	out.NonTrivial = true
	out.Label(fmt.Sprintf("wide/n=%d", p.N))
	return out, err
}

func TestStreamMergeWide(t *testing.T) {
	theT = t
	vk.Run(t, suite, "stream-merge-wide", 10, genWide, runWide)
}

// ---------------------------------------------------------------------------------------------
// stream.Merge: an input's failure reaches the consumer even while other inputs are busy
//
// One input fails after a few values. The others are inside a Next call that does not watch its context (a
// Stream need not: a blocking read from something that cannot be interrupted) and that only returns once
// the consumer has been told about the failure - i.e. the error's way to the consumer must not lead through
// the other inputs. If it does, everybody waits for everybody: the bubble deadlocks ("silence").

type BusyPlan struct {
	Siblings int `json:"siblings"`
	Before   int `json:"before"`  // values the failing input yields first
	SibVals  int `json:"sibvals"` // values every sibling yields before it goes into its long call
	FailPos  int `json:"failpos"` // position of the failing input among the arguments
}

func genBusy(t *rapid.T) BusyPlan {
	p := BusyPlan{Siblings: rapid.IntRange(1, 5).Draw(t, "siblings"), Before: rapid.IntRange(0, 3).Draw(t, "before"), SibVals: rapid.IntRange(0, 2).Draw(t, "sibvals")}
	p.FailPos = rapid.IntRange(0, p.Siblings).Draw(t, "failpos")
	return p
}

func runBusy(p BusyPlan) (vk.Outcome, error) {
	var out vk.Outcome
	err := bubble(func() error {
		E := sk.NewSentinel("E")
		told := make(chan struct{}) // closed once the consumer has seen E
		var ss []stream.Stream[int]
		var recs []*sk.RecStream[int]
		total := 0
		for i := 0; i <= p.Siblings; i++ {
			if i == p.FailPos {
				items := make([]int, p.Before)
				for k := range items {
					items[k] = val(i, k)
				}
				r := sk.NewRecStream("failing", items)
				r.FinalAt, r.Final = p.Before, E
				recs = append(recs, r)
				ss = append(ss, r)
				total += p.Before
				continue
			}
			n, closed := 0, false
			i := i
			ss = append(ss, funcStream[int]{
				next: func(ctx context.Context) (int, error) {
					if closed {
						panic("Next after Close")
					}
					if n < p.SibVals {
						n++
						return val(i, n-1), nil
					}
					<-told // (does not look at ctx)
					return 0, stream.End
				},
				close: func() { closed = true },
			})
			total += p.SibVals
		}
		m := stream.Merge(ss...)
		got := 0
		for {
			_, err := m.Next(context.Background())
			if err == nil {
				got++
				if got > total {
					m.Close()
					return vk.Violf("invented-value", "more than the %d values the inputs hold", total)
				}
				continue
			}
			if err != E {
				close(told)
				m.Close()
				return vk.Violf("wrong-error", "input %d failed with E after %d values while %d other inputs were busy: the merged stream reported %v", p.FailPos, p.Before, p.Siblings, err)
			}
			break
		}
		close(told)
		m.Close()
		for _, r := range recs {
			if err := r.Ownership(); err != nil {
				return vk.Violf("ownership", "after Close of the merged stream: %v", err)
			}
		}
		return nil
	})
	if err != nil && strings.Contains(err.Error(), "stuck") {
		err = vk.Violf("error-held-back", "stream.Merge of %d inputs: input %d failed after %d values while the others were inside a Next call that only returns once the consumer has seen the failure; the consumer never saw it (%v)", p.Siblings+1, p.FailPos, p.Before, err)
	}
	out.NonTrivial = true
	out.Label(fmt.Sprintf("busy/siblings=%d", p.Siblings))
	return out, err
}

func TestStreamMergeErrorBusySiblings(t *testing.T) {
	theT = t
	vk.Run(t, suite, "stream-merge-error-busy-sibling", 200, genBusy, runBusy)
}
