package c12merge

import (
	"context"
	"fmt"
	"testing"
	"time"

	"github.com/bradenaw/juniper/chans"
	"github.com/bradenaw/juniper/stream"
	"pgregory.net/rapid"

	"verif/harness/sk"
	"verif/harness/vk"
)

// merge-real-clock: chans.Merge, chans.Replicate and stream.Merge on real goroutines, outside a bubble (an
// implementation that serialises with a sync.Mutex cannot be judged inside one). Nothing depends on time;
// the whole case has 10 s of active time. Oracles: the multiset of values, each input's order, the end
// exactly when everything is out, stream.Merge's first error, and - after Close - every input closed once.

type RealPlan struct {
	Fn     string `json:"fn"` // chans.Merge | chans.Replicate | stream.Merge
	Lens   []int  `json:"lens"`
	Buf    int    `json:"buf"`
	ErrIn  int    `json:"err_in"` // stream.Merge: that input fails after its values; -1 = none
	Stop   int    `json:"stop"`   // stream.Merge: values to read before Close; -1 = to the end / error
	Dsts   int    `json:"dsts"`   // Replicate
	Source int    `json:"source"` // Replicate: number of values
	// GoexitIn (k > 0, stream.Merge): input k-1 ends its goroutine - one of Merge's - with runtime.Goexit instead of
	// reporting its end (t.FailNow in a test double does that): the merged stream still comes to an end, Close
	// returns and every input is closed once
	GoexitIn int `json:"goexit_in,omitempty"`
}

func genRealPlan(t *rapid.T) RealPlan {
	p := RealPlan{Fn: rapid.SampledFrom([]string{"chans.Merge", "chans.Replicate", "stream.Merge", "stream.Merge"}).Draw(t, "fn"),
		Buf: rapid.SampledFrom([]int{0, 1, 8}).Draw(t, "buf"), ErrIn: -1, Stop: -1,
		Dsts: rapid.IntRange(0, 5).Draw(t, "dsts"), Source: rapid.IntRange(0, 40).Draw(t, "source")}
	n := rapid.SampledFrom([]int{0, 1, 2, 3, 4, 5, 7, 12}).Draw(t, "arity")
	for i := 0; i < n; i++ {
		p.Lens = append(p.Lens, rapid.SampledFrom([]int{0, 1, 3, 30}).Draw(t, "len"))
	}
	if p.Fn == "stream.Merge" && n > 0 {
		if rapid.IntRange(0, 2).Draw(t, "fail") == 0 {
			p.ErrIn = rapid.IntRange(0, n-1).Draw(t, "errin")
		}
		if rapid.IntRange(0, 2).Draw(t, "early") == 0 {
			p.Stop = rapid.IntRange(0, 10).Draw(t, "stop")
		}
		if p.ErrIn < 0 && rapid.IntRange(0, 3).Draw(t, "goexit") == 0 {
			p.GoexitIn = 1 + rapid.IntRange(0, n-1).Draw(t, "goexitin")
		}
	}
	return p
}

func runRealPlan(p RealPlan) (vk.Outcome, error) {
	var out vk.Outcome
	done := make(chan error, 1)
	go func() { done <- realBody(p) }()
	select {
	case err := <-done:
		if err != nil {
			return out, err
		}
	case <-vk.After(10 * time.Second):
		return out, vk.Violf("stuck", "%s has not finished after 10 s", vk.Short(p))
	}
	out.NonTrivial = len(p.Lens) >= 2 || (p.Fn == "chans.Replicate" && p.Dsts >= 2)
	out.Label("real:" + p.Fn)
	return out, nil
}

// checkInterleaving: got is an interleaving of the inputs' sequences val(i,0..lens[i]-1), complete if full.
func checkInterleaving(got []int, lens []int, full bool, what string) error {
	next := make([]int, len(lens))
	for _, v := range got {
		i, k := v/1000-1, v%1000
		if i < 0 || i >= len(lens) || k != next[i] || k >= lens[i] {
			return vk.Violf("not-an-interleaving", "%s: value %d out of place (inputs %v), output %v", what, v, lens, got)
		}
		next[i]++
	}
	if full {
		for i, n := range next {
			if n != lens[i] {
				return vk.Violf("lost-value", "%s: ended after %d of %d values of input %d (inputs %v)", what, n, lens[i], i, lens)
			}
		}
	}
	return nil
}

func realBody(p RealPlan) error {
	switch p.Fn {
	case "chans.Merge":
		ins := make([]chan int, len(p.Lens))
		// the argument slice is a window of a longer one (pairwise merging of a list, say): what lies behind the
		// window, and the window itself, belong to the caller
		behind := make(chan int)
		backing := make([]<-chan int, len(p.Lens)+2)
		backing[len(p.Lens)], backing[len(p.Lens)+1] = behind, behind
		ro := backing[:len(p.Lens)]
		for i := range ins {
			ins[i] = make(chan int, p.Buf)
			ro[i] = ins[i]
			go func(i int) {
				for k := 0; k < p.Lens[i]; k++ {
					ins[i] <- val(i, k)
				}
				close(ins[i])
			}(i)
		}
		outC := make(chan int, p.Buf)
		ret := make(chan struct{})
		go func() { chans.Merge(outC, ro...); close(ret) }()
		total := 0
		for _, n := range p.Lens {
			total += n
		}
		var got []int
		for len(got) < total {
			got = append(got, <-outC)
		}
		<-ret // returns once every input is closed and everything is out
		for i := range backing {
			want := (<-chan int)(behind)
			if i < len(ins) {
				want = ins[i]
			}
			if backing[i] != want {
				return vk.Violf("argument-slice-modified", "chans.Merge(out, list[:%d]...): element %d of the caller's list was overwritten", len(ins), i)
			}
		}
		select {
		case v := <-outC:
			return vk.Violf("invented-value", "chans.Merge sent %d after all %d values", v, total)
		default:
		}
		return checkInterleaving(got, p.Lens, true, "chans.Merge")
	case "chans.Replicate":
		src := make(chan int, p.Buf)
		dsts := make([]chan int, p.Dsts)
		wo := make([]chan<- int, p.Dsts)
		for i := range dsts {
			dsts[i] = make(chan int, p.Buf)
			wo[i] = dsts[i]
		}
		go func() {
			for k := 0; k < p.Source; k++ {
				src <- k
			}
			close(src)
		}()
		ret := make(chan struct{})
		go func() { chans.Replicate(src, wo...); close(ret) }()
		res := make(chan error, p.Dsts)
		for i := range dsts {
			go func(i int) {
				for k := 0; k < p.Source; k++ {
					if v := <-dsts[i]; v != k {
						res <- vk.Violf("wrong-value", "chans.Replicate: destination %d received %d as value #%d", i, v, k)
						return
					}
				}
				res <- nil
			}(i)
		}
		for range dsts {
			if err := <-res; err != nil {
				return err
			}
		}
		<-ret
		return nil
	default:
		E := sk.NewSentinel("E")
		recs := make([]*sk.RecStream[int], len(p.Lens))
		behindS := sk.NewRecStream("behind", []int{1})
		backingS := make([]stream.Stream[int], len(p.Lens)+2)
		backingS[len(p.Lens)], backingS[len(p.Lens)+1] = behindS, behindS
		ss := backingS[:len(p.Lens)]
		for i, n := range p.Lens {
			items := make([]int, n)
			for k := range items {
				items[k] = val(i, k)
			}
			r := sk.NewRecStream(fmt.Sprintf("in%d", i), items)
			if i == p.ErrIn {
				r.FinalAt, r.Final = n, E
			}
			if i == p.GoexitIn-1 {
				r.GoexitAt = n + 1 // after its values
			}
			recs[i], ss[i] = r, r
		}
		m := stream.Merge(ss...)
		var got []int
		var final error
		for p.Stop < 0 || len(got) < p.Stop {
			v, err := m.Next(context.Background())
			if err != nil {
				final = err
				break
			}
			got = append(got, v)
			if len(got) > 1000 {
				m.Close()
				return vk.Violf("invented-value", "stream.Merge yielded more than 1000 values from inputs %v", p.Lens)
			}
		}
		m.Close()
		for i := range backingS {
			want := stream.Stream[int](behindS)
			if i < len(recs) {
				want = recs[i]
			}
			if backingS[i] != want {
				return vk.Violf("argument-slice-modified", "stream.Merge(list[:%d]...): element %d of the caller's list was overwritten", len(recs), i)
			}
		}
		if n, c, _ := behindS.Stats(); n != 0 || c != 0 {
			return vk.Violf("argument-slice-modified", "stream.Merge(list[:%d]...) used the stream behind its arguments (%d Next, %d Close)", len(recs), n, c)
		}
		if final != nil && final != stream.End && !(final == E && p.ErrIn >= 0) {
			return vk.Violf("wrong-error", "stream.Merge failed with %v (failing input: %d)", final, p.ErrIn)
		}
		if final == stream.End && p.ErrIn >= 0 {
			return vk.Violf("error-swallowed", "stream.Merge reported the end although input %d failed", p.ErrIn)
		}
		if err := checkInterleaving(got, p.Lens, final == stream.End, "stream.Merge"); err != nil {
			return err
		}
		for _, r := range recs {
			if err := r.Ownership(); err != nil {
				return vk.Violf("ownership", "after Close of the merged stream: %v", err)
			}
		}
		return nil
	}
}

func TestMergeRealClock(t *testing.T) {
	vk.Run(t, suite, "merge-real-clock", 1500, genRealPlan, runRealPlan)
}
