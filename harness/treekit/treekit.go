// Package treekit holds what the tree checks (C01, C02, C03) share: key types, the comparator
// family, Map/Set adapters and the sorted-slice reference model.
package treekit

import (
	"fmt"
	"math"
	"sort"

	"github.com/bradenaw/juniper/container/tree"
	"github.com/bradenaw/juniper/iterator"
	"github.com/bradenaw/juniper/xsort"
)

// Val is the value type: a pointer to a fresh object per Put, so identity is observable.
type Val struct{ ID int }

// SKey is the struct key type.
type SKey struct {
	A int
	B string
}

// KeyKind maps logical integer keys (>= 1) to a concrete key type and back.
type KeyKind[K any] struct {
	Name string
	Mk   func(int) K
	Un   func(K) int
	// Strict, if set, is what the user's comparator uses instead of Un: it does not tolerate the zero
	// value of K (a comparator over pointer keys dereferences them), so a library that hands the
	// comparator a key the user never supplied blows up, as it would for a real user.
	Strict func(K) int
	// Set, for key types with reference semantics, rewrites the key object in place so that it stands for i
	// (a job whose due time is changed, a buffer that is reused). Only ever applied to a key that is not in
	// a collection at that moment.
	Set func(K, int)
}

func (kk KeyKind[K]) ord(k K) int {
	if kk.Strict != nil {
		return kk.Strict(k)
	}
	return kk.Un(k)
}

// BytesKeys are []byte keys (a key type that == cannot compare: only the user's order may be applied to it).
var BytesKeys = KeyKind[[]byte]{Name: "bytes",
	Set: func(k []byte, i int) { copy(k, fmt.Sprintf("k%07d", i)) },
	Mk:  func(i int) []byte { return []byte(fmt.Sprintf("k%07d", i)) },
	Un: func(k []byte) int {
		if len(k) < 2 {
			return 0
		}
		var n int
		fmt.Sscanf(string(k[1:]), "%d", &n)
		return n
	}}

// PtrKeys are pointer keys ordered by what they point to; every Mk returns a fresh pointer.
var PtrKeys = KeyKind[*int]{Name: "ptr",
	Mk: func(i int) *int { v := i; return &v },
	Un: func(k *int) int {
		if k == nil {
			return 0
		}
		return *k
	},
	Strict: func(k *int) int { return *k },
	Set:    func(k *int, i int) { *k = i }}

var IntKeys = KeyKind[int]{Name: "int", Mk: func(i int) int { return i }, Un: func(k int) int { return k }}

// IntZeroKeys shifts by one so that the Go zero value (0) is a legitimate key.
var IntZeroKeys = KeyKind[int]{Name: "int0", Mk: func(i int) int { return i - 1 }, Un: func(k int) int { return k + 1 }}
var StringKeys = KeyKind[string]{Name: "string",
	Mk: func(i int) string { return fmt.Sprintf("k%07d", i) },
	Un: func(k string) int {
		if len(k) < 2 {
			return 0
		}
		var n int
		fmt.Sscanf(k[1:], "%d", &n)
		return n
	}}
var StructKeys = KeyKind[SKey]{Name: "struct",
	Mk: func(i int) SKey { return SKey{A: i / 10, B: string(rune('a' + i%10))} },
	Un: func(k SKey) int {
		if k.B == "" {
			return 0
		}
		return k.A*10 + int(k.B[0]-'a')
	}}

// Orders is the family of strict weak orders, expressed on logical keys as three-way functions.
var Orders = map[string]func(a, b int) int{
	"nat":       func(a, b int) int { return sgn(a - b) },
	"rev":       func(a, b int) int { return sgn(b - a) },
	"coarse4":   func(a, b int) int { return sgn(a/4 - b/4) },
	"revcoarse": func(a, b int) int { return sgn(b/3 - a/3) },
	"parity": func(a, b int) int { // evens before odds, each ascending: a monotone fill becomes a sawtooth
		if a%2 != b%2 {
			return sgn(a%2 - b%2)
		}
		return sgn(a - b)
	},
}

// Canon maps a logical key to a canonical representative of its equivalence class.
var Canon = map[string]func(int) int{
	"nat":       func(a int) int { return a },
	"rev":       func(a int) int { return a },
	"coarse4":   func(a int) int { return a / 4 },
	"revcoarse": func(a int) int { return a / 3 },
	"parity":    func(a int) int { return a },
}
var OrderNames = []string{"nat", "rev", "coarse4", "revcoarse", "parity"}
var Flavors = []string{"less", "cmp", "cmpmag", "cmpext"}

func Coarse(order string) bool { return order == "coarse4" || order == "revcoarse" }

func sgn(x int) int {
	if x < 0 {
		return -1
	}
	if x > 0 {
		return 1
	}
	return 0
}

// Coll is what the checks see of a Map or Set.
type Coll[K any] interface {
	IsMap() bool
	Put(k K, v *Val)
	Delete(k K)
	Get(k K) *Val
	Contains(k K) bool
	Len() int
	First() (K, *Val)
	Last() (K, *Val)
	Iterate() iterator.Iterator[tree.KVPair[K, *Val]]
	Range(lo, hi tree.Bound[K]) iterator.Iterator[tree.KVPair[K, *Val]]
	RangeReverse(lo, hi tree.Bound[K]) iterator.Iterator[tree.KVPair[K, *Val]]
	Shape(withNodes bool) tree.VerifShape[K]
	Copy() Coll[K]
}

type mapColl[K any] struct{ m tree.Map[K, *Val] }

func (c mapColl[K]) IsMap() bool                     { return true }
func (c mapColl[K]) Put(k K, v *Val)                 { c.m.Put(k, v) }
func (c mapColl[K]) Delete(k K)                      { c.m.Delete(k) }
func (c mapColl[K]) Get(k K) *Val                    { return c.m.Get(k) }
func (c mapColl[K]) Contains(k K) bool               { return c.m.Contains(k) }
func (c mapColl[K]) Len() int                        { return c.m.Len() }
func (c mapColl[K]) First() (K, *Val)                { return c.m.First() }
func (c mapColl[K]) Last() (K, *Val)                 { return c.m.Last() }
func (c mapColl[K]) Copy() Coll[K]                   { m2 := c.m; return mapColl[K]{m2} }
func (c mapColl[K]) Shape(n bool) tree.VerifShape[K] { return c.m.VerifShape(n) }
func (c mapColl[K]) Iterate() iterator.Iterator[tree.KVPair[K, *Val]] {
	return c.m.Iterate()
}
func (c mapColl[K]) Range(lo, hi tree.Bound[K]) iterator.Iterator[tree.KVPair[K, *Val]] {
	return c.m.Range(lo, hi)
}
func (c mapColl[K]) RangeReverse(lo, hi tree.Bound[K]) iterator.Iterator[tree.KVPair[K, *Val]] {
	return c.m.RangeReverse(lo, hi)
}

type setColl[K any] struct{ s tree.Set[K] }

type liftIter[K any] struct{ in iterator.Iterator[K] }

func (l liftIter[K]) Next() (tree.KVPair[K, *Val], bool) {
	k, ok := l.in.Next()
	return tree.KVPair[K, *Val]{Key: k}, ok
}

func (c setColl[K]) IsMap() bool                     { return false }
func (c setColl[K]) Put(k K, v *Val)                 { c.s.Add(k) }
func (c setColl[K]) Delete(k K)                      { c.s.Remove(k) }
func (c setColl[K]) Get(k K) *Val                    { return nil }
func (c setColl[K]) Contains(k K) bool               { return c.s.Contains(k) }
func (c setColl[K]) Len() int                        { return c.s.Len() }
func (c setColl[K]) First() (K, *Val)                { return c.s.First(), nil }
func (c setColl[K]) Last() (K, *Val)                 { return c.s.Last(), nil }
func (c setColl[K]) Copy() Coll[K]                   { s2 := c.s; return setColl[K]{s2} }
func (c setColl[K]) Shape(n bool) tree.VerifShape[K] { return c.s.VerifShape(n) }
func (c setColl[K]) Iterate() iterator.Iterator[tree.KVPair[K, *Val]] {
	return liftIter[K]{c.s.Iterate()}
}
func (c setColl[K]) Range(lo, hi tree.Bound[K]) iterator.Iterator[tree.KVPair[K, *Val]] {
	return liftIter[K]{c.s.Range(lo, hi)}
}
func (c setColl[K]) RangeReverse(lo, hi tree.Bound[K]) iterator.Iterator[tree.KVPair[K, *Val]] {
	return liftIter[K]{c.s.RangeReverse(lo, hi)}
}

// Config selects one concrete instantiation.
type Config struct {
	Set    bool   `json:"set,omitempty"`
	Keys   string `json:"keys"`   // int | string | struct
	Order  string `json:"order"`  // see Orders
	Flavor string `json:"flavor"` // less | cmp | cmpmag | cmpext
}

// New builds the collection for cfg; calls counts every comparator invocation.
func New[K any](kk KeyKind[K], cfg Config, calls *int) Coll[K] {
	base := Orders[cfg.Order]
	if calls == nil {
		calls = new(int)
		return newColl(kk, cfg, base, func() {})
	}
	return newColl(kk, cfg, base, func() { *calls++ })
}

func newColl[K any](kk KeyKind[K], cfg Config, base func(a, b int) int, count func()) Coll[K] {
	switch cfg.Flavor {
	case "less":
		less := xsort.Less[K](func(a, b K) bool { count(); return base(kk.ord(a), kk.ord(b)) < 0 })
		if cfg.Set {
			return setColl[K]{tree.NewSet[K](less)}
		}
		return mapColl[K]{tree.NewMap[K, *Val](less)}
	case "cmp", "cmpmag", "cmpext":
		mag := cfg.Flavor == "cmpmag"
		cmp := func(a, b K) int {
			count()
			c := base(kk.ord(a), kk.ord(b))
			if cfg.Flavor == "cmpext" { // the two results whose negation / difference overflows
				switch {
				case c < 0:
					return math.MinInt
				case c > 0:
					return math.MaxInt
				}
				return 0
			}
			if mag {
				// only the sign may matter
				d := kk.ord(a) - kk.ord(b)
				if d < 0 {
					d = -d
				}
				return c * (d + 3)
			}
			return c
		}
		if cfg.Set {
			return setColl[K]{tree.NewSetCmp[K](cmp)}
		}
		return mapColl[K]{tree.NewMapCmp[K, *Val](cmp)}
	}
	panic("bad flavor " + cfg.Flavor)
}

// Entry is one equivalence class present in the model.
type Entry struct {
	Reps []int // logical keys put for this class since it was last absent; Reps[0] is the first
	Val  *Val
}

func (e *Entry) HasRep(k int) bool {
	for _, r := range e.Reps {
		if r == k {
			return true
		}
	}
	return false
}

// Model is the reference: a slice of entries sorted by Ord, binary-searched.
type Model struct {
	Ord func(a, b int) int
	Es  []Entry
}

func (m *Model) Len() int { return len(m.Es) }

// Find returns the position of k's class, or the insertion position.
func (m *Model) Find(k int) (int, bool) {
	i := sort.Search(len(m.Es), func(i int) bool { return m.Ord(m.Es[i].Reps[0], k) >= 0 })
	if i < len(m.Es) && m.Ord(m.Es[i].Reps[0], k) == 0 {
		return i, true
	}
	return i, false
}

// Put returns true if a new class was created.
func (m *Model) Put(k int, v *Val) bool {
	i, ok := m.Find(k)
	if ok {
		m.Es[i].Val = v
		if !m.Es[i].HasRep(k) {
			m.Es[i].Reps = append(m.Es[i].Reps, k)
		}
		return false
	}
	m.Es = append(m.Es, Entry{})
	copy(m.Es[i+1:], m.Es[i:])
	m.Es[i] = Entry{Reps: []int{k}, Val: v}
	return true
}

// Delete returns true if the class was present.
func (m *Model) Delete(k int) bool {
	i, ok := m.Find(k)
	if !ok {
		return false
	}
	m.Es = append(m.Es[:i], m.Es[i+1:]...)
	return true
}

// BoundSpec is a resolved range bound on logical keys. Kind: "inc", "exc", "unb".
type BoundSpec struct {
	Kind string
	Key  int
}

// InLower / InUpper decide membership by the obvious definition.
func (m *Model) InLower(k int, lo BoundSpec) bool {
	switch lo.Kind {
	case "inc":
		return m.Ord(k, lo.Key) >= 0
	case "exc":
		return m.Ord(k, lo.Key) > 0
	}
	return true
}
func (m *Model) InUpper(k int, hi BoundSpec) bool {
	switch hi.Kind {
	case "inc":
		return m.Ord(k, hi.Key) <= 0
	case "exc":
		return m.Ord(k, hi.Key) < 0
	}
	return true
}

// Range returns the indices (ascending) of the entries inside the bounds, by linear scan.
func (m *Model) Range(lo, hi BoundSpec) []int {
	var out []int
	for i := range m.Es {
		k := m.Es[i].Reps[0]
		if m.InLower(k, lo) && m.InUpper(k, hi) {
			out = append(out, i)
		}
	}
	return out
}

func MkBound[K any](kk KeyKind[K], b BoundSpec) tree.Bound[K] {
	switch b.Kind {
	case "inc":
		return tree.Included(kk.Mk(b.Key))
	case "exc":
		return tree.Excluded(kk.Mk(b.Key))
	}
	return tree.Unbounded[K]()
}

// LevelsBound is 1+floor(log8((n+1)/2)) in integer arithmetic (0 for the empty tree).
func LevelsBound(n int) int {
	if n <= 0 {
		return 0
	}
	h := 0
	p := 2 // 2*8^h
	for p*8 <= n+1 {
		p *= 8
		h++
	}
	return h + 1
}
