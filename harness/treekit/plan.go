package treekit

import (
	"fmt"
	"reflect"

	"github.com/bradenaw/juniper/container/tree"
	"github.com/bradenaw/juniper/iterator"
	"pgregory.net/rapid"

	"verif/harness/vk"
)

// KeySpec names a key relative to the model's current state, so that plans stay pure data.
//
//	abs:     logical key Arg
//	present: the first representative of the (Arg mod len)-th entry, plus Delta (Delta 0 = a hit;
//	         +-1/2 = a neighbour, a gap, or another member of the same class under a coarse order)
//	below:   a key ordered before every entry;  above: after every entry
type KeySpec struct {
	Mode  string `json:"m"`
	Arg   int    `json:"a,omitempty"`
	Delta int    `json:"d,omitempty"`
}

type BoundPlan struct {
	Kind string  `json:"k"` // inc | exc | unb
	Key  KeySpec `json:"key"`
	// SameAsLower makes the upper bound reuse the lower bound's resolved key.
	SameAsLower bool `json:"same,omitempty"`
}

type Op struct {
	Op      string    `json:"op"`
	Key     KeySpec   `json:"key,omitempty"`
	Lo      BoundPlan `json:"lo,omitempty"`
	Hi      BoundPlan `json:"hi,omitempty"`
	Reverse bool      `json:"rev,omitempty"`
	Copy    bool      `json:"copy,omitempty"` // apply through the second copy of the Map/Set value
	// Fill
	Start  int    `json:"start,omitempty"`
	Count  int    `json:"count,omitempty"`
	Stride int    `json:"stride,omitempty"`
	Order  string `json:"order,omitempty"` // asc | desc | saw | shuf
	Mult   int    `json:"mult,omitempty"`
	// Drain / ShapeDrain
	Pattern string `json:"pat,omitempty"`
	A       int    `json:"A,omitempty"`
	B       int    `json:"B,omitempty"`
}

type Plan struct {
	Cfg Config `json:"cfg"`
	Ops []Op   `json:"ops"`
}

// Options select what the executor checks beyond the differential oracle.
type Options struct {
	Shape    bool // C03: structural walk after every elementary op + comparator-call bounds
	MaxCount int  // cap for Fill counts
}

func genKeySpec(t *rapid.T, label string) KeySpec {
	switch rapid.IntRange(0, 9).Draw(t, label+"mode") {
	case 0, 1:
		return KeySpec{Mode: "abs", Arg: rapid.IntRange(1, 6000).Draw(t, label+"abs")}
	case 2:
		return KeySpec{Mode: "below"}
	case 3:
		return KeySpec{Mode: "above"}
	case 4, 5, 6:
		return KeySpec{Mode: "present", Arg: rapid.IntRange(0, 100000).Draw(t, label+"idx")}
	default:
		return KeySpec{Mode: "present", Arg: rapid.IntRange(0, 100000).Draw(t, label+"idx"),
			Delta: rapid.IntRange(-3, 3).Draw(t, label+"delta")}
	}
}

func genBound(t *rapid.T, label string, upper bool) BoundPlan {
	b := BoundPlan{Kind: rapid.SampledFrom([]string{"inc", "exc", "unb", "inc", "exc"}).Draw(t, label+"kind")}
	if b.Kind == "unb" {
		return b
	}
	if upper && rapid.IntRange(0, 5).Draw(t, label+"same") == 0 {
		b.SameAsLower = true
		return b
	}
	b.Key = genKeySpec(t, label)
	return b
}

var capacityBoundaries = []int{15, 16, 17, 127, 128, 129, 255, 256, 1023, 1024, 2047}

func genFill(t *rapid.T, maxCount int) Op {
	o := Op{Op: "Fill"}
	o.Order = rapid.SampledFrom([]string{"asc", "desc", "saw", "shuf"}).Draw(t, "order")
	o.Stride = rapid.SampledFrom([]int{1, 1, 2, 3, 5}).Draw(t, "stride")
	o.Start = rapid.IntRange(1, 3000).Draw(t, "start")
	switch rapid.IntRange(0, 3).Draw(t, "countclass") {
	case 0:
		var ok []int
		for _, c := range capacityBoundaries {
			if c <= maxCount {
				ok = append(ok, c)
			}
		}
		o.Count = rapid.SampledFrom(ok).Draw(t, "boundary")
	case 1:
		o.Count = rapid.IntRange(1, 40).Draw(t, "small")
	default:
		o.Count = rapid.IntRange(1, maxCount).Draw(t, "count")
	}
	o.Mult = rapid.SampledFrom([]int{7, 11, 13, 101, 997, 1009}).Draw(t, "mult")
	return o
}

var drainPatterns = []string{"every2", "firsthalf", "lasthalf", "allbut", "around", "left", "right", "all"}
var shapePatterns = []string{"steal-right", "steal-left", "merge", "internal", "minimal-subtree"}

func GenOp(t *rapid.T, opts Options) Op {
	switch rapid.IntRange(0, 19).Draw(t, "opclass") {
	case 0, 1, 2:
		if rapid.IntRange(0, 5).Draw(t, "repos") == 0 {
			return Op{Op: "Reposition", Key: genKeySpec(t, "k"), Pattern: rapid.SampledFrom([]string{"first", "last", "first", "last", "at"}).Draw(t, "reposend"), A: rapid.IntRange(0, 1000).Draw(t, "reposarg")}
		}
		return Op{Op: "Put", Key: genKeySpec(t, "k"), Copy: rapid.Bool().Draw(t, "copy")}
	case 3, 4, 5:
		return Op{Op: "Delete", Key: genKeySpec(t, "k"), Copy: rapid.Bool().Draw(t, "copy")}
	case 6:
		return Op{Op: "Get", Key: genKeySpec(t, "k"), Copy: rapid.Bool().Draw(t, "copy")}
	case 7:
		return Op{Op: "Contains", Key: genKeySpec(t, "k")}
	case 8:
		return Op{Op: rapid.SampledFrom([]string{"Len", "First", "Last", "Iterate"}).Draw(t, "obs"), Copy: rapid.Bool().Draw(t, "copy")}
	case 9, 10, 11, 12:
		return Op{Op: "Range", Lo: genBound(t, "lo", false), Hi: genBound(t, "hi", true),
			Reverse: rapid.Bool().Draw(t, "rev"), Copy: rapid.Bool().Draw(t, "copy")}
	case 13, 14, 15:
		return genFill(t, opts.MaxCount)
	case 16, 17:
		return Op{Op: "Drain", Pattern: rapid.SampledFrom(drainPatterns).Draw(t, "pat"),
			A: rapid.IntRange(0, 100000).Draw(t, "A"), B: rapid.IntRange(0, 40).Draw(t, "B")}
	default:
		return Op{Op: "ShapeDrain", Pattern: rapid.SampledFrom(shapePatterns).Draw(t, "spat"),
			A: rapid.IntRange(0, 100000).Draw(t, "A"), Count: rapid.IntRange(1, 40).Draw(t, "n")}
	}
}

func GenConfig(t *rapid.T) Config {
	return Config{
		Set:    rapid.IntRange(0, 3).Draw(t, "set") == 0,
		Keys:   rapid.SampledFrom([]string{"int", "int", "int0", "string", "struct", "ptr", "bytes"}).Draw(t, "keys"),
		Order:  rapid.SampledFrom(OrderNames).Draw(t, "order"),
		Flavor: rapid.SampledFrom(Flavors).Draw(t, "flavor"),
	}
}

func GenPlan(opts Options) func(t *rapid.T) Plan {
	return func(t *rapid.T) Plan {
		p := Plan{Cfg: GenConfig(t)}
		// most plans start with a fill so that deep trees are the rule
		if rapid.IntRange(0, 4).Draw(t, "prefill") > 0 {
			p.Ops = append(p.Ops, genFill(t, opts.MaxCount))
		}
		n := rapid.IntRange(1, 60).Draw(t, "nops")
		for i := 0; i < n; i++ {
			p.Ops = append(p.Ops, GenOp(t, opts))
		}
		return p
	}
}

// RunPlan dispatches on the key type.
func RunPlan(opts Options) func(p Plan) (vk.Outcome, error) {
	return func(p Plan) (vk.Outcome, error) {
		switch p.Cfg.Keys {
		case "int":
			return runPlan(IntKeys, p, opts)
		case "int0":
			return runPlan(IntZeroKeys, p, opts)
		case "string":
			return runPlan(StringKeys, p, opts)
		case "struct":
			return runPlan(StructKeys, p, opts)
		case "ptr":
			return runPlan(PtrKeys, p, opts)
		case "bytes":
			return runPlan(BytesKeys, p, opts)
		}
		return vk.Outcome{}, fmt.Errorf("bad key type %q", p.Cfg.Keys)
	}
}

type exec[K any] struct {
	kk     KeyKind[K]
	cfg    Config
	opts   Options
	cs     [2]Coll[K]
	m      *Model
	calls  int
	nextID int
	out    vk.Outcome
	step   int
	op     Op

	maxHeight        int
	deletedPresent   bool
	boundedRange     bool
	elem             int // elementary mutation counter
	prevShape        *tree.VerifShape[K]
	prevElem         int
	sawSteal, sawMrg bool
}

func (e *exec[K]) fresh() *Val { e.nextID++; return &Val{ID: e.nextID} }

func (e *exec[K]) viol(kind, format string, args ...any) error {
	return vk.Violf(kind, "step %d %s: %s", e.step, vk.Short(e.op), fmt.Sprintf(format, args...))
}

// Resolve turns a KeySpec into a logical key (>= 1).
func (m *Model) Resolve(s KeySpec) int {
	n := len(m.Es)
	switch s.Mode {
	case "frac": // the entry at Arg/1000 of the way through the model, plus Delta
		if n == 0 {
			return 1 + (s.Arg % 50)
		}
		i := s.Arg * n / 1001
		if i >= n {
			i = n - 1
		}
		if k := m.Es[i].Reps[0] + s.Delta; k >= 1 {
			return k
		}
		return 1
	case "present":
		if n == 0 {
			return 1 + (s.Arg % 50)
		}
		k := m.Es[s.Arg%n].Reps[0] + s.Delta
		if k < 1 {
			k = 1
		}
		return k
	case "below", "above":
		// find a logical key outside all entries in the order: scan candidate extremes.
		cands := []int{1, 2, 3, 9001, 9002, 9003, 9999}
		best := -1
		for _, c := range cands {
			i, found := m.Find(c)
			if found {
				continue
			}
			if s.Mode == "below" && i == 0 || s.Mode == "above" && i == n {
				best = c
				break
			}
		}
		if best > 0 {
			return best
		}
		return 9000
	}
	if s.Arg < 1 {
		return 1
	}
	return s.Arg
}

func (e *exec[K]) resolveBounds(lo, hi BoundPlan) (BoundSpec, BoundSpec) {
	l := BoundSpec{Kind: lo.Kind}
	if lo.Kind != "unb" {
		l.Key = e.m.Resolve(lo.Key)
	}
	h := BoundSpec{Kind: hi.Kind}
	if hi.Kind != "unb" {
		if hi.SameAsLower && lo.Kind != "unb" {
			h.Key = l.Key
		} else {
			h.Key = e.m.Resolve(hi.Key)
		}
	}
	return l, h
}

// checkPair verifies that a (key, value) handed out by the tree denotes model entry i.
func (e *exec[K]) checkPair(what string, k K, v *Val, i int) error {
	ent := &e.m.Es[i]
	lk := e.kk.Un(k)
	if !ent.HasRep(lk) {
		return e.viol("wrong-key", "%s: got key %v (logical %d), want a representative of entry %d %v", what, k, lk, i, ent.Reps)
	}
	if e.cs[0].IsMap() && v != ent.Val {
		return e.viol("wrong-value", "%s: key %v carries value %v, want %v", what, k, valID(v), valID(ent.Val))
	}
	return nil
}

func valID(v *Val) any {
	if v == nil {
		return nil
	}
	return v.ID
}

func (e *exec[K]) checkIter(what string, it iterator.Iterator[tree.KVPair[K, *Val]], want []int) error {
	for j := 0; ; j++ {
		p, ok := it.Next()
		if j == len(want) {
			if ok {
				return e.viol("range-extra", "%s: yields an extra item %v after %d expected", what, p.Key, len(want))
			}
			if _, again := it.Next(); again {
				return e.viol("end-not-sticky", "%s: yields after reporting the end", what)
			}
			return nil
		}
		if !ok {
			return e.viol("range-short", "%s: ended after %d of %d items", what, j, len(want))
		}
		if err := e.checkPair(fmt.Sprintf("%s item %d", what, j), p.Key, p.Value, want[j]); err != nil {
			return err
		}
	}
}

func (e *exec[K]) observeFull() error {
	for ci, c := range e.cs {
		if c.Len() != e.m.Len() {
			return e.viol("len", "copy %d: Len()=%d model %d", ci, c.Len(), e.m.Len())
		}
	}
	c := e.cs[e.step%2]
	if err := e.checkFirstLast(c); err != nil {
		return err
	}
	all := make([]int, e.m.Len())
	for i := range all {
		all[i] = i
	}
	if err := e.checkIter("Iterate", c.Iterate(), all); err != nil {
		return err
	}
	// lookups: every entry if small, else a stride sample; plus absent neighbours.
	stride := 1
	if e.m.Len() > 400 {
		stride = e.m.Len() / 400
	}
	for i := 0; i < e.m.Len(); i += stride {
		for _, d := range []int{0, 1} {
			if err := e.checkLookup(c, e.m.Es[i].Reps[0]+d); err != nil {
				return err
			}
		}
	}
	return nil
}

func (e *exec[K]) checkFirstLast(c Coll[K]) error {
	fk, fv := c.First()
	lk, lv := c.Last()
	if e.m.Len() == 0 {
		// (IsZero, not ==: K may be a type == cannot compare, e.g. []byte)
		if !reflect.ValueOf(&fk).Elem().IsZero() || fv != nil || !reflect.ValueOf(&lk).Elem().IsZero() || lv != nil {
			return e.viol("first-last-empty", "First/Last on empty collection not zero: %v %v", fk, lk)
		}
		return nil
	}
	if err := e.checkPair("First", fk, fv, 0); err != nil {
		return err
	}
	return e.checkPair("Last", lk, lv, e.m.Len()-1)
}

func (e *exec[K]) checkLookup(c Coll[K], lk int) error {
	i, found := e.m.Find(lk)
	k := e.kk.Mk(lk)
	before := e.calls
	got := c.Contains(k)
	used := e.calls - before
	if got != found {
		return e.viol("contains", "Contains(%d)=%v want %v", lk, got, found)
	}
	if err := e.checkCalls("Contains", lk, used); err != nil {
		return err
	}
	if c.IsMap() {
		before = e.calls
		v := c.Get(k)
		used = e.calls - before
		if found && v != e.m.Es[i].Val {
			return e.viol("get", "Get(%d)=%v want %v", lk, valID(v), valID(e.m.Es[i].Val))
		}
		if !found && v != nil {
			return e.viol("get", "Get(%d) of an absent key = %v, want zero value", lk, valID(v))
		}
		if err := e.checkCalls("Get", lk, used); err != nil {
			return err
		}
	}
	return nil
}

// ShippedMaxKVs is the most keys a node holds with the shipped fan-out of 16: the property promises at most
// that many comparisons per level.
const ShippedMaxKVs = 15

func (e *exec[K]) checkCalls(what string, lk, used int) error {
	if !e.opts.Shape {
		return nil
	}
	per := ShippedMaxKVs // the property's number, not whatever the code under test says its fan-out is
	if e.cfg.Flavor == "less" {
		per *= 2
	}
	levels := LevelsBound(e.m.Len())
	if e.prevShape != nil && e.prevShape.NumKeys == e.m.Len() && e.prevShape.Height < levels {
		levels = e.prevShape.Height // a lookup visits one node per level it actually descends
	}
	bound := per * levels
	if used > bound {
		return e.viol("too-many-comparisons", "%s(%d) made %d comparator calls on %d keys in %d levels, bound %d per level", what, lk, used, e.m.Len(), levels, per)
	}
	return nil
}

// afterMutation runs after every elementary Put/Delete.
func (e *exec[K]) afterMutation(force bool) error {
	e.elem++
	if !e.opts.Shape {
		if force {
			s := e.cs[0].Shape(false)
			e.noteShape(&s)
		}
		return nil
	}
	if !force && e.m.Len() > 600 && e.elem%16 != 0 {
		return nil
	}
	s := e.cs[0].Shape(false)
	e.noteShape(&s)
	if len(s.Problems) > 0 {
		return e.viol("structure", "%d keys: %v", e.m.Len(), s.Problems)
	}
	if s.NumKeys != e.m.Len() || s.Size != e.m.Len() {
		return e.viol("structure", "walk finds %d keys, size field %d, model %d", s.NumKeys, s.Size, e.m.Len())
	}
	if lb := LevelsBound(e.m.Len()); s.Height > lb {
		return e.viol("too-deep", "%d keys in %d levels, bound %d", e.m.Len(), s.Height, lb)
	}
	return nil
}

func (e *exec[K]) noteShape(s *tree.VerifShape[K]) {
	if s.Height > e.maxHeight {
		e.maxHeight = s.Height
	}
	if p := e.prevShape; p != nil && e.opts.Shape {
		switch {
		case s.Height > p.Height:
			e.out.Label("root-split")
		case s.Height < p.Height && s.NumKeys > 0:
			e.out.Label("root-collapse")
		}
		if s.NumNodes < p.NumNodes {
			e.sawMrg = true
			e.out.Label("merge")
			if p.NumNodes-s.NumNodes >= 2 && e.elem-e.prevElem <= 1 {
				e.out.Label("merge-cascade>=2")
			}
		}
		if s.NumNodes > p.NumNodes {
			e.out.Label("split")
		}
	}
	cp := *s
	e.prevShape = &cp
	e.prevElem = e.elem
}

func (e *exec[K]) put(c Coll[K], lk int) error {
	v := e.fresh()
	if !c.IsMap() {
		v = nil
	}
	c.Put(e.kk.Mk(lk), v)
	e.m.Put(lk, v)
	return e.afterMutation(false)
}

func (e *exec[K]) del(c Coll[K], lk int) error {
	nodesBefore := -1
	if e.opts.Shape && e.prevShape != nil {
		nodesBefore = e.prevShape.NumNodes
	}
	c.Delete(e.kk.Mk(lk))
	if e.m.Delete(lk) {
		e.deletedPresent = true
	}
	err := e.afterMutation(false)
	_ = nodesBefore
	return err
}

// FillKeys lists the logical keys of a Fill op in insertion order.
func FillKeys(o Op) []int {
	n := o.Count
	ks := make([]int, n)
	stride := o.Stride
	if stride < 1 {
		stride = 1
	}
	for i := range ks {
		ks[i] = o.Start + i*stride
	}
	out := make([]int, 0, n)
	switch o.Order {
	case "desc":
		for i := n - 1; i >= 0; i-- {
			out = append(out, ks[i])
		}
	case "saw":
		for i, j := 0, n-1; i <= j; i, j = i+1, j-1 {
			out = append(out, ks[i])
			if i != j {
				out = append(out, ks[j])
			}
		}
	case "shuf":
		mult := o.Mult
		if mult < 1 || gcd(mult, n) != 1 {
			mult = 1
		}
		for i := 0; i < n; i++ {
			out = append(out, ks[(i*mult+o.A)%n])
		}
	default:
		out = ks
	}
	return out
}

func gcd(a, b int) int {
	for b != 0 {
		a, b = b, a%b
	}
	return a
}

// drainTargets lists model indices to delete for a Drain pattern.
func drainTargets(o Op, n int) []int {
	var idx []int
	if n == 0 {
		return nil
	}
	switch o.Pattern {
	case "every2":
		for i := o.A % 2; i < n; i += 2 {
			idx = append(idx, i)
		}
	case "firsthalf":
		for i := 0; i < n/2; i++ {
			idx = append(idx, i)
		}
	case "lasthalf":
		for i := n - 1; i >= n/2; i-- {
			idx = append(idx, i)
		}
	case "allbut":
		keep := o.B % 4
		for i := 0; i < n-keep; i++ {
			idx = append(idx, i)
		}
	case "around":
		c := o.A % n
		for d := 0; d <= o.B+8; d++ {
			if c+d < n {
				idx = append(idx, c+d)
			}
			if d > 0 && c-d >= 0 {
				idx = append(idx, c-d)
			}
		}
	case "left":
		for i := 0; i < o.B+8 && i < n; i++ {
			idx = append(idx, i)
		}
	case "right":
		for i := n - 1; i >= 0 && i >= n-o.B-8; i-- {
			idx = append(idx, i)
		}
	case "all":
		for i := 0; i < n; i++ {
			idx = append(idx, i)
		}
	}
	return idx
}

// shapeTarget picks, from the read-only structural view, a key whose deletion exercises the
// requested rebalancing path. It returns the key and whether a matching node was found.
func shapeTarget[K any](s *tree.VerifShape[K], pattern string, pick int) (K, bool) {
	var zero K
	type sib struct{ left, right int } // occupancies, -1 if none
	// children lists per parent
	kids := map[int][]int{}
	for i, n := range s.Nodes {
		if n.Parent >= 0 {
			kids[n.Parent] = append(kids[n.Parent], i)
		}
	}
	sibs := func(i int) sib {
		n := s.Nodes[i]
		r := sib{-1, -1}
		if n.Parent < 0 {
			return r
		}
		for _, j := range kids[n.Parent] {
			if s.Nodes[j].Pos == n.Pos-1 {
				r.left = len(s.Nodes[j].Keys)
			}
			if s.Nodes[j].Pos == n.Pos+1 {
				r.right = len(s.Nodes[j].Keys)
			}
		}
		return r
	}
	min := tree.VerifMinKVs
	var cands []int
	for i, n := range s.Nodes {
		if len(n.Keys) == 0 {
			continue
		}
		sb := sibs(i)
		switch pattern {
		case "steal-right":
			if n.Leaf && n.Parent >= 0 && len(n.Keys) == min && sb.right > min {
				cands = append(cands, i)
			}
		case "steal-left":
			if n.Leaf && n.Parent >= 0 && len(n.Keys) == min && sb.left > min && (sb.right == -1 || sb.right == min) {
				cands = append(cands, i)
			}
		case "merge":
			if n.Leaf && n.Parent >= 0 && len(n.Keys) == min && (sb.left == -1 || sb.left == min) && (sb.right == -1 || sb.right == min) {
				cands = append(cands, i)
			}
		case "internal":
			if !n.Leaf {
				cands = append(cands, i)
			}
		case "minimal-subtree":
			// a leaf under a parent that is itself minimal: a merge there cascades upwards
			if n.Leaf && n.Parent >= 0 && len(s.Nodes[n.Parent].Keys) <= min {
				cands = append(cands, i)
			}
		}
	}
	if len(cands) == 0 {
		// work towards the pattern: thin out the fullest leaf
		best, bestN := -1, 0
		for i, n := range s.Nodes {
			if n.Leaf && len(n.Keys) > bestN {
				best, bestN = i, len(n.Keys)
			}
		}
		if best < 0 {
			return zero, false
		}
		ks := s.Nodes[best].Keys
		return ks[pick%len(ks)], false
	}
	n := s.Nodes[cands[pick%len(cands)]]
	return n.Keys[(pick/7)%len(n.Keys)], true
}

func (e *exec[K]) runOp(o Op) error {
	c := e.cs[0]
	if o.Copy {
		c = e.cs[1]
		e.out.Label("via-copy")
	}
	switch o.Op {
	case "Put":
		return e.put(c, e.m.Resolve(o.Key))
	case "Delete":
		return e.del(c, e.m.Resolve(o.Key))
	case "Reposition":
		// The very key object the collection holds (the smallest, the largest, or some other one) is taken out,
		// rewritten so that it sorts elsewhere, and put in again - a job whose due time changes. A key must keep
		// its place "while it is in the map"; after Delete it is the caller's again.
		if e.kk.Set == nil || e.m.Len() == 0 {
			return nil
		}
		var k K
		switch o.Pattern {
		case "first":
			k, _ = c.First()
		case "last":
			k, _ = c.Last()
		default:
			it := c.Iterate()
			for i := 0; i <= o.A%e.m.Len(); i++ {
				kv, _ := it.Next()
				k = kv.Key
			}
		}
		old, to := e.kk.Un(k), e.m.Resolve(o.Key)
		c.Delete(k)
		if !e.m.Delete(old) {
			return e.viol("first-last", "the key %d that First/Last/Iterate handed out is not in the model", old)
		}
		e.kk.Set(k, to)
		v := e.fresh()
		if !c.IsMap() {
			v = nil
		}
		c.Put(k, v)
		e.m.Put(to, v)
		e.out.Label("key-object-repositioned")
		return e.afterMutation(false)
	case "Get", "Contains":
		return e.checkLookup(c, e.m.Resolve(o.Key))
	case "Len":
		if c.Len() != e.m.Len() {
			return e.viol("len", "Len()=%d model %d", c.Len(), e.m.Len())
		}
	case "First", "Last":
		return e.checkFirstLast(c)
	case "Iterate":
		all := make([]int, e.m.Len())
		for i := range all {
			all[i] = i
		}
		return e.checkIter("Iterate", c.Iterate(), all)
	case "Range":
		lo, hi := e.resolveBounds(o.Lo, o.Hi)
		want := e.m.Range(lo, hi)
		if lo.Kind != "unb" || hi.Kind != "unb" {
			e.boundedRange = true
		}
		e.out.Label("range:" + lo.Kind + "/" + hi.Kind)
		if len(want) == 0 {
			e.out.Label("range-empty")
		}
		what := fmt.Sprintf("Range(%v,%v)", lo, hi)
		if o.Reverse {
			for i, j := 0, len(want)-1; i < j; i, j = i+1, j-1 {
				want[i], want[j] = want[j], want[i]
			}
			return e.checkIter("Reverse"+what, c.RangeReverse(MkBound(e.kk, lo), MkBound(e.kk, hi)), want)
		}
		return e.checkIter(what, c.Range(MkBound(e.kk, lo), MkBound(e.kk, hi)), want)
	case "Fill":
		if o.Count > e.opts.MaxCount {
			o.Count = e.opts.MaxCount
		}
		for _, k := range FillKeys(o) {
			if err := e.put(c, k); err != nil {
				return err
			}
		}
		switch e.m.Len() {
		case 15, 16, 127, 128, 255, 256, 1023, 1024, 2047:
			e.out.Label("capacity-boundary")
		}
	case "Drain":
		idx := drainTargets(o, e.m.Len())
		keys := make([]int, len(idx))
		for i, j := range idx {
			keys[i] = e.m.Es[j].Reps[0]
		}
		for _, k := range keys {
			if err := e.del(c, k); err != nil {
				return err
			}
		}
	case "ShapeDrain":
		for i := 0; i < o.Count && e.m.Len() > 0; i++ {
			s := c.Shape(true)
			k, hit := shapeTarget(&s, o.Pattern, o.A+i*31)
			if hit {
				e.out.Label("aimed:" + o.Pattern)
			}
			if s.NumKeys == 0 {
				break
			}
			if err := e.del(c, e.kk.Un(k)); err != nil {
				return err
			}
		}
	default:
		return fmt.Errorf("unknown op %q", o.Op)
	}
	return nil
}

func runPlan[K any](kk KeyKind[K], p Plan, opts Options) (vk.Outcome, error) {
	if Orders[p.Cfg.Order] == nil {
		return vk.Outcome{}, fmt.Errorf("bad order %q", p.Cfg.Order)
	}
	e := &exec[K]{kk: kk, cfg: p.Cfg, opts: opts, m: &Model{Ord: Orders[p.Cfg.Order]}}
	c := New(kk, p.Cfg, &e.calls)
	e.cs = [2]Coll[K]{c, c.Copy()}
	e.out.Label("order:" + p.Cfg.Order)
	e.out.Label("flavor:" + p.Cfg.Flavor)
	e.out.Label("keys:" + p.Cfg.Keys)
	if p.Cfg.Set {
		e.out.Label("set")
	} else {
		e.out.Label("map")
	}
	e.op = Op{Op: "init"}
	if err := e.observeFull(); err != nil {
		return e.out, err
	}
	for i, o := range p.Ops {
		e.step, e.op = i, o
		if err := e.runOp(o); err != nil {
			return e.out, err
		}
		if err := e.afterMutation(true); err != nil {
			return e.out, err
		}
		if i%8 == 7 || i == len(p.Ops)-1 {
			if err := e.observeFull(); err != nil {
				return e.out, err
			}
		}
	}
	for h := 2; h <= e.maxHeight && h <= 5; h++ {
		e.out.Label(fmt.Sprintf("height>=%d", h))
	}
	if opts.Shape {
		e.out.NonTrivial = e.sawMrg && e.maxHeight >= 3
	} else {
		e.out.NonTrivial = e.maxHeight >= 2 && e.deletedPresent && e.boundedRange
	}
	return e.out, nil
}
