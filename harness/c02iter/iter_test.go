package c02iter

import (
	"fmt"
	"testing"

	"github.com/bradenaw/juniper/container/tree"
	"github.com/bradenaw/juniper/iterator"
	"pgregory.net/rapid"

	tk "verif/harness/treekit"
	"verif/harness/vk"
)

var suite = vk.NewSuite("C02")

func TestMain(m *testing.M) { suite.Main(m) }

// Step is one event of a plan. Mutation keys are named relative to iterator It's position.
type Step struct {
	Op  string `json:"op"` // Open Next Put Delete DeleteRange InsertRun DrainAllBut DeleteAll
	It  int    `json:"it"`
	Rel string `json:"rel,omitempty"` // last parked gap beyond far before outside abs
	Arg int    `json:"arg,omitempty"`
	N   int    `json:"n,omitempty"`
	// Open
	Lo      tk.BoundPlan `json:"lo,omitempty"`
	Hi      tk.BoundPlan `json:"hi,omitempty"`
	Reverse bool         `json:"rev,omitempty"`
	Plain   bool         `json:"plain,omitempty"` // use Iterate() instead of Range
}

type Plan struct {
	Cfg     tk.Config `json:"cfg"`
	Prefill []tk.Op   `json:"prefill"`
	Steps   []Step    `json:"steps"`
}

var rels = []string{"last", "parked", "parked", "gap", "gap", "beyond", "beyond", "far", "before", "outside", "abs"}

func genStep(t *rapid.T) Step {
	s := Step{It: rapid.IntRange(0, 3).Draw(t, "it")}
	switch rapid.IntRange(0, 19).Draw(t, "class") {
	case 0, 1:
		s.Op = "Open"
		s.Reverse = rapid.Bool().Draw(t, "rev")
		if rapid.IntRange(0, 3).Draw(t, "plain") == 0 && !s.Reverse {
			s.Plain = true
			s.Lo.Kind, s.Hi.Kind = "unb", "unb"
			return s
		}
		s.Lo = genBound(t, "lo", false)
		s.Hi = genBound(t, "hi", true)
	case 2, 3, 4, 5, 6, 7:
		s.Op = "Next"
		s.N = rapid.IntRange(1, 4).Draw(t, "times")
	case 8, 9, 10:
		s.Op = "Put"
		s.Rel = rapid.SampledFrom(rels).Draw(t, "rel")
		s.Arg = rapid.IntRange(1, 6000).Draw(t, "arg")
	case 11, 12, 13:
		s.Op = "Delete"
		s.Rel = rapid.SampledFrom(rels).Draw(t, "rel")
		s.Arg = rapid.IntRange(1, 6000).Draw(t, "arg")
		if rapid.IntRange(0, 3).Draw(t, "swap") == 0 {
			s.Op, s.Rel = "SwapParked", rapid.SampledFrom([]string{"parked", "parked", "last"}).Draw(t, "swaprel")
		} else if rapid.IntRange(0, 1).Draw(t, "moveyielded") == 0 {
			s.Op, s.Rel = "MoveYielded", rapid.SampledFrom([]string{"beyond", "far", "gap", "before"}).Draw(t, "moverel")
		}
	case 14, 15, 16:
		s.Op = "DeleteRange"
		s.Rel = rapid.SampledFrom([]string{"parked", "parked", "last", "beyond"}).Draw(t, "rel")
		s.N = rapid.IntRange(8, 40).Draw(t, "n")
	case 17, 18:
		s.Op = "InsertRun"
		s.Rel = rapid.SampledFrom([]string{"parked", "parked", "last", "gap"}).Draw(t, "rel")
		s.N = rapid.IntRange(16, 40).Draw(t, "n")
		if rapid.IntRange(0, 2).Draw(t, "other") == 0 {
			s.Op = "Other"
			s.Arg = rapid.IntRange(0, 1).Draw(t, "otherarg")
		}
	default:
		if rapid.IntRange(0, 2).Draw(t, "churn") == 0 {
			s.Op = "Churn"
			s.Arg = 2 * rapid.IntRange(0, 31).Draw(t, "churnarg") // even: 256 changes
			if rapid.IntRange(0, 9).Draw(t, "churnbig") == 0 {
				s.Arg++ // odd: 65536 changes (expensive, so rare)
			}
		} else if rapid.Bool().Draw(t, "all") {
			s.Op = "DeleteAll"
		} else {
			s.Op = "DrainAllBut"
			s.N = rapid.IntRange(0, 3).Draw(t, "keep")
		}
	}
	return s
}

func genBound(t *rapid.T, label string, upper bool) tk.BoundPlan {
	b := tk.BoundPlan{Kind: rapid.SampledFrom([]string{"inc", "exc", "unb", "unb"}).Draw(t, label+"kind")}
	if b.Kind == "unb" {
		return b
	}
	if upper && rapid.IntRange(0, 7).Draw(t, label+"same") == 0 {
		b.SameAsLower = true
		return b
	}
	if rapid.IntRange(0, 5).Draw(t, label+"anywhere") == 0 {
		b.Key = tk.KeySpec{Mode: "present", Arg: rapid.IntRange(0, 100000).Draw(t, label+"idx"), Delta: rapid.IntRange(-1, 1).Draw(t, label+"d")}
		return b
	}
	// mostly wide ranges: lower bound in the first 40%, upper bound in the last half
	lo, hi := 0, 400
	if upper {
		lo, hi = 500, 1000
	}
	b.Key = tk.KeySpec{Mode: "frac", Arg: rapid.IntRange(lo, hi).Draw(t, label+"frac"), Delta: rapid.IntRange(-1, 1).Draw(t, label+"d")}
	return b
}

func genPlan(t *rapid.T) Plan {
	p := Plan{Cfg: tk.GenConfig(t)}
	maxCount := vk.Size(1500, 3000)
	nfill := rapid.SampledFrom([]int{0, 1, 1, 1, 1, 2, 2}).Draw(t, "nfill")
	for i := 0; i < nfill; i++ {
		f := tk.Op{Op: "Fill",
			Order:  rapid.SampledFrom([]string{"asc", "desc", "saw", "shuf"}).Draw(t, "order"),
			Stride: rapid.SampledFrom([]int{1, 2, 2, 3, 5}).Draw(t, "stride"),
			Start:  rapid.IntRange(1, 2000).Draw(t, "start"), Mult: 13}
		switch rapid.IntRange(0, 3).Draw(t, "cc") {
		case 0:
			f.Count = rapid.SampledFrom([]int{1, 7, 15, 16, 31, 127, 128, 255, 256, 1023, 1024}).Draw(t, "bcount")
		case 1:
			f.Count = rapid.IntRange(1, 60).Draw(t, "scount")
		default:
			f.Count = rapid.IntRange(1, maxCount).Draw(t, "count")
		}
		if f.Count > maxCount {
			f.Count = maxCount
		}
		p.Prefill = append(p.Prefill, f)
	}
	// open an iterator early so that most steps happen while one is live
	first := genStep(t)
	for first.Op != "Open" {
		first = Step{Op: "Open", It: 0, Reverse: rapid.Bool().Draw(t, "rev0"), Lo: genBound(t, "lo0", false), Hi: genBound(t, "hi0", true)}
	}
	p.Steps = append(p.Steps, first)
	if rapid.IntRange(0, 9).Draw(t, "warm") > 0 {
		p.Steps = append(p.Steps, Step{Op: "Next", It: first.It, N: rapid.IntRange(1, 20).Draw(t, "warmn")})
	}
	p.Steps = append(p.Steps, rapid.SliceOfN(rapid.Custom(genStep), 1, 80).Draw(t, "steps")...)
	return p
}

type itState[K any] struct {
	it        iterator.Iterator[tree.KVPair[K, *tk.Val]]
	lo, hi    tk.BoundSpec
	rev       bool
	yielded   int
	last      int
	hasLast   bool
	parked    int
	hasParked bool
	done      bool
	stable    map[int]struct{}
	pending   map[int]struct{}
	created   int // obligations created by rule 7
	lastK     K   // the key object the iterator handed out last
}

type exec[K any] struct {
	kk    tk.KeyKind[K]
	cfg   tk.Config
	c     tk.Coll[K]
	m     *tk.Model
	canon func(int) int
	calls int
	id    int
	its   [4]*itState[K]
	out   vk.Outcome
	step  int
	cur   Step

	nontrivial bool
	maxHeight  int

	// other: a second collection of the same type (built lazily by the step "Other"): it starts out with the
	// same keys as the collection under test and is then mutated on its own. Two collections have nothing to
	// do with each other - whatever one of them recycles, the other's iterators do not see.
	other      tk.Coll[K]
	otherCalls int
}

func (e *exec[K]) viol(kind, format string, args ...any) error {
	return vk.Violf(kind, "step %d %s: %s", e.step, vk.Short(e.cur), fmt.Sprintf(format, args...))
}

func (e *exec[K]) inBounds(s *itState[K], k int) bool {
	return e.m.InLower(k, s.lo) && e.m.InUpper(k, s.hi)
}

// beyond reports whether a lies strictly beyond b in the iterator's direction.
func (e *exec[K]) beyond(s *itState[K], a, b int) bool {
	if s.rev {
		return e.m.Ord(a, b) < 0
	}
	return e.m.Ord(a, b) > 0
}

// succIdx is the index of the first model entry strictly beyond k in s's direction, or -1.
func (e *exec[K]) succIdx(s *itState[K], k int) int {
	i, found := e.m.Find(k)
	if s.rev {
		i--
	} else if found {
		i++
	}
	if i < 0 || i >= e.m.Len() {
		return -1
	}
	return i
}

func (e *exec[K]) firstIdx(s *itState[K]) int {
	if e.m.Len() == 0 {
		return -1
	}
	if s.rev {
		return e.m.Len() - 1
	}
	return 0
}

func (e *exec[K]) stepIdx(s *itState[K], i int) int {
	if s.rev {
		i--
	} else {
		i++
	}
	if i < 0 || i >= e.m.Len() {
		return -1
	}
	return i
}

func (e *exec[K]) open(st Step) {
	lo, hi := e.resolveBounds(st.Lo, st.Hi)
	s := &itState[K]{lo: lo, hi: hi, rev: st.Reverse, stable: map[int]struct{}{}, pending: map[int]struct{}{}}
	switch {
	case st.Plain:
		s.it = e.c.Iterate()
	case st.Reverse:
		s.it = e.c.RangeReverse(tk.MkBound(e.kk, lo), tk.MkBound(e.kk, hi))
	default:
		s.it = e.c.Range(tk.MkBound(e.kk, lo), tk.MkBound(e.kk, hi))
	}
	for _, i := range e.m.Range(lo, hi) {
		s.stable[e.canon(e.m.Es[i].Reps[0])] = struct{}{}
	}
	// where the cursor should be parked: the first in-bounds entry in direction
	for i := e.firstIdx(s); i >= 0; i = e.stepIdx(s, i) {
		if e.inBounds(s, e.m.Es[i].Reps[0]) {
			s.parked, s.hasParked = e.m.Es[i].Reps[0], true
			break
		}
	}
	e.its[st.It] = s
	e.out.Label("open:" + lo.Kind + "/" + hi.Kind)
	if st.Reverse {
		e.out.Label("reverse-iterator")
	}
}

func (e *exec[K]) resolveBounds(lo, hi tk.BoundPlan) (tk.BoundSpec, tk.BoundSpec) {
	l := tk.BoundSpec{Kind: lo.Kind}
	if lo.Kind != "unb" {
		l.Key = e.m.Resolve(lo.Key)
	}
	h := tk.BoundSpec{Kind: hi.Kind}
	if hi.Kind != "unb" {
		if hi.SameAsLower && lo.Kind != "unb" {
			h.Key = l.Key
		} else {
			h.Key = e.m.Resolve(hi.Key)
		}
	}
	return l, h
}

func (e *exec[K]) next(s *itState[K]) error {
	before := e.calls
	p, ok := s.it.Next()
	used := e.calls - before
	if limit := 64 * 15 * (e.maxHeight + 3); used > limit {
		return e.viol("spin", "one Next made %d comparator calls (budget %d)", used, limit)
	}
	if s.done {
		e.out.Label("next-after-end")
		if ok {
			return e.viol("revived", "iterator yielded %v after it had reported exhaustion", p.Key)
		}
		return nil
	}
	if !ok {
		// rule 6 at exhaustion: no stable key beyond the previous yield (or at all).
		start := e.firstIdx(s)
		if s.hasLast {
			start = e.succIdx(s, s.last)
		}
		for i := start; i >= 0; i = e.stepIdx(s, i) {
			k := e.m.Es[i].Reps[0]
			if _, st := s.stable[e.canon(k)]; st && e.inBounds(s, k) {
				return e.viol("skipped-stable", "iterator reported exhaustion but key %d (present since its creation, inside its bounds) was never yielded; last yield %v", k, lastOf(s))
			}
		}
		s.done = true
		e.out.Label("exhausted")
		return nil
	}
	lk := e.kk.Un(p.Key)
	if !e.inBounds(s, lk) {
		return e.viol("out-of-bounds", "yielded %d outside bounds %v..%v", lk, s.lo, s.hi)
	}
	if s.hasLast && !e.beyond(s, lk, s.last) {
		return e.viol("not-monotone", "yielded %d after %d (reverse=%v)", lk, s.last, s.rev)
	}
	i, found := e.m.Find(lk)
	if !found {
		return e.viol("yielded-absent", "yielded %d which is not in the collection now", lk)
	}
	// Under a coarse order any member of the class denotes the entry: after Delete(1); Put(2) with
	// 1 ~ 2 a parked cursor legitimately still says "1" (an equivalent key that is present now).
	if e.c.IsMap() && p.Value != e.m.Es[i].Val {
		return e.viol("stale-value", "yielded %d with a value that is not its current one", lk)
	}
	// rule 6: nothing stable strictly between the previous yield and this one.
	start := e.firstIdx(s)
	if s.hasLast {
		start = e.succIdx(s, s.last)
	}
	for j := start; j >= 0 && j != i; j = e.stepIdx(s, j) {
		k := e.m.Es[j].Reps[0]
		if _, st := s.stable[e.canon(k)]; st && e.inBounds(s, k) {
			return e.viol("skipped-stable", "yielded %d after %v but skipped %d, which must be yielded (present since creation / inserted beyond an earlier yield, never deleted)", lk, lastOf(s), k)
		}
	}
	// rule 7: inserts that lie beyond this yield become obligations.
	for ck := range s.pending {
		// find the entry of this class
		for _, rep := range e.repsOfCanon(ck) {
			if e.beyond(s, rep, lk) && e.inBounds(s, rep) {
				s.stable[ck] = struct{}{}
				s.created++
				e.out.Label("obligation-created")
			}
			break
		}
	}
	if _, was := s.stable[e.canon(lk)]; was && s.created > 0 {
		e.out.Label("stable-yielded")
	}
	s.pending = map[int]struct{}{}
	s.last, s.hasLast = lk, true
	s.lastK = p.Key
	s.yielded++
	if j := e.succIdx(s, lk); j >= 0 {
		s.parked, s.hasParked = e.m.Es[j].Reps[0], true
	} else {
		s.hasParked = false
	}
	return nil
}

func (e *exec[K]) repsOfCanon(ck int) []int {
	// classes are small intervals of logical keys; probe the model with each candidate member.
	var cands []int
	switch e.cfg.Order {
	case "coarse4":
		cands = []int{ck * 4, ck*4 + 1, ck*4 + 2, ck*4 + 3}
	case "revcoarse":
		cands = []int{ck * 3, ck*3 + 1, ck*3 + 2}
	default:
		cands = []int{ck}
	}
	for _, c := range cands {
		if i, ok := e.m.Find(c); ok {
			return e.m.Es[i].Reps[:1]
		}
	}
	return nil
}

func lastOf[K any](s *itState[K]) any {
	if !s.hasLast {
		return "nothing"
	}
	return s.last
}

// target resolves a position-relative key for a mutation.
func (e *exec[K]) target(st Step) int {
	s := e.its[st.It]
	if s == nil || st.Rel == "abs" {
		return st.Arg
	}
	dir := 1
	if s.rev {
		dir = -1
	}
	clamp := func(k int) int {
		if k < 1 {
			return 1
		}
		return k
	}
	switch st.Rel {
	case "last":
		if s.hasLast {
			return s.last
		}
	case "parked":
		if s.hasParked {
			return s.parked
		}
	case "gap":
		if s.hasLast && s.hasParked {
			for _, c := range []int{(s.last + s.parked) / 2, s.last + dir, s.parked - dir, s.last + 2*dir} {
				c = clamp(c)
				if _, found := e.m.Find(c); !found && e.beyond(s, c, s.last) && e.beyond(s, s.parked, c) {
					return c
				}
			}
			return clamp(s.last + dir)
		}
		if s.hasParked {
			return clamp(s.parked - dir)
		}
	case "beyond":
		if s.hasParked {
			if st.Arg%2 == 0 {
				if j := e.succIdx(s, s.parked); j >= 0 {
					return e.m.Es[j].Reps[0]
				}
			}
			return clamp(s.parked + dir*(1+st.Arg%3))
		}
	case "far":
		if e.m.Len() > 0 {
			if s.rev {
				return clamp(e.m.Es[0].Reps[0] - st.Arg%3)
			}
			return e.m.Es[e.m.Len()-1].Reps[0] + st.Arg%3
		}
	case "before":
		if s.hasLast {
			return clamp(s.last - dir*(1+st.Arg%5))
		}
	case "outside":
		if s.rev && s.lo.Kind != "unb" {
			return clamp(s.lo.Key - 1 - st.Arg%3)
		}
		if !s.rev && s.hi.Kind != "unb" {
			return s.hi.Key + 1 + st.Arg%3
		}
	}
	return st.Arg
}

func (e *exec[K]) put(k int) {
	e.id++
	v := &tk.Val{ID: e.id}
	if !e.c.IsMap() {
		v = nil
	}
	e.c.Put(e.kk.Mk(k), v)
	if e.m.Put(k, v) {
		for _, s := range e.its {
			if s != nil && !s.done {
				s.pending[e.canon(k)] = struct{}{}
			}
		}
	}
}

func (e *exec[K]) del(k int) {
	e.c.Delete(e.kk.Mk(k))
	if e.m.Delete(k) {
		ck := e.canon(k)
		for _, s := range e.its {
			if s != nil {
				delete(s.stable, ck)
				delete(s.pending, ck)
			}
		}
	}
}

func (e *exec[K]) liveMidway() (bool, *itState[K]) {
	for _, s := range e.its {
		if s != nil && !s.done && s.yielded > 0 {
			return true, s
		}
	}
	return false, nil
}

func (e *exec[K]) mutate(st Step) error {
	before := e.c.Shape(false)
	mid, _ := e.liveMidway()
	k := e.target(st)
	switch st.Op {
	case "Put":
		e.put(k)
	case "Delete":
		e.del(k)
		if s := e.its[st.It]; s != nil && s.hasParked && st.Rel == "parked" {
			e.out.Label("parked-key-deleted")
		}
	case "DeleteRange":
		i, _ := e.m.Find(k)
		lo := i - st.N/2
		if lo < 0 {
			lo = 0
		}
		var keys []int
		for j := lo; j < lo+st.N && j < e.m.Len(); j++ {
			keys = append(keys, e.m.Es[j].Reps[0])
		}
		for _, x := range keys {
			e.del(x)
		}
	case "InsertRun":
		for j := 0; j < st.N; j++ {
			x := k - st.N/2 + j
			if x >= 1 {
				e.put(x)
			}
		}
	case "MoveYielded":
		// the key object the iterator has just handed out is moved: taken out of the collection, rewritten so that
		// it sorts elsewhere (it is the caller's now), put in again. The iterator has yielded it; it has no more use for it.
		s := e.its[st.It]
		if s == nil || !s.hasLast || e.kk.Set == nil {
			return nil
		}
		// (Only while this is the one live iterator: another iterator may be parked on this very key object - it
		// remembers, by reference, the key it will yield next - and rewriting that object under it is the caller's
		// mistake, not the library's.)
		for _, o := range e.its {
			if o != nil && o != s && !o.done {
				return nil
			}
		}
		if i, present := e.m.Find(s.last); !present || e.m.Es[i].Reps[0] != s.last || e.kk.Un(s.lastK) != s.last {
			return nil // (gone already, or stored under another representative of its class)
		}
		to := k
		if _, taken := e.m.Find(to); taken {
			return nil
		}
		e.del(s.last)
		e.kk.Set(s.lastK, to)
		e.id++
		v := &tk.Val{ID: e.id}
		if !e.c.IsMap() {
			v = nil
		}
		e.c.Put(s.lastK, v)
		if e.m.Put(to, v) {
			for _, o := range e.its {
				if o != nil && !o.done {
					o.pending[e.canon(to)] = struct{}{}
				}
			}
		}
		e.out.Label("yielded-key-object-moved")
	case "SwapParked":
		// the key at the position of interest leaves and a neighbour that was absent takes its place (the same
		// slot of the same node, as likely as not): two changes that may each be "local" and cancel out in
		// whatever a parked iterator uses to notice changes
		e.del(k)
		for _, x := range []int{k + 1, k - 1, k + 2} {
			if _, present := e.m.Find(x); !present && x >= 1 {
				e.put(x)
				break
			}
		}
	case "Other":
		if e.other == nil {
			e.other = tk.New(e.kk, e.cfg, &e.otherCalls)
			for j := 0; j < e.m.Len(); j++ {
				e.other.Put(e.kk.Mk(e.m.Es[j].Reps[0]), &tk.Val{ID: -1})
			}
		}
		// splits around the position of interest (fresh nodes are needed), then merges (nodes become free)
		for j := 0; j < st.N; j++ {
			if x := k - st.N/2 + j; x >= 1 {
				e.other.Put(e.kk.Mk(x), &tk.Val{ID: -2})
			}
		}
		if st.Arg%2 == 0 {
			for j := 0; j < st.N; j++ {
				if x := k - st.N/2 + j; x >= 1 && j%3 != 0 {
					e.other.Delete(e.kk.Mk(x))
				}
			}
		}
		e.out.Label("other-collection-mutated")
	case "Churn":
		// 256 or 65536 structural changes, minus up to three (the steps around it add their own): a far-away
		// key is put and deleted over and over. A staleness test that compares only the low bits of the
		// tree's change counter sees "nothing happened" at exactly such a distance.
		n := []int{256, 65536}[st.Arg%2] - (st.Arg/2)%4
		far := 800000 + st.Arg%7
		for j := 0; j < n; j++ {
			if j%2 == 0 {
				e.put(far)
			} else {
				e.del(far)
			}
		}
	case "DrainAllBut":
		var keys []int
		for j := 0; j < e.m.Len(); j++ {
			keys = append(keys, e.m.Es[j].Reps[0])
		}
		keep := map[int]bool{}
		for j := 0; j < st.N && len(keys) > 0; j++ {
			keep[keys[(st.Arg+j*7919)%len(keys)]] = true
		}
		for _, x := range keys {
			if !keep[x] {
				e.del(x)
			}
		}
	case "DeleteAll":
		var keys []int
		for j := 0; j < e.m.Len(); j++ {
			keys = append(keys, e.m.Es[j].Reps[0])
		}
		// alternate ends so that both edges shrink
		for i, j := 0, len(keys)-1; i <= j; i, j = i+1, j-1 {
			e.del(keys[i])
			if i != j {
				e.del(keys[j])
			}
		}
	}
	after := e.c.Shape(false)
	if len(after.Problems) > 0 {
		return e.viol("structure", "%v", after.Problems)
	}
	if after.Height > e.maxHeight {
		e.maxHeight = after.Height
	}
	changed := after.NumNodes != before.NumNodes || after.Height != before.Height
	if mid && changed {
		e.nontrivial = true
		switch {
		case after.NumKeys == 0:
			e.out.Label("emptied-while-live")
		case after.Height < before.Height:
			e.out.Label("root-collapse-while-live")
		case after.NumNodes < before.NumNodes:
			e.out.Label("merge-while-live")
		case after.NumNodes > before.NumNodes:
			e.out.Label("split-while-live")
		}
	}
	return nil
}

func run[K any](kk tk.KeyKind[K], p Plan) (vk.Outcome, error) {
	if tk.Orders[p.Cfg.Order] == nil {
		return vk.Outcome{}, fmt.Errorf("bad order")
	}
	e := &exec[K]{kk: kk, cfg: p.Cfg, m: &tk.Model{Ord: tk.Orders[p.Cfg.Order]}, canon: tk.Canon[p.Cfg.Order]}
	e.c = tk.New(kk, p.Cfg, &e.calls)
	for _, f := range p.Prefill {
		for _, k := range tk.FillKeys(f) {
			e.put(k)
		}
	}
	sh := e.c.Shape(false)
	e.maxHeight = sh.Height
	e.out.Label(fmt.Sprintf("start-height=%d", sh.Height))
	for i, st := range p.Steps {
		e.step, e.cur = i, st
		switch st.Op {
		case "Open":
			e.open(st)
		case "Next":
			s := e.its[st.It]
			if s == nil {
				continue
			}
			for j := 0; j < st.N; j++ {
				if err := e.next(s); err != nil {
					return e.out, err
				}
			}
		default:
			if err := e.mutate(st); err != nil {
				return e.out, err
			}
		}
		live := 0
		for _, s := range e.its {
			if s != nil && !s.done {
				live++
			}
		}
		if live >= 2 {
			e.out.Label("live>=2")
		}
	}
	// drain every live iterator to its end: all obligations must be met.
	for idx, s := range e.its {
		if s == nil {
			continue
		}
		e.cur = Step{Op: "FinalDrain", It: idx}
		for n := 0; !s.done; n++ {
			if n > e.m.Len()+2 {
				return e.out, e.viol("spin", "iterator yields more items than the collection holds")
			}
			if err := e.next(s); err != nil {
				return e.out, err
			}
		}
		if err := e.next(s); err != nil {
			return e.out, err
		}
	}
	// Epilogue for key types with reference semantics (every other plan): everything above is finished, so one
	// fresh iterator is the only live one; it hands out a few keys, the last of them is moved (the key object
	// taken out, rewritten, put back) and the iteration is completed.
	if e.kk.Set != nil && len(p.Steps)%2 == 0 && e.m.Len() >= 3 {
		rev := len(p.Steps)%4 == 0
		e.cur = Step{Op: "Open", It: 0, Plain: !rev, Reverse: rev, Lo: tk.BoundPlan{Kind: "unb"}, Hi: tk.BoundPlan{Kind: "unb"}}
		e.its = [4]*itState[K]{}
		e.open(e.cur)
		s := e.its[0]
		for j := 0; j < 1+len(p.Steps)%3 && !s.done; j++ {
			if err := e.next(s); err != nil {
				return e.out, err
			}
		}
		for r, rel := range []string{"beyond", "far", "before"} {
			if s.done {
				break
			}
			e.cur = Step{Op: "MoveYielded", It: 0, Rel: rel, Arg: 1 + len(p.Steps) + 37*r}
			if err := e.mutate(e.cur); err != nil {
				return e.out, err
			}
			if err := e.next(s); err != nil {
				return e.out, err
			}
		}
		e.cur = Step{Op: "FinalDrain", It: 0}
		for n := 0; !s.done; n++ {
			if n > e.m.Len()+2 {
				return e.out, e.viol("spin", "iterator yields more items than the collection holds")
			}
			if err := e.next(s); err != nil {
				return e.out, err
			}
		}
	}
	e.out.NonTrivial = e.nontrivial
	return e.out, nil
}

func runPlan(p Plan) (vk.Outcome, error) {
	switch p.Cfg.Keys {
	case "int":
		return run(tk.IntKeys, p)
	case "int0":
		return run(tk.IntZeroKeys, p)
	case "string":
		return run(tk.StringKeys, p)
	case "struct":
		return run(tk.StructKeys, p)
	case "ptr":
		return run(tk.PtrKeys, p)
	case "bytes":
		return run(tk.BytesKeys, p)
	}
	return vk.Outcome{}, fmt.Errorf("bad keys")
}

func TestIterUnderMutation(t *testing.T) {
	vk.Run(t, suite, "iterplan", 3000, genPlan, runPlan)
}

// FuzzIterUnderMutation: native coverage-guided fuzzing of the same property (thorough tier only).
func FuzzIterUnderMutation(f *testing.F) { vk.Fuzz(f, suite, "iterplan", genPlan, runPlan) }
