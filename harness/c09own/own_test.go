package c09own

import (
	"math"
	"testing"

	"pgregory.net/rapid"

	fk "verif/harness/faultkit"
	"verif/harness/vk"
)

var suite = vk.NewSuite("C09")

func TestMain(m *testing.M) { suite.Main(m) }

func genBase(combs []string) func(t *rapid.T) fk.Case {
	return func(t *rapid.T) fk.Case {
		c := fk.Case{Comb: rapid.SampledFrom(combs).Draw(t, "comb"), Stop: -1}
		c.Input = rapid.SliceOfN(rapid.IntRange(0, fk.U-1), 0, 10).Draw(t, "in")
		if rapid.IntRange(0, 3).Draw(t, "runs") == 0 {
			for i := range c.Input {
				c.Input[i] = c.Input[i] / 3
			}
		}
		n := len(c.Input)
		c.N = rapid.SampledFrom([]int{1, 2, 3, n, n + 1, 0, math.MaxInt}).Draw(t, "n")
		if c.N == math.MaxInt && c.Comb == "SampleStream" {
			c.N = n + 1 // the Sample functions are documented to use O(k) space
		}
		c.EWraps = rapid.SampledFrom([]int{0, 0, 0, 1, 2, 3}).Draw(t, "ewraps")
		c.LaxSources = rapid.IntRange(0, 3).Draw(t, "lax") == 0
		if c.N < 1 && (c.Comb == "Chunk" || c.Comb == "Batch") {
			c.N = 1
		}
		c.Mask = rapid.IntRange(0, 255).Draw(t, "mask") | rapid.SampledFrom([]int{0, 255, 0x55}).Draw(t, "bias")
		k := rapid.IntRange(1, 3).Draw(t, "k")
		c.Classes = make([]int, fk.U)
		for i := range c.Classes {
			c.Classes[i] = rapid.IntRange(0, k-1).Draw(t, "cls")
		}
		switch c.Comb {
		case "Flatten", "Join", "FlattenSlices", "MergeN":
			c.Split = rapid.SliceOfN(rapid.IntRange(0, n), 0, 4).Draw(t, "split")
			for i := 1; i < len(c.Split); i++ {
				if c.Split[i] < c.Split[i-1] {
					c.Split[i] = c.Split[i-1]
				}
			}
		default:
			if !fk.IsBackground(c.Comb) && rapid.IntRange(0, 1).Draw(t, "haspre") == 1 {
				c.Pre = rapid.SliceOfN(rapid.SampledFrom(fk.PreStages), 1, 2).Draw(t, "pre")
			}
		}
		if fk.IsBackground(c.Comb) || c.Comb == "MergeN" {
			c.SrcGapMs = rapid.SampledFrom([]int{0, 0, 300, 1000, 3000}).Draw(t, "srcgap")
			c.PaceMs = rapid.SampledFrom([]int{0, 0, 500, 2500}).Draw(t, "pace")
			c.EndGapMs = rapid.SampledFrom([]int{0, 0, 5000}).Draw(t, "endgap")
			c.CloseMs = rapid.SampledFrom([]int{0, 0, 5}).Draw(t, "closems")
			c.Par = rapid.SampledFrom([]int{1, 2, 3}).Draw(t, "par")
			c.Buf = rapid.SampledFrom([]int{0, 1, 2, 5}).Draw(t, "buf")
			c.Latency = rapid.SampledFrom([]string{"", "desc", "head"}).Draw(t, "lat")
		}
		return c
	}
}

func background(comb string) bool { return fk.IsBackground(comb) || comb == "MergeN" }

// enumerate: every consumer stop point x every single fault position/kind.
func enumerate(base fk.Case) []fk.Case {
	n := len(base.Input)
	flat, groups := fk.Ref(base)
	outputs := len(flat)
	if groups != nil {
		outputs = len(groups)
	}
	if base.Comb == "Batch" {
		outputs = n
	}
	stops := []int{-1}
	if !fk.IsReducer(base.Comb) {
		for j := 0; j <= outputs+1; j++ {
			stops = append(stops, j)
		}
	}
	faults := []fk.Fault{{Kind: "none"}}
	for p := 0; p <= n; p++ {
		faults = append(faults, fk.Fault{Kind: "final", P: p})
		if !background(base.Comb) {
			faults = append(faults, fk.Fault{Kind: "transient", P: p})
		}
		faults = append(faults, fk.Fault{Kind: "ctx", P: p})
	}
	if fk.HasCallback(base.Comb) {
		for p := 0; p < n; p++ {
			faults = append(faults, fk.Fault{Kind: "callback", P: p})
		}
	}
	if base.Comb == "Flatten" {
		for p := 0; p <= len(base.Split)+1; p++ {
			faults = append(faults, fk.Fault{Kind: "final", P: p, Outer: true}, fk.Fault{Kind: "transient", P: p, Outer: true})
		}
	}
	var out []fk.Case
	for _, st := range stops {
		for _, f := range faults {
			c := base
			c.Stop, c.Fault = st, f
			out = append(out, c)
		}
	}
	return out
}

// judge is the C09 oracle: every stream handed to the library has exactly one Close, no Next after
// Close, no overlapping calls - once the reducer / the returned stream's Close has returned.
func judge(res *fk.Result) error {
	if len(res.AtClose) > 0 {
		return vk.Violf("ownership", "%s: when Close/the reducer returned: %v", vk.Short(res.Case), res.AtClose[0]).With("comb", res.Case.Comb)
	}
	for _, s := range res.Sources {
		if !s.Given() {
			continue
		}
		if err := s.Ownership(); err != nil {
			return vk.Violf("ownership", "%s: %v", vk.Short(res.Case), err).With("comb", res.Case.Comb)
		}
	}
	return nil
}

func classify(c fk.Case, res *fk.Result) vk.Outcome {
	var out vk.Outcome
	out.Label("comb:" + c.Comb)
	out.Label("fault:" + c.Fault.Kind)
	if c.Stop >= 0 {
		out.Label("stopped-early")
	}
	if res != nil && len(res.Sources) >= 2 {
		out.Label("sources>=2")
	}
	stoppedInside := c.Stop > 0 && res != nil && res.Final == nil
	faulted := c.Fault.Kind != "none" && res != nil && (res.Reached || res.Resumed > 0 || res.FirstFault != nil)
	out.NonTrivial = stoppedInside || faulted
	return out
}

func runOne(c fk.Case) (vk.Outcome, error) {
	res, err := fk.Run(c)
	if err != nil {
		return vk.Outcome{}, err
	}
	return classify(c, res), judge(res)
}

func runEnum(base fk.Case) (vk.Outcome, error) {
	var out vk.Outcome
	for _, c := range enumerate(base) {
		o, err := runOne(c)
		if err != nil {
			return out, &vk.SubFailure{Kind: "own-case", Plan: c, Err: err}
		}
		suite.Sub("own-case", c, o)
	}
	out.Label("comb:" + base.Comb)
	return out, nil
}

func TestOwnershipCaller(t *testing.T) {
	combs := append(append([]string{}, fk.Streaming...), fk.Reducers...)
	vk.Run(t, suite, "own-enum", 300, genBase(combs), runEnum)
}

func TestOwnCaseReplay(t *testing.T) { vk.ReplayOnly(t, suite, "own-case", runOne) }

var bubbleT *testing.T

func runOneBg(c fk.Case) (vk.Outcome, error) {
	reps := vk.Reps(3, 8)
	var out vk.Outcome
	for i := 0; i < reps; i++ {
		res, stuck, err := fk.RunBubble(bubbleT, c)
		if err != nil {
			return out, err
		}
		if stuck != "" {
			return classify(c, nil), vk.Violf("stuck", "%s: after Close the bubble did not come to rest: %s", vk.Short(c), stuck).With("comb", c.Comb)
		}
		out = classify(c, res)
		out.Execs = reps
		if err := judge(res); err != nil {
			return out, err
		}
	}
	return out, nil
}

func runEnumBg(base fk.Case) (vk.Outcome, error) {
	var out vk.Outcome
	for _, c := range enumerate(base) {
		o, err := runOneBg(c)
		if err != nil {
			return out, &vk.SubFailure{Kind: "own-case-bg", Plan: c, Err: err}
		}
		suite.Sub("own-case-bg", c, o)
	}
	out.Label("comb:" + base.Comb)
	return out, nil
}

func TestOwnershipBackground(t *testing.T) {
	bubbleT = t
	vk.Run(t, suite, "own-enum-bg", 60, genBase([]string{"Batch", "Merge1", "MergeN", "MapStream"}), runEnumBg)
}

func TestOwnCaseBgReplay(t *testing.T) {
	bubbleT = t
	vk.ReplayOnly(t, suite, "own-case-bg", runOneBg)
}
