package c09own

import (
	"context"
	"fmt"
	"runtime"
	"testing"
	"time"

	"github.com/bradenaw/juniper/parallel"
	"github.com/bradenaw/juniper/stream"
	"pgregory.net/rapid"

	"verif/harness/sk"
	"verif/harness/vk"
)

// The goroutine-backed owners once more, on the real clock and outside a bubble. testing/synctest cannot
// run code that waits for a sync.Mutex while another goroutine of the bubble sleeps or blocks (such a wait
// is not "durably blocked", the bubble neither advances nor deadlocks), so an implementation that
// serialises its workers with a mutex leaves the bubble kinds without a verdict. Here nothing depends on
// time: zero-latency sources, the consumer stops after j outputs or reads to the end / the error, Close is
// given 10 s (active clock), and afterwards every source must have been closed exactly once, never called
// after its Close, never by two goroutines at once.

type RealPlan struct {
	Comb    string `json:"comb"` // MapStream | Batch | Merge | MapStream+Batch
	N       int    `json:"n"`
	ErrAt   int    `json:"err_at"`   // the (first) source fails once that many items are out; -1 = it ends normally
	FErrAt  int    `json:"f_err_at"` // MapStream: f fails for that item; -1 = never
	Stop    int    `json:"stop"`     // outputs to read before Close; -1 = read to the end or the error
	Par     int    `json:"par"`
	Buf     int    `json:"buf"`
	Inputs  int    `json:"inputs"` // Merge
	FSlowUs int    `json:"f_slow_us,omitempty"`
	// OneP: the case runs with GOMAXPROCS(1), and Par may be <= 0 ("as many as there are processors": one)
	OneP bool `json:"one_p,omitempty"`
	// GoexitAt (k > 0): the (first) source's Next ends its goroutine with runtime.Goexit once k-1 items are out.
	// The goroutine - one of the library's - unwinds through its deferred calls only; the consumer still comes
	// to an end, Close returns, every source is closed once. (An f that does the same takes its item with it,
	// and the unchanged MapStream then waits for that item's result for ever: not generated, not judged.)
	GoexitAt int `json:"goexit_at,omitempty"`
}

func genReal(t *rapid.T) RealPlan {
	p := RealPlan{Comb: rapid.SampledFrom([]string{"MapStream", "MapStream", "Batch", "Merge", "MapStream+Batch"}).Draw(t, "comb"),
		N: rapid.IntRange(0, 12).Draw(t, "n"), ErrAt: -1, FErrAt: -1, Stop: -1,
		Par: rapid.IntRange(1, 4).Draw(t, "par"), Buf: rapid.IntRange(0, 4).Draw(t, "buf"), Inputs: rapid.IntRange(1, 3).Draw(t, "inputs"),
		FSlowUs: rapid.SampledFrom([]int{0, 0, 50, 500}).Draw(t, "fslow")}
	switch rapid.IntRange(0, 3).Draw(t, "fault") {
	case 0:
		p.ErrAt = rapid.IntRange(0, p.N).Draw(t, "errat")
	case 1:
		if p.N > 0 {
			p.FErrAt = rapid.IntRange(0, p.N-1).Draw(t, "ferrat")
		}
	}
	if rapid.IntRange(0, 2).Draw(t, "early") == 0 {
		p.Stop = rapid.IntRange(0, p.N).Draw(t, "stop")
	}
	if p.ErrAt < 0 && p.FErrAt < 0 && rapid.IntRange(0, 3).Draw(t, "goexit") == 0 {
		p.GoexitAt = 1 + rapid.IntRange(0, p.N).Draw(t, "goexitat")
	}
	if rapid.IntRange(0, 3).Draw(t, "autopar") == 0 {
		p.Par = rapid.SampledFrom([]int{0, -1}).Draw(t, "parauto")
		p.OneP = rapid.Bool().Draw(t, "onep")
	}
	return p
}

func runReal(p RealPlan) (vk.Outcome, error) {
	var out vk.Outcome
	if p.OneP {
		defer runtime.GOMAXPROCS(runtime.GOMAXPROCS(1))
		out.Label("gomaxprocs=1")
	}
	E, FE := sk.NewSentinel("E"), sk.NewSentinel("FE")
	var srcs []*sk.RecStream[int]
	mk := func(name string, items []int, errAt int) *sk.RecStream[int] {
		s := sk.NewRecStream(name, items)
		if errAt >= 0 && errAt <= len(items) {
			s.FinalAt, s.Final = errAt, E
		}
		if len(srcs) == 0 && p.GoexitAt > 0 {
			s.GoexitAt = min(p.GoexitAt, len(items)+1)
		}
		srcs = append(srcs, s)
		return s
	}
	items := make([]int, p.N)
	for i := range items {
		items[i] = i
	}
	f := func(ctx context.Context, x int) (int, error) {
		if p.FSlowUs > 0 && x%2 == 0 {
			time.Sleep(time.Duration(p.FSlowUs) * time.Microsecond)
		}
		if x == p.FErrAt {
			return -1, FE
		}

		return x, nil
	}
	bg := context.Background()
	var s stream.Stream[int]
	flatten := func(b stream.Stream[[]int]) stream.Stream[int] {
		return stream.Flatten(stream.Map(b, func(_ context.Context, xs []int) (stream.Stream[int], error) {
			return stream.FromIterator(sliceIter(xs)), nil
		}))
	}
	switch p.Comb {
	case "MapStream":
		s = parallel.MapStream[int, int](bg, mk("src", items, p.ErrAt), p.Par, p.Buf, f)
	case "Batch":
		s = flatten(stream.Batch[int](mk("src", items, p.ErrAt), 200*time.Microsecond, max(p.Par, 1)))
	case "MapStream+Batch":
		s = parallel.MapStream[int, int](bg, flatten(stream.Batch[int](mk("src", items, p.ErrAt), 200*time.Microsecond, 2)), p.Par, p.Buf, f)
	default:
		var ins []stream.Stream[int]
		for i := 0; i < p.Inputs; i++ {
			var part []int
			for j := i; j < p.N; j += p.Inputs {
				part = append(part, j)
			}
			errAt := -1
			if i == 0 && p.ErrAt >= 0 {
				errAt = min(p.ErrAt, len(part))
			}
			ins = append(ins, mk(fmt.Sprintf("in%d", i), part, errAt))
		}
		s = stream.Merge(ins...)
	}
	type res struct {
		n   int
		err error
	}
	resC := make(chan res, 1)
	go func() {
		n := 0
		var err error
		for p.Stop < 0 || n < p.Stop {
			_, e := s.Next(bg)
			if e != nil {
				err = e
				break
			}
			n++
		}
		s.Close()
		resC <- res{n, err}
	}()
	var r res
	select {
	case r = <-resC:
	case <-vk.After(10 * time.Second):
		return out, vk.Violf("stuck", "%s over %d items (source error at %d, f error at %d): reading %d outputs and Close have not finished after 10 s", p.Comb, p.N, p.ErrAt, p.FErrAt, p.Stop)
	}
	if r.err != nil && r.err != stream.End && r.err != E && r.err != FE {
		return out, vk.Violf("wrong-error", "%s: Next returned %v", p.Comb, r.err)
	}
	if p.Stop < 0 && p.ErrAt < 0 && p.FErrAt < 0 && p.GoexitAt == 0 && (r.err != stream.End || r.n != p.N) {
		return out, vk.Violf("wrong-output", "%s over %d items without faults: %d outputs, then %v", p.Comb, p.N, r.n, r.err)
	}
	for _, src := range srcs {
		if err := src.Ownership(); err != nil {
			return out, vk.Violf("ownership", "%s (n=%d, source error at %d, f error at %d, consumer stopped after %d outputs with %v): after Close returned: %v", p.Comb, p.N, p.ErrAt, p.FErrAt, r.n, r.err, err)
		}
	}
	out.NonTrivial = p.ErrAt >= 0 || p.FErrAt >= 0 || (p.Stop >= 0 && p.Stop < p.N) || p.GoexitAt > 0
	if p.GoexitAt > 0 {
		out.Label("goexit")
	}
	out.Label("real:" + p.Comb)
	return out, nil
}

type sliceIterator struct {
	xs []int
	i  int
}

func (it *sliceIterator) Next() (int, bool) {
	if it.i >= len(it.xs) {
		return 0, false
	}
	it.i++
	return it.xs[it.i-1], true
}

func sliceIter(xs []int) *sliceIterator { return &sliceIterator{xs: xs} }

func TestOwnRealClock(t *testing.T) {
	vk.Run(t, suite, "own-real-clock", 2000, genReal, runReal)
}
