package c09own

import (
	"context"
	"fmt"
	"testing"

	"github.com/bradenaw/juniper/stream"
	"pgregory.net/rapid"

	"verif/harness/sk"
	"verif/harness/vk"
)

// A user callback that panics is one more way a consumer walks away early: the panic travels up through
// Next (or the reducer), the caller recovers and - for a stream - closes it, as its `defer s.Close()` would
// during unwinding. The source is closed exactly once all the same, never used after.

type PanicPlan struct {
	Comb  string `json:"comb"` // Map | Filter | While | CompactFunc | Runs | Reduce | Collect-Map
	N     int    `json:"n"`    // items
	At    int    `json:"at"`   // the callback panics on its At-th call (0-based)
	Again bool   `json:"again"` // after recovering, the consumer makes one more Next before closing (combinators)
}

func genPanicPlan(t *rapid.T) PanicPlan {
	return PanicPlan{Comb: rapid.SampledFrom([]string{"Map", "Filter", "While", "CompactFunc", "Runs", "Reduce", "Collect-Map"}).Draw(t, "comb"),
		N: rapid.IntRange(1, 8).Draw(t, "n"), At: rapid.IntRange(0, 7).Draw(t, "at"), Again: rapid.Bool().Draw(t, "again")}
}

func runPanicPlan(p PanicPlan) (vk.Outcome, error) {
	var out vk.Outcome
	items := make([]int, p.N)
	for i := range items {
		items[i] = i % 3
	}
	src := sk.NewRecStream("src", items)
	calls := 0
	boom := func() {
		if calls == p.At {
			calls++
			panic("callback failed")
		}
		calls++
	}
	bg := context.Background()
	panicked := false
	drain := func(s interface {
		Close()
	}, next func() error) {
		func() {
			defer s.Close() // what the consumer's own defer does while the panic unwinds
			defer func() {
				if r := recover(); r != nil {
					panicked = true
					if p.Again {
						func() {
							defer func() { recover() }()
							next()
						}()
					}
				}
			}()
			for i := 0; i < p.N+2; i++ {
				if err := next(); err != nil {
					return
				}
			}
		}()
	}
	switch p.Comb {
	case "Map":
		s := stream.Map[int, int](src, func(_ context.Context, x int) (int, error) { boom(); return x, nil })
		drain(s, func() error { _, err := s.Next(bg); return err })
	case "Filter":
		s := stream.Filter[int](src, func(_ context.Context, x int) (bool, error) { boom(); return true, nil })
		drain(s, func() error { _, err := s.Next(bg); return err })
	case "While":
		s := stream.While[int](src, func(_ context.Context, x int) (bool, error) { boom(); return true, nil })
		drain(s, func() error { _, err := s.Next(bg); return err })
	case "CompactFunc":
		s := stream.CompactFunc[int](src, func(a, b int) bool { boom(); return a == b })
		drain(s, func() error { _, err := s.Next(bg); return err })
	case "Runs":
		s := stream.Runs[int](src, func(a, b int) bool { boom(); return a == b })
		drain(s, func() error {
			in, err := s.Next(bg)
			if err != nil {
				return err
			}
			_, err = stream.Collect(bg, in)
			return err
		})
	case "Reduce":
		func() {
			defer func() {
				if r := recover(); r != nil {
					panicked = true
				}
			}()
			stream.Reduce[int, int](bg, src, 0, func(acc, x int) (int, error) { boom(); return acc + x, nil })
		}()
	case "Collect-Map":
		func() {
			defer func() {
				if r := recover(); r != nil {
					panicked = true
				}
			}()
			stream.Collect(bg, stream.Map[int, int](src, func(_ context.Context, x int) (int, error) { boom(); return x, nil }))
		}()
	default:
		return out, fmt.Errorf("bad comb")
	}
	if err := src.Ownership(); err != nil {
		return out, vk.Violf("ownership", "%s, callback panicked on call %d (did: %v), consumer recovered and closed: %v", p.Comb, p.At, panicked, err)
	}
	out.NonTrivial = panicked
	if panicked {
		out.Label("callback-panicked")
	}
	return out, nil
}

func TestPanickingCallback(t *testing.T) {
	vk.Run(t, suite, "panic-abandon", 800, genPanicPlan, runPanicPlan)
}
