package c09own

import (
	"context"
	"fmt"
	"reflect"
	"testing"

	"github.com/bradenaw/juniper/stream"
	"pgregory.net/rapid"

	"verif/harness/sk"
	"verif/harness/vk"
)

// Joins built from parts of ONE argument slice, and Joins of Joins: the variadic arguments of Join are
// the caller's slice (with whatever spare capacity it has), and a Join given to another Join is just a
// stream. Whatever Join does internally with its arguments, every stream is closed exactly once, none
// that was not handed over is touched, and the items come out in argument order.

type JoinPlan struct {
	N      int   `json:"n"`      // streams in the shared slice
	Cut    int   `json:"cut"`    // left = Join(all[:cut]...), right = Join(all[cut:]...)
	Extra  int   `json:"extra"`  // streams joined behind left afterwards: Join(left, e1, ...)
	Lens   []int `json:"lens"`   // items per stream
	Order  int   `json:"order"`  // 0: consume outer (left+extras) then right; 1: right first
	Stop   int   `json:"stop"`   // items read from each joined stream before it is closed; -1 = to the end
	Append bool  `json:"append"` // the caller appends an unrelated stream to its slice after building the Joins
}

func genJoinPlan(t *rapid.T) JoinPlan {
	p := JoinPlan{N: rapid.IntRange(2, 6).Draw(t, "n"), Extra: rapid.IntRange(0, 2).Draw(t, "extra"), Order: rapid.IntRange(0, 1).Draw(t, "order"),
		Stop: rapid.SampledFrom([]int{-1, -1, 0, 1, 3}).Draw(t, "stop"), Append: rapid.Bool().Draw(t, "append")}
	p.Cut = rapid.IntRange(1, p.N-1).Draw(t, "cut")
	for i := 0; i < p.N+p.Extra+1; i++ {
		p.Lens = append(p.Lens, rapid.IntRange(0, 3).Draw(t, "len"))
	}
	return p
}

func runJoinPlan(p JoinPlan) (vk.Outcome, error) {
	var out vk.Outcome
	if p.N < 2 || p.Cut < 1 || p.Cut >= p.N || len(p.Lens) != p.N+p.Extra+1 {
		return out, fmt.Errorf("bad plan")
	}
	mk := func(i int) (*sk.RecStream[int], []int) {
		items := make([]int, p.Lens[i])
		for k := range items {
			items[k] = (i+1)*100 + k
		}
		return sk.NewRecStream(fmt.Sprintf("s%d", i), items), items
	}
	var recs []*sk.RecStream[int]
	var contents [][]int
	all := make([]stream.Stream[int], 0, p.N+4) // spare capacity behind the arguments
	for i := 0; i < p.N; i++ {
		r, items := mk(i)
		recs, contents, all = append(recs, r), append(contents, items), append(all, r)
	}
	left := stream.Join(all[:p.Cut]...)
	right := stream.Join(all[p.Cut:p.N]...)
	outer := left
	wantOuter := []int{}
	for i := 0; i < p.Cut; i++ {
		wantOuter = append(wantOuter, contents[i]...)
	}
	for e := 0; e < p.Extra; e++ {
		r, items := mk(p.N + e)
		recs, contents = append(recs, r), append(contents, items)
		outer = stream.Join(outer, r)
		wantOuter = append(wantOuter, items...)
	}
	wantRight := []int{}
	for i := p.Cut; i < p.N; i++ {
		wantRight = append(wantRight, contents[i]...)
	}
	// a stream that is never handed to the library
	bystander, _ := mk(p.N + p.Extra)
	if p.Append {
		all = append(all, bystander)
	}
	read := func(name string, s stream.Stream[int], want []int) error {
		var got []int
		for p.Stop < 0 || len(got) < p.Stop {
			v, err := s.Next(context.Background())
			if err == stream.End {
				break
			}
			if err != nil {
				return vk.Violf("spurious-error", "%s: %v", name, err)
			}
			got = append(got, v)
			if len(got) > len(want)+2 {
				break
			}
		}
		s.Close()
		if len(got) > len(want) || !reflect.DeepEqual(append([]int{}, got...), append([]int{}, want[:len(got)]...)) || (p.Stop < 0 && len(got) != len(want)) {
			return vk.Violf("wrong-output", "%s yielded %v, its arguments hold %v", name, got, want)
		}
		return nil
	}
	steps := []func() error{
		func() error { return read("Join(Join(all[:cut]...), extras...)", outer, wantOuter) },
		func() error { return read("Join(all[cut:]...)", right, wantRight) },
	}
	if p.Order == 1 {
		steps[0], steps[1] = steps[1], steps[0]
	}
	for _, st := range steps {
		if err := st(); err != nil {
			return out, err
		}
	}
	for _, r := range recs {
		if err := r.Ownership(); err != nil {
			return out, vk.Violf("ownership", "after both joined streams were closed: %v (plan %s)", err, vk.Short(p))
		}
	}
	if nexts, closes, problems := bystander.Stats(); nexts != 0 || closes != 0 || len(problems) > 0 {
		return out, vk.Violf("ownership", "a stream that was never handed to Join was used: %d Next, %d Close %v", nexts, closes, problems)
	}
	out.NonTrivial = p.Extra > 0
	return out, nil
}

func TestJoinSharedArguments(t *testing.T) {
	vk.Run(t, suite, "join-shared-args", 1500, genJoinPlan, runJoinPlan)
}
