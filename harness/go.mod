module verif/harness

go 1.26.8

require (
	github.com/bradenaw/juniper v0.0.0
	pgregory.net/rapid v1.3.0
)

replace github.com/bradenaw/juniper => /repo
