package c10pipe

import (
	"context"
	"errors"
	"fmt"
	"runtime"
	"sync"
	"sync/atomic"
	"testing"
	"testing/synctest"
	"time"

	"github.com/bradenaw/juniper/stream"
	"pgregory.net/rapid"

	"verif/harness/sk"
	"verif/harness/vk"
)

var suite = vk.NewSuite("C10")
var theT *testing.T

func TestMain(m *testing.M) { suite.Main(m) }

// Step is started by the harness in script order by handing it to its actor (a goroutine that runs
// its own steps sequentially). Quiesce: the harness waits for the bubble to come to rest before it
// starts the next step; otherwise the next step races with this one.
type Step struct {
	Actor   int    `json:"actor"`         // 0..Senders-1 = sender actors, Senders = closer actor, -1 = receiver
	Op      string `json:"op"`            // send | trysend | close | next | rclose | cancel
	Ctx     int    `json:"ctx,omitempty"` // 0 = live, -1 = already cancelled, k>0 = cancellable context k
	Err     bool   `json:"err,omitempty"` // close with an error
	Quiesce bool   `json:"q"`
}

type Plan struct {
	Buf     int    `json:"buf"`
	Senders int    `json:"senders"`
	Steps   []Step `json:"steps"`
	// Deadlines: the contexts end by deadline instead of by cancel: -1 is a deadline in the past, context
	// k > 0 has its deadline k fake hours after the start, and the step "cancel k" lets the (fake) clock run
	// to that moment - which also ends every context with a smaller number.
	Deadlines bool `json:"deadlines,omitempty"`
	// CloseErrKind: what Close(err) is called with: 0 a plain error, 1 context.Canceled itself, 2 an error wrapping
	// context.DeadlineExceeded
	CloseErrKind int `json:"close_err_kind,omitempty"`
	// Copies: every actor works through its own by-value copy of the PipeSender (a sender kept in a struct field,
	// `cp := *sender`): all copies are the same sender
	Copies bool `json:"copies,omitempty"`
	// CtxKind: 0 = standard-library contexts, 1 = a hand-written pointer-free context type (sk.Detach), 2 = a
	// hand-written by-value context type that == cannot compare (sk.DetachValue)
	CtxKind int `json:"ctx_kind,omitempty"`
}

func genPlan(t *rapid.T) Plan {
	p := Plan{Buf: rapid.SampledFrom([]int{0, 1, 2, 5}).Draw(t, "buf"), Senders: rapid.IntRange(1, 3).Draw(t, "senders")}
	racy := rapid.IntRange(0, 2).Draw(t, "racy") > 0
	p.Deadlines = rapid.IntRange(0, 2).Draw(t, "deadlines") == 0
	p.CloseErrKind = rapid.SampledFrom([]int{0, 0, 1, 2}).Draw(t, "closeerrkind")
	p.Copies = rapid.IntRange(0, 3).Draw(t, "copies") == 0
	p.CtxKind = rapid.SampledFrom([]int{0, 0, 0, 1, 2}).Draw(t, "ctxkind")
	n := rapid.IntRange(1, 24).Draw(t, "n")
	nctx := 0
	for i := 0; i < n; i++ {
		s := Step{Quiesce: true}
		if racy {
			s.Quiesce = rapid.IntRange(0, 2).Draw(t, "q") == 0
		}
		switch rapid.IntRange(0, 12).Draw(t, "class") {
		case 12:
			s.Op = "tryburst" // every sender actor issues one TrySend at the same moment
			s.Quiesce = true
		case 0, 1, 2, 3:
			s.Op, s.Actor = "send", rapid.IntRange(0, p.Senders-1).Draw(t, "actor")
		case 4:
			s.Op, s.Actor = "trysend", rapid.IntRange(0, p.Senders-1).Draw(t, "actor")
		case 5, 6, 7, 8:
			s.Op, s.Actor = "next", -1
		case 9:
			s.Op = "close"
			s.Actor = rapid.IntRange(0, p.Senders).Draw(t, "closer") // == Senders: own actor
			s.Err = rapid.Bool().Draw(t, "err")
		case 10:
			s.Op, s.Actor = "rclose", -1
		default:
			if nctx > 0 {
				s.Op, s.Ctx = "cancel", rapid.IntRange(1, nctx).Draw(t, "which")
			} else {
				s.Op, s.Actor = "next", -1
			}
		}
		if s.Op == "send" || s.Op == "trysend" || s.Op == "next" {
			switch rapid.IntRange(0, 7).Draw(t, "ctxkind") {
			case 0:
				s.Ctx = -1
			case 1, 2:
				nctx++
				s.Ctx = nctx
			case 3:
				if nctx > 0 { // a context that an earlier call used too (and that may have ended since)
					s.Ctx = rapid.IntRange(1, nctx).Draw(t, "reuse")
				}
			}
		}
		p.Steps = append(p.Steps, s)
	}
	return p
}

type opRec struct {
	step      int
	actor     int
	op        string
	val       int
	ctx       int
	call, ret int64 // logical stamps; ret == 0 while pending
	ok        bool  // trysend result
	err       error
	got       int  // next result
	ctxLive   bool // the call's own context had not ended when the call returned
}

func deadlineOf(c context.Context) time.Time {
	d, _ := c.Deadline()
	return d
}

func isCtxErr(err error) bool {
	return errors.Is(err, context.Canceled) || errors.Is(err, context.DeadlineExceeded)
}

type world struct {
	t0       time.Time
	p        Plan
	mu       sync.Mutex
	ops      []*opRec
	ctxs     map[int]context.Context
	cancels  map[int]context.CancelFunc
	cancelAt map[int]int64
}

func (w *world) ctxFor(id int) context.Context {
	switch {
	case id == 0:
		return context.Background()
	case id == -1 && w.p.Deadlines:
		c, cancel := sk.WithDeadline(context.Background(), w.t0.Add(-time.Second))
		_ = cancel
		return c
	case id == -1:
		c, cancel := sk.WithCancel(context.Background())
		cancel()
		return c
	}
	w.mu.Lock()
	defer w.mu.Unlock()
	if c, ok := w.ctxs[id]; ok {
		return c
	}
	if w.p.Deadlines {
		c, cancel := sk.WithDeadline(context.Background(), w.t0.Add(time.Duration(id)*time.Hour))
		w.ctxs[id], w.cancels[id] = c, cancel
		if c.Err() != nil && w.cancelAt[id] == 0 {
			w.cancelAt[id] = sk.Tick() // born after its deadline
		}
		return c
	}
	c, cancel := sk.WithCancel(context.Background())
	w.ctxs[id], w.cancels[id] = c, cancel
	return c
}

func run(p Plan) (out vk.Outcome, verr error) {
	if p.Senders < 1 || p.Buf < 0 {
		return out, fmt.Errorf("bad plan")
	}
	var stuck string
	func() {
		defer func() {
			if r := recover(); r != nil {
				stuck = fmt.Sprint(r)
			}
		}()
		synctest.Test(theT, func(t *testing.T) {
			defer func() {
				if r := recover(); r != nil {
					verr = vk.Violf("panic", "panic inside bubble: %v", r)
				}
			}()
			verr = script(p, &out)
		})
	}()
	if stuck != "" && verr == nil {
		verr = vk.Violf("stuck", "some call never returned although everything was closed and cancelled: %s; plan %s", stuck, vk.Short(p))
	}
	return out, verr
}

func script(p Plan, out *vk.Outcome) error {
	w := &world{t0: time.Now(), p: p, ctxs: map[int]context.Context{}, cancels: map[int]context.CancelFunc{}, cancelAt: map[int]int64{}}
	sender, receiver := stream.Pipe[int](p.Buf)
	closeErr := sk.NewSentinel("close-error")
	switch p.CloseErrKind { // the error a producer closes with is often just what it got itself: ctx.Err()
	case 1:
		closeErr = context.Canceled
	case 2:
		closeErr = fmt.Errorf("producer gave up: %w", context.DeadlineExceeded)
	}
	nActors := p.Senders + 2 // senders, closer, receiver
	inbox := make([]chan *opRec, nActors)
	var wg sync.WaitGroup
	idx := func(actor int) int {
		if actor == -1 {
			return p.Senders + 1
		}
		return actor
	}
	for a := 0; a < nActors; a++ {
		inbox[a] = make(chan *opRec, len(p.Steps)+8)
		wg.Add(1)
		go func(a int) {
			defer wg.Done()
			sender := sender
			if p.Copies {
				mine := *sender
				sender = &mine
			}
			for r := range inbox[a] {
				ctx := w.ctxFor(r.ctx)
				switch p.CtxKind {
				case 1:
					ctx = sk.Detach(ctx)
				case 2:
					ctx = sk.DetachValue(ctx)
				}
				w.mu.Lock()
				r.call = sk.Tick()
				w.mu.Unlock()
				var err error
				var ok bool
				var got int
				switch r.op {
				case "send":
					err = sender.Send(ctx, r.val)
				case "trysend":
					ok, err = sender.TrySend(ctx, r.val)
				case "close":
					if r.val == 1 {
						sender.Close(closeErr)
					} else {
						sender.Close(nil)
					}
				case "next":
					got, err = receiver.Next(ctx)
				case "rclose":
					receiver.Close()
				}
				live := ctx.Err() == nil
				w.mu.Lock()
				r.err, r.ok, r.got, r.ctxLive = err, ok, got, live
				r.ret = sk.Tick()
				w.mu.Unlock()
			}
		}(a)
	}
	seq := make([]int, p.Senders)
	senderCloseDispatched, receiverCloseDispatched := false, false
	fullyQuiesced := true
	closeWithBuffered, overlappingSenders, blockedAtRclose := false, false, false

	pendingOps := func() []*opRec {
		w.mu.Lock()
		defer w.mu.Unlock()
		var ps []*opRec
		for _, r := range w.ops {
			if r.call != 0 && r.ret == 0 {
				ps = append(ps, r)
			}
		}
		return ps
	}
	state := func() (accepted, received map[int]bool, senderClosed, receiverClosed bool) {
		w.mu.Lock()
		defer w.mu.Unlock()
		accepted, received = map[int]bool{}, map[int]bool{}
		for _, r := range w.ops {
			if r.ret == 0 {
				continue
			}
			switch r.op {
			case "send":
				if r.err == nil {
					accepted[r.val] = true
				}
			case "trysend":
				if r.ok && r.err == nil {
					accepted[r.val] = true
				}
			case "next":
				if r.err == nil {
					received[r.got] = true
				}
			case "close":
				senderClosed = true
			case "rclose":
				receiverClosed = true
			}
		}
		return
	}
	ctxCancelled := func(id int) bool {
		if id == -1 {
			return true
		}
		w.mu.Lock()
		defer w.mu.Unlock()
		return w.cancelAt[id] != 0
	}
	// clause 6, evaluated at a quiescence point
	checkStuck := func(where string) error {
		accepted, received, sc, rc := state()
		outstanding := 0
		for v := range accepted {
			if !received[v] {
				outstanding++
			}
		}
		ps := pendingOps()
		pendingSend := false
		for _, r := range ps {
			if r.op == "send" {
				pendingSend = true
			}
		}
		for _, r := range ps {
			switch r.op {
			case "trysend":
				return vk.Violf("trysend-blocked", "%s: TrySend(%d) has not returned", where, r.val)
			case "close", "rclose":
				return vk.Violf("close-blocked", "%s: %s has not returned", where, r.op)
			case "send":
				if rc || sc || ctxCancelled(r.ctx) {
					return vk.Violf("send-stuck", "%s: Send(%d) still blocked although receiverClosed=%v senderClosed=%v ctxCancelled=%v", where, r.val, rc, sc, ctxCancelled(r.ctx))
				}
			case "next":
				if rc {
					continue // Next after the receiver's own Close is misuse of the stream contract
				}
				if sc || ctxCancelled(r.ctx) || outstanding > 0 || pendingSend {
					return vk.Violf("next-stuck", "%s: Next still blocked although senderClosed=%v ctxCancelled=%v buffered=%d pendingSend=%v", where, sc, ctxCancelled(r.ctx), outstanding, pendingSend)
				}
			}
		}
		return nil
	}

	dispatch := func(i int, s Step) {
		r := &opRec{step: i, actor: s.Actor, op: s.Op, ctx: s.Ctx}
		switch s.Op {
		case "send", "trysend":
			seq[s.Actor]++
			r.val = (s.Actor+1)*1000 + seq[s.Actor]
		case "close":
			if s.Err {
				r.val = 1
			}
		}
		w.mu.Lock()
		w.ops = append(w.ops, r)
		w.mu.Unlock()
		inbox[idx(s.Actor)] <- r
	}

	for i, s := range p.Steps {
		if s.Actor >= p.Senders+1 || s.Actor < -1 {
			return fmt.Errorf("bad actor")
		}
		switch s.Op {
		case "tryburst":
			if senderCloseDispatched {
				continue
			}
			for a := 0; a < p.Senders; a++ {
				dispatch(i, Step{Actor: a, Op: "trysend"})
			}
			if p.Senders >= 2 {
				overlappingSenders = true
			}
		case "send", "trysend":
			if senderCloseDispatched || s.Actor >= p.Senders {
				continue // never start a Send after the sender's Close (misuse)
			}
			if ps := pendingOps(); len(ps) > 0 {
				for _, r := range ps {
					if r.op == "send" && r.actor != s.Actor {
						overlappingSenders = true
					}
				}
			}
			dispatch(i, s)
		case "next":
			if receiverCloseDispatched {
				continue
			}
			dispatch(i, s)
		case "close":
			if senderCloseDispatched {
				continue
			}
			senderCloseDispatched = true
			acc, rec, _, _ := state()
			for v := range acc {
				if !rec[v] && p.Buf >= 1 {
					closeWithBuffered = true
				}
			}
			dispatch(i, s)
		case "rclose":
			if receiverCloseDispatched {
				continue
			}
			receiverCloseDispatched = true
			for _, r := range pendingOps() {
				if r.op == "send" {
					blockedAtRclose = true
				}
			}
			dispatch(i, s)
		case "cancel":
			if p.Deadlines {
				// let the clock run to that context's deadline (everything else is at rest while it does)
				if d := time.Until(w.t0.Add(time.Duration(s.Ctx) * time.Hour)); d > 0 {
					time.Sleep(d)
				}
				w.mu.Lock()
				for id, c := range w.ctxs {
					if id <= s.Ctx && w.cancelAt[id] == 0 && !deadlineOf(c).After(time.Now()) {
						w.cancelAt[id] = sk.Tick()
					}
				}
				w.mu.Unlock()
				break
			}
			w.mu.Lock()
			cancel := w.cancels[s.Ctx]
			if cancel != nil && w.cancelAt[s.Ctx] == 0 {
				w.cancelAt[s.Ctx] = sk.Tick()
			}
			w.mu.Unlock()
			if cancel != nil {
				cancel()
			}
		}
		if s.Quiesce {
			synctest.Wait()
			if err := checkStuck(fmt.Sprintf("after step %d %s", i, vk.Short(s))); err != nil {
				return err
			}
		} else {
			fullyQuiesced = false
		}
	}
	synctest.Wait()
	// epilogue: close the sender if the script did not, then let the receiver read to the end.
	if !senderCloseDispatched {
		dispatch(len(p.Steps), Step{Actor: p.Senders, Op: "close"})
		synctest.Wait()
	}
	drained := false
	if !receiverCloseDispatched {
		for i := 0; i < len(p.Steps)+4; i++ {
			dispatch(len(p.Steps)+1+i, Step{Actor: -1, Op: "next"})
			synctest.Wait()
			w.mu.Lock()
			last := w.ops[len(w.ops)-1]
			done := last.ret != 0 && last.err != nil
			w.mu.Unlock()
			if done {
				drained = true
				// clause 4: the end keeps being reported (no Send is in flight any more)
				for j := 0; j < 2; j++ {
					dispatch(len(p.Steps)+100+j, Step{Actor: -1, Op: "next"})
					synctest.Wait()
				}
				break
			}
		}
		if err := checkStuck("while draining"); err != nil {
			return err
		}
		dispatch(len(p.Steps)+200, Step{Actor: -1, Op: "rclose"})
	}
	// everything closed: cancel all contexts and let the actors finish
	synctest.Wait()
	w.mu.Lock()
	for id, c := range w.cancels {
		if w.cancelAt[id] == 0 {
			w.cancelAt[id] = sk.Tick()
		}
		c()
	}
	w.mu.Unlock()
	for _, ch := range inbox {
		close(ch)
	}
	wg.Wait() // a call that never returns makes the bubble deadlock here

	// ------------------------------------------------------------------ history oracle
	var closeCall, rcloseCall, rcloseRet int64
	closeIsErr := false
	for _, r := range w.ops {
		if r.op == "close" {
			closeCall, closeIsErr = r.call, r.val == 1
		}
		if r.op == "rclose" {
			rcloseCall, rcloseRet = r.call, r.ret
		}
	}
	sent := map[int]*opRec{}
	for _, r := range w.ops {
		if r.op == "send" || r.op == "trysend" {
			sent[r.val] = r
		}
	}
	var firstEnd *opRec
	var endResult error
	seen := map[int]bool{}
	lastPerActor := map[int]int{}
	for _, r := range w.ops {
		switch r.op {
		case "next":
			if r.err == nil {
				s := sent[r.got]
				if s == nil {
					return vk.Violf("invented-value", "Next returned %d, which nobody sent", r.got)
				}
				if seen[r.got] {
					return vk.Violf("duplicate", "Next returned %d twice", r.got)
				}
				seen[r.got] = true
				if r.got < lastPerActor[s.actor] {
					return vk.Violf("fifo", "sender %d: %d received after %d", s.actor, r.got, lastPerActor[s.actor])
				}
				lastPerActor[s.actor] = r.got
				if firstEnd != nil && firstEnd.ret < r.call {
					// a value delivered after the end had been reported: only legitimate if its Send was still in flight then
					if s.ret != 0 && s.ret < firstEnd.call {
						return vk.Violf("value-after-end", "value %d (Send returned before that Next was called) delivered after the receiver had been told %v", r.got, endResult)
					}
				}
				continue
			}
			// validity of a failing Next
			// (the close error may itself be a context error; it is the pipe's once Close(err) has been called)
			isClose := closeCall != 0 && closeIsErr && r.ret >= closeCall && r.err == closeErr
			ownCtxEnded := r.ctx != 0 && !r.ctxLive
			switch {
			case isClose:
			case isCtxErr(r.err):
				if r.ctx == 0 || r.ctxLive {
					return vk.Violf("invalid-result", "Next with a live context returned %v", r.err)
				}
			case r.err == stream.End:
				if closeCall == 0 || closeIsErr || r.ret < closeCall {
					return vk.Violf("invalid-result", "Next returned End without a prior Close(nil)")
				}
			case r.err == closeErr:
				if closeCall == 0 || !closeIsErr || r.ret < closeCall {
					return vk.Violf("invalid-result", "Next returned the close error without a prior Close(err)")
				}
			default:
				return vk.Violf("invalid-result", "Next returned unexpected error %v", r.err)
			}
			if r.err == stream.End || (r.err == closeErr && !(isCtxErr(r.err) && ownCtxEnded)) {
				if firstEnd == nil {
					firstEnd, endResult = r, r.err
				}
			}
		case "send", "trysend":
			// (only TrySends that had returned before the sender's own Close was called: one that overlaps Close may
			// legitimately report the close - with Close(nil) that is (false, nil) - and one started later is misuse)
			if r.op == "trysend" && r.err == nil && (closeCall == 0 || r.ret < closeCall) {
				// documented: "If the receiver is already closed, returns ErrClosedPipe. If ctx expires before x
				// can be sent, returns ctx.Err()" - TrySend checks these before it tries to send.
				if rcloseRet != 0 && r.call > rcloseRet {
					return vk.Violf("trysend-on-closed-pipe", "TrySend(%d) was called after the receiver's Close had returned and reported (%v, nil) instead of ErrClosedPipe", r.val, r.ok)
				}
				if r.ctx == -1 {
					return vk.Violf("trysend-expired-ctx", "TrySend(%d) with an already cancelled context reported (%v, nil) instead of the context's error", r.val, r.ok)
				}
			}
			if r.err == nil {
				continue
			}
			switch {
			case closeCall != 0 && closeIsErr && r.ret >= closeCall && r.err == closeErr:
			case isCtxErr(r.err):
				if r.ctx == 0 || r.ctxLive {
					return vk.Violf("invalid-result", "%s with a live context returned %v", r.op, r.err)
				}
			case r.err == stream.ErrClosedPipe:
				if rcloseCall == 0 || r.ret < rcloseCall {
					return vk.Violf("invalid-result", "%s returned ErrClosedPipe although the receiver had not closed", r.op)
				}
			case r.err == closeErr:
				if !closeIsErr || r.ret < closeCall {
					return vk.Violf("invalid-result", "%s returned the close error without Close(err)", r.op)
				}
			default:
				return vk.Violf("invalid-result", "%s returned unexpected error %v", r.op, r.err)
			}
		}
	}
	// clause 3: accepted before Close was called => received before the end was reported
	if drained && firstEnd != nil {
		for v, s := range sent {
			okSend := s.ret != 0 && s.err == nil && (s.op == "send" || s.ok)
			if okSend && s.ret < closeCall && !seen[v] {
				return vk.Violf("lost-value", "value %d: its %s returned success before Close was called, the receiver read to %v without getting it (buffer %d)", v, s.op, endResult, p.Buf)
			}
		}
		// clause 4: once reported (no Send in flight), the same result keeps being reported
		inflight := false
		for _, s := range sent {
			if s.ret == 0 || s.ret > firstEnd.call {
				inflight = true
			}
		}
		if !inflight {
			for _, r := range w.ops {
				if r.op == "next" && r.call > firstEnd.ret && r.ctx == 0 && r.ret != 0 {
					if r.err == nil || r.err != endResult {
						return vk.Violf("end-not-sticky", "after reporting %v a later Next returned (%d, %v)", endResult, r.got, r.err)
					}
				}
			}
		}
	}
	if closeWithBuffered {
		out.Label("close-with-buffered-values")
	}
	if overlappingSenders {
		out.Label("overlapping-senders")
	}
	if blockedAtRclose {
		out.Label("send-blocked-at-receiver-close")
	}
	if !fullyQuiesced {
		out.Label("racing-steps")
	}
	if closeIsErr {
		out.Label("close-with-error")
	}
	out.Label(fmt.Sprintf("buf=%d", p.Buf))
	out.NonTrivial = closeWithBuffered || overlappingSenders || blockedAtRclose
	return nil
}

func runReps(p Plan) (vk.Outcome, error) {
	reps := vk.Reps(5, 20)
	var out vk.Outcome
	for i := 0; i < reps; i++ {
		o, err := run(p)
		if err != nil {
			return o, err
		}
		for _, l := range o.Labels {
			out.Label(l)
		}
		out.NonTrivial = out.NonTrivial || o.NonTrivial
	}
	out.Execs = reps
	return out, nil
}

func TestPipe(t *testing.T) {
	theT = t
	vk.Run(t, suite, "pipe", 3000, genPlan, runReps)
}

// ---------------------------------------------------------------- storm: last Send + Close racing a reader, real goroutines
//
// The scripted plans above decide the order in which calls START; what happens inside two calls that
// run at the same time is up to the scheduler, and a window of a few instructions is hit about once in
// 10^4-10^5 tries. This kind makes those tries: many short-lived pipes, one or two producers that send
// a few values and close, and a consumer that reads to the end - blocking, or polling with a context
// that has already ended (every such call must either hand out a value or cost nothing). Oracle: the
// consumer gets every value whose Send returned nil, per sender in order, before it is told the end.

type StormPlan struct {
	Buf     int  `json:"buf"`
	N       int  `json:"n"` // values per round
	Rounds  int  `json:"rounds"`
	Poll    bool `json:"poll"`    // consumer polls with an ended context instead of blocking
	Spin    int  `json:"spin"`    // producer: busy iterations between its last Send and Close, swept 0..Spin over the rounds
	CloseBy int  `json:"closeby"` // 0: the producer closes; 1: a second goroutine closes once the producer is done
	// EarlyClose: the consumer does not read at all: it closes its end (after the swept delay) while the producer
	// is in its first Send - which returns
	EarlyClose bool `json:"early_close,omitempty"`
}

func genStorm(t *rapid.T) StormPlan {
	return StormPlan{Buf: rapid.SampledFrom([]int{1, 1, 2, 4, 0}).Draw(t, "buf"), N: rapid.IntRange(0, 4).Draw(t, "n"), // (0: an empty stream, closed while the consumer starts to wait)
		Rounds: rapid.IntRange(500, 3000).Draw(t, "rounds"), Poll: rapid.Bool().Draw(t, "poll"),
		Spin: rapid.SampledFrom([]int{0, 0, 20, 200}).Draw(t, "spin"), CloseBy: rapid.IntRange(0, 1).Draw(t, "closeby"),
		EarlyClose: rapid.IntRange(0, 5).Draw(t, "earlyclose") == 0}
}

var spinSink atomic.Int64

func runStorm(p StormPlan) (vk.Outcome, error) {
	var out vk.Outcome
	ended, cancel := sk.WithCancel(context.Background())
	cancel()
	rounds := p.Rounds
	for round := 0; round < rounds; round++ {
		sender, receiver := stream.Pipe[int](p.Buf)
		spin := 0
		if p.Spin > 0 {
			spin = round % (p.Spin + 1)
		}
		var sentOK atomic.Int32
		produced := make(chan struct{})
		go func() {
			for i := 0; i < p.N; i++ {
				if sender.Send(context.Background(), i) == nil {
					sentOK.Add(1)
				}
			}
			for k := 0; k < spin; k++ {
				spinSink.Add(1)
			}
			if p.CloseBy == 0 {
				sender.Close(nil)
			}
			close(produced)
		}()
		if p.CloseBy == 1 {
			go func() { <-produced; sender.Close(nil) }()
		}
		if p.EarlyClose {
			for k := 0; k < spin; k++ {
				spinSink.Add(1)
			}
			receiver.Close()
			select {
			case <-produced:
			case <-vk.After(10 * time.Second):
				return out, vk.Violf("send-stuck", "round %d: the receiver closed its end of a fresh pipe (buffer %d) while the producer was sending; 10 s later the producer's Sends have not all returned", round, p.Buf)
			}
			continue
		}
		next, polls := 0, 0
		var verr error
		for {
			ctx := context.Background()
			if p.Poll {
				ctx = ended
			}
			var v int
			var err error
			if p.Poll {
				v, err = receiver.Next(ctx)
			} else {
				// (a blocking call gets a liveness limit: a consumer that is never told anything is a verdict)
				type res struct {
					v   int
					err error
				}
				rc := make(chan res, 1)
				go func() { v, err := receiver.Next(ctx); rc <- res{v, err} }()
				select {
				case r := <-rc:
					v, err = r.v, r.err
				case <-vk.After(10 * time.Second):
					return out, vk.Violf("next-stuck", "round %d: a fresh pipe (buffer %d), %d values sent and the sender closed around the time the consumer began to wait: 10 s later Next has not returned", round, p.Buf, p.N)
				}
			}
			if err == nil {
				if v != next {
					verr = vk.Violf("fifo", "round %d: received %d, expected %d", round, v, next)
					break
				}
				next++
				continue
			}
			if p.Poll && err == context.Canceled {
				polls++
				if polls%64 == 0 {
					runtime.Gosched()
				}
				continue
			}
			if err != stream.End {
				verr = vk.Violf("invalid-result", "round %d: Next returned %v", round, err)
				break
			}
			// told the end: Close(nil) has been called, which the producer does only after all its Sends returned
			<-produced
			if int(sentOK.Load()) != next {
				verr = vk.Violf("lost-value", "round %d: the receiver was told the end after %d values although %d Sends had returned nil before Close was called (buffer %d, poll=%v)",
					round, next, sentOK.Load(), p.Buf, p.Poll)
			}
			break
		}
		receiver.Close()
		<-produced
		if verr != nil {
			return out, verr
		}
	}
	out.Execs = rounds
	out.NonTrivial = true
	out.Label(fmt.Sprintf("storm-buf=%d", p.Buf))
	if p.Poll {
		out.Label("storm-polling-consumer")
	}
	return out, nil
}

func TestPipeStorm(t *testing.T) {
	vk.Run(t, suite, "pipe-storm", 200, genStorm, runStorm)
}

// ---------------------------------------------------------------- calls next to a parked Send, on the real clock
//
// "TrySend never blocks" and "Send returns once its context expires" also hold while another Send of
// the same sender is parked. A violation of that is typically a call stuck on a lock, and a goroutine
// waiting for a sync.Mutex is something a synctest bubble can neither wait out nor see as a deadlock
// (the case would hang and count as inconclusive). So this kind uses real goroutines and a real 5 s
// limit - four orders of magnitude above what these calls take.

type ParkedPlan struct {
	Buf    int      `json:"buf"`
	Probes []string `json:"probes"` // trysend | send-timeout | trysend-ended | rclose, run in this order while a Send is parked
}

func genParked(t *rapid.T) ParkedPlan {
	p := ParkedPlan{Buf: rapid.SampledFrom([]int{0, 1, 4}).Draw(t, "buf")}
	p.Probes = rapid.SliceOfN(rapid.SampledFrom([]string{"trysend", "send-timeout", "trysend-ended", "trysend"}), 1, 4).Draw(t, "probes")
	p.Probes = append(p.Probes, "rclose")
	return p
}

func within(limit time.Duration, f func()) bool {
	done := make(chan struct{})
	go func() { f(); close(done) }()
	select {
	case <-done:
		return true
	case <-vk.After(limit):
		return false
	}
}

func runParked(p ParkedPlan) (vk.Outcome, error) {
	var out vk.Outcome
	const limit = 5 * time.Second
	bg := context.Background()
	sender, receiver := stream.Pipe[int](p.Buf)
	for i := 0; i < p.Buf; i++ { // fill the buffer
		if ok, err := sender.TrySend(bg, i); !ok || err != nil {
			return out, vk.Violf("trysend-refused", "TrySend #%d into an empty pipe with buffer %d returned (%v, %v)", i, p.Buf, ok, err)
		}
	}
	parkedErr := make(chan error, 1)
	go func() { parkedErr <- sender.Send(bg, 999) }() // nobody reads: this one parks
	time.Sleep(2 * time.Millisecond)
	ended, cancel := sk.WithCancel(bg)
	cancel()
	for _, probe := range p.Probes {
		switch probe {
		case "trysend":
			var ok bool
			var err error
			if !within(limit, func() { ok, err = sender.TrySend(bg, 1000) }) {
				return out, vk.Violf("trysend-blocked", "TrySend has not returned after %v while another Send of the same sender is parked (buffer %d full, idle receiver)", limit, p.Buf)
			}
			if ok || err != nil {
				return out, vk.Violf("invalid-result", "TrySend into a full pipe returned (%v, %v)", ok, err)
			}
		case "trysend-ended":
			var err error
			if !within(limit, func() { _, err = sender.TrySend(ended, 1001) }) {
				return out, vk.Violf("trysend-blocked", "TrySend with an ended context has not returned after %v while another Send is parked", limit)
			}
			if err != context.Canceled {
				return out, vk.Violf("trysend-expired-ctx", "TrySend with an already cancelled context returned %v", err)
			}
		case "send-timeout":
			ctx, c := sk.WithTimeout(bg, 5*time.Millisecond)
			var err error
			ok := within(limit, func() { err = sender.Send(ctx, 1002) })
			c()
			if !ok {
				return out, vk.Violf("send-stuck", "Send whose context expired after 5ms has not returned after %v (another Send of the same sender is parked)", limit)
			}
			if err != context.DeadlineExceeded {
				return out, vk.Violf("invalid-result", "Send into a full pipe with an expiring context returned %v", err)
			}
		case "rclose":
			if !within(limit, receiver.Close) {
				return out, vk.Violf("close-blocked", "the receiver's Close has not returned after %v", limit)
			}
			select {
			case err := <-parkedErr:
				if err != stream.ErrClosedPipe {
					return out, vk.Violf("invalid-result", "the parked Send returned %v after the receiver closed", err)
				}
			case <-vk.After(limit):
				return out, vk.Violf("send-stuck", "the parked Send has not returned %v after the receiver's Close returned", limit)
			}
		}
	}
	out.NonTrivial = true
	return out, nil
}

func TestPipeParked(t *testing.T) {
	vk.Run(t, suite, "pipe-parked", 40, genParked, runParked)
}

// ---------------------------------------------------------------- the sender half becomes garbage before the receiver is done
//
// A producer fills the pipe, closes its sender and returns; only the receiver is passed on. Whatever the
// runtime does with the unreachable sender half (garbage collection, finalizers) the receiver still gets
// the accepted values and then, for good, what the sender was closed with.

type GCPipePlan struct {
	Buf      int  `json:"buf"`
	N        int  `json:"n"`
	CloseErr bool `json:"close_err"`
	GCs      int  `json:"gcs"`
}

func genGCPipe(t *rapid.T) GCPipePlan {
	buf := rapid.SampledFrom([]int{1, 2, 8}).Draw(t, "buf")
	return GCPipePlan{Buf: buf, N: rapid.IntRange(0, buf).Draw(t, "n"), CloseErr: rapid.Bool().Draw(t, "closeerr"), GCs: rapid.IntRange(1, 3).Draw(t, "gcs")}
}

//go:noinline
func fillAndClose(p GCPipePlan, closeErr error) stream.Stream[int] {
	sender, receiver := stream.Pipe[int](p.Buf)
	for i := 0; i < p.N; i++ {
		if ok, err := sender.TrySend(context.Background(), i); !ok || err != nil {
			panic(fmt.Sprintf("TrySend #%d into a pipe with room returned (%v, %v)", i, ok, err))
		}
	}
	if p.CloseErr {
		sender.Close(closeErr)
	} else {
		sender.Close(nil)
	}
	return receiver
}

func runGCPipe(p GCPipePlan) (vk.Outcome, error) {
	var out vk.Outcome
	closeErr := sk.NewSentinel("close-error")
	receiver := fillAndClose(p, closeErr)
	collect := func() {
		for i := 0; i < p.GCs; i++ {
			runtime.GC()
			time.Sleep(time.Millisecond) // finalizers run on a goroutine of their own
		}
	}
	collect()
	var want error = stream.End
	if p.CloseErr {
		want = closeErr
	}
	for i := 0; i < p.N; i++ {
		v, err := receiver.Next(context.Background())
		if err != nil || v != i {
			return out, vk.Violf("lost-value", "after the sender half had become garbage: Next #%d returned (%d, %v), want the accepted value %d", i, v, err, i)
		}
	}
	for k := 0; k < 3; k++ {
		if _, err := receiver.Next(context.Background()); err != want {
			return out, vk.Violf("end-not-sticky", "after the sender half had become garbage (closed with %v): Next #%d past the values returned %v", want, k, err)
		}
		collect()
	}
	receiver.Close()
	out.NonTrivial = p.N > 0
	return out, nil
}

func TestPipeSenderCollected(t *testing.T) {
	vk.Run(t, suite, "pipe-gc", 60, genGCPipe, runGCPipe)
}
