package c10pipe

import (
	"context"
	"errors"
	"fmt"
	"testing"
	"time"

	"github.com/bradenaw/juniper/stream"
	"pgregory.net/rapid"

	"verif/harness/vk"
)

// pipe-values: what travels through a Pipe is the value that was sent, whatever its type: interface types
// (any, error) including the nil interface value, nil pointers, nil slices and maps, zero-size structs, a
// struct that holds a slice. (A pipe of ints says nothing about how the element type is carried inside.)

type ValuesPlan struct {
	T    string `json:"t"` // any | error | ptr | slice | struct0 | holder
	Buf  int    `json:"buf"`
	Vals []int  `json:"vals"` // 0 = the type's nil / zero value, k > 0 = a value made from k
}

func genValues(t *rapid.T) ValuesPlan {
	return ValuesPlan{T: rapid.SampledFrom([]string{"any", "any", "error", "error", "ptr", "slice", "struct0", "holder"}).Draw(t, "t"),
		Buf: rapid.SampledFrom([]int{0, 1, 4}).Draw(t, "buf"), Vals: rapid.SliceOfN(rapid.IntRange(0, 3), 1, 8).Draw(t, "vals")}
}

type holder struct {
	xs []int
	m  map[int]int
}

func pipeThrough[T any](p ValuesPlan, mk func(k int) T, same func(a, b T) bool) error {
	sender, receiver := stream.Pipe[T](p.Buf)
	go func() {
		for _, k := range p.Vals {
			if sender.Send(context.Background(), mk(k)) != nil {
				break
			}
		}
		sender.Close(nil)
	}()
	type res struct {
		v   T
		err error
	}
	defer receiver.Close()
	for i := 0; ; i++ {
		rc := make(chan res, 1)
		go func() {
			defer func() {
				if r := recover(); r != nil {
					rc <- res{err: fmt.Errorf("Next panicked: %v", r)}
				}
			}()
			v, err := receiver.Next(context.Background())
			rc <- res{v, err}
		}()
		var r res
		select {
		case r = <-rc:
		case <-vk.After(10 * time.Second):
			return vk.Violf("next-stuck", "Pipe[%s]: Next #%d has not returned after 10 s (sent %v)", p.T, i, p.Vals)
		}
		if r.err == stream.End {
			if i != len(p.Vals) {
				return vk.Violf("lost-value", "Pipe[%s]: the end after %d of %d values", p.T, i, len(p.Vals))
			}
			return nil
		}
		if r.err != nil {
			return vk.Violf("invalid-result", "Pipe[%s] carrying %v (0 = nil / zero value): Next #%d: %v", p.T, p.Vals, i, r.err)
		}
		if i >= len(p.Vals) || !same(r.v, mk(p.Vals[i])) {
			return vk.Violf("wrong-value", "Pipe[%s] carrying %v: Next #%d returned %#v", p.T, p.Vals, i, r.v)
		}
	}
}

var pipeErrs = []error{nil, errors.New("e1"), errors.New("e2"), context.Canceled}
var pipePtrs = []*int{nil, new(int), new(int), new(int)}

func runValues(p ValuesPlan) (vk.Outcome, error) {
	var out vk.Outcome
	var err error
	switch p.T {
	case "any":
		err = pipeThrough[any](p, func(k int) any {
			switch k {
			case 0:
				return nil
			case 1:
				return 0
			case 2:
				return (*int)(nil) // a typed nil inside the interface is not the nil interface
			}
			return "three"
		}, func(a, b any) bool { return a == b })
	case "error":
		err = pipeThrough[error](p, func(k int) error { return pipeErrs[k] }, func(a, b error) bool { return a == b })
	case "ptr":
		err = pipeThrough[*int](p, func(k int) *int { return pipePtrs[k] }, func(a, b *int) bool { return a == b })
	case "slice":
		err = pipeThrough[[]int](p, func(k int) []int {
			if k == 0 {
				return nil
			}
			return make([]int, k-1) // (k == 1: empty but not nil)
		}, func(a, b []int) bool { return (a == nil) == (b == nil) && len(a) == len(b) })
	case "struct0":
		err = pipeThrough[struct{}](p, func(int) struct{} { return struct{}{} }, func(a, b struct{}) bool { return true })
	default:
		err = pipeThrough[holder](p, func(k int) holder {
			if k == 0 {
				return holder{}
			}
			return holder{xs: make([]int, k), m: map[int]int{k: k}}
		}, func(a, b holder) bool { return len(a.xs) == len(b.xs) && len(a.m) == len(b.m) && (a.m == nil) == (b.m == nil) })
	}
	zero := false
	for _, k := range p.Vals {
		zero = zero || k == 0
	}
	out.NonTrivial = zero && len(p.Vals) >= 2
	out.Label("pipe-of:" + p.T)
	return out, err
}

func TestPipeValues(t *testing.T) {
	vk.Run(t, suite, "pipe-values", 800, genValues, runValues)
}
