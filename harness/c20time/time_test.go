package c20time

import (
	"context"
	"errors"
	"fmt"
	"math"
	"sync"
	"testing"
	"testing/synctest"
	"time"

	"github.com/bradenaw/juniper/xtime"
	"pgregory.net/rapid"

	"verif/harness/sk"
	"verif/harness/vk"
)

var suite = vk.NewSuite("C20")
var theT *testing.T

func TestMain(m *testing.M) { suite.Main(m) }

// bubble runs f on the fake clock; a deadlock or a leaked goroutine is returned as stuck.
func bubble(f func()) (stuck string, perr error) {
	defer func() {
		if r := recover(); r != nil {
			stuck = fmt.Sprint(r)
		}
	}()
	synctest.Test(theT, func(t *testing.T) {
		defer func() {
			if r := recover(); r != nil {
				perr = fmt.Errorf("panic inside bubble: %v", r)
			}
		}()
		f()
	})
	return
}

// ---------------------------------------------------------------- SleepContext

type SleepPlan struct {
	D        int64  `json:"d"`   // ns
	Ctx      string `json:"ctx"` // bg | deadline | cancelled | cancel-at | deadline+cancel
	Deadline int64  `json:"deadline,omitempty"`
	CancelAt int64  `json:"cancel_at,omitempty"`
	// Detached: the context is of a hand-written type (sk.Detach)
	Detached bool `json:"detached,omitempty"`
	// Sloppy (with cancel-at): a hand-written context that reports a deadline far beyond d, ends earlier than that
	// all the same, and then says DeadlineExceeded (a merge of two contexts that reports the wrong parent's
	// deadline, say): Deadline() is advice, Done() and Err() are what counts
	Sloppy bool `json:"sloppy,omitempty"`
}

// sloppyCtx: see SleepPlan.Sloppy.
type sloppyCtx struct {
	inner context.Context
	dl    time.Time
}

func (c sloppyCtx) Deadline() (time.Time, bool) { return c.dl, true }
func (c sloppyCtx) Done() <-chan struct{}       { return c.inner.Done() }
func (c sloppyCtx) Value(k any) any             { return nil }
func (c sloppyCtx) Err() error {
	if c.inner.Err() != nil {
		return context.DeadlineExceeded
	}
	return nil
}

func genSleep(t *rapid.T) SleepPlan {
	p := SleepPlan{}
	p.D = rapid.SampledFrom([]int64{-5, 0, 1, 1000, int64(time.Millisecond), int64(time.Second), int64(time.Hour), 1 << 50}).Draw(t, "d")
	p.Ctx = rapid.SampledFrom([]string{"bg", "deadline", "deadline", "cancelled", "cancel-at", "deadline+cancel", "cancelled+deadline", "expired-deadline"}).Draw(t, "ctx")
	d := p.D
	if d < 2 {
		d = 1000
	}
	rel := func(label string) int64 {
		return rapid.SampledFrom([]int64{d / 2, d / 3, d - 1, d, d + 1, 10 * d, 1, 3 * d}).Draw(t, label)
	}
	p.Deadline = rel("deadline")
	p.CancelAt = rel("cancelat")
	if rapid.IntRange(0, 5).Draw(t, "extreme") == 0 {
		// durations at the end of the range, with contexts that end the call at once (nobody waits 292 years);
		// "deadline-only" is a context that reports a deadline but never signals Done (a legal implementation)
		p.D = rapid.SampledFrom([]int64{math.MaxInt64, math.MaxInt64 - 1, 1 << 62}).Draw(t, "hugeD")
		p.Ctx = rapid.SampledFrom([]string{"expired-deadline", "deadline-only", "deadline-only", "deadline", "cancelled"}).Draw(t, "hugectx")
		p.Deadline = rapid.SampledFrom([]int64{-int64(time.Hour), -1, 0, 1, int64(time.Second), math.MinInt64}).Draw(t, "hugedeadline") // MinInt64: the zero time.Time
		if p.Ctx == "deadline" && p.Deadline <= 0 {
			p.Deadline = int64(time.Second)
		}
	} else if rapid.IntRange(0, 7).Draw(t, "dlonly") == 0 {
		p.Ctx = "deadline-only"
	}
	p.Detached = rapid.IntRange(0, 4).Draw(t, "detached") == 0
	p.Sloppy = p.Ctx == "cancel-at" && p.D > 0 && p.D < 1<<50 && rapid.Bool().Draw(t, "sloppy")
	return p
}

// deadlineOnly reports a deadline but never signals Done.
type deadlineOnly struct {
	context.Context
	dl time.Time
}

func (d deadlineOnly) Deadline() (time.Time, bool) { return d.dl, true }

func runSleep(p SleepPlan) (vk.Outcome, error) {
	var out vk.Outcome
	var verr error
	stuck, perr := bubble(func() {
		ctx := context.Background()
		var cancels []context.CancelFunc
		defer func() {
			for _, c := range cancels {
				c()
			}
		}()
		hasDeadline, cancelAt := false, int64(-1)
		if p.Ctx == "expired-deadline" { // the deadline passed before the call
			var c context.CancelFunc
			ctx, c = sk.WithTimeout(ctx, -time.Second)
			cancels = append(cancels, c)
			hasDeadline = true
			p.Deadline = -int64(time.Second)
		}
		if p.Ctx == "deadline-only" {
			dl := time.Now().Add(time.Duration(p.Deadline))
			if p.Deadline == math.MinInt64 {
				dl = time.Time{}
			}
			ctx = deadlineOnly{ctx, dl}
			hasDeadline = true
		}
		switch p.Ctx {
		case "deadline", "deadline+cancel", "cancelled+deadline":
			var c context.CancelFunc
			ctx, c = sk.WithTimeout(ctx, time.Duration(p.Deadline))
			cancels = append(cancels, c)
			hasDeadline = true
		}
		switch p.Ctx {
		case "cancelled", "cancelled+deadline":
			var c context.CancelFunc
			ctx, c = sk.WithCancel(ctx)
			c()
		case "cancel-at", "deadline+cancel":
			var c context.CancelFunc
			ctx, c = sk.WithCancel(ctx)
			cancels = append(cancels, c)
			cancelAt = p.CancelAt
			quit := make(chan struct{})
			var wg sync.WaitGroup
			wg.Add(1)
			defer func() { close(quit); wg.Wait() }() // the fake clock stops when the bubble root returns
			go func() {
				defer wg.Done()
				tm := time.NewTimer(time.Duration(p.CancelAt))
				defer tm.Stop()
				select {
				case <-tm.C:
					c()
				case <-quit:
				}
			}()
		}
		doneAtCall := ctx.Err() != nil
		start := time.Now()
		if p.Sloppy && p.Ctx == "cancel-at" {
			ctx = sloppyCtx{inner: ctx, dl: start.Add(10*time.Duration(p.D) + time.Hour)}
		}
		if p.Detached && p.D%2 == 0 {
			ctx = sk.Detach(ctx)
		} else if p.Detached {
			ctx = sk.DetachValue(ctx)
		}
		err := xtime.SleepContext(ctx, time.Duration(p.D))
		elapsed := int64(time.Since(start))
		var tooSoon xtime.DeadlineTooSoonError
		isTooSoon := errors.As(err, &tooSoon)
		d := p.D
		fail := func(format string, args ...any) {
			verr = vk.Violf("sleep", "SleepContext(%s, d=%v) returned %v after %v: %s", p.Ctx, time.Duration(d), err, time.Duration(elapsed), fmt.Sprintf(format, args...))
		}
		if err == nil && elapsed < d {
			fail("nil before d had elapsed")
			return
		}
		if d <= 0 {
			if err != nil || elapsed != 0 {
				fail("d <= 0 must return nil immediately")
			}
			return
		}
		// when does the context end (relative to the call), if at all?
		ctxEnd := int64(-1)
		if hasDeadline && p.Ctx != "deadline-only" {
			ctxEnd = p.Deadline
		}
		if cancelAt >= 0 && (ctxEnd < 0 || cancelAt < ctxEnd) {
			ctxEnd = cancelAt
		}
		tooSoonExpected := hasDeadline && p.Deadline < d
		if doneAtCall {
			// already done: the context's error at once; if its deadline is also closer than d either answer is allowed
			if elapsed != 0 {
				fail("context already done: must return at once")
			} else if !(errors.Is(err, context.Canceled) || errors.Is(err, context.DeadlineExceeded) || (tooSoonExpected && isTooSoon)) {
				fail("context already done: want its error")
			}
			return
		}
		if isTooSoon && tooSoon.Error() == "" {
			fail("DeadlineTooSoonError has an empty message")
			return
		}
		if tooSoonExpected {
			if !isTooSoon || elapsed != 0 {
				fail("deadline %v is closer than d: want DeadlineTooSoonError immediately", time.Duration(p.Deadline))
			}
			return
		}
		if isTooSoon {
			fail("deadline (%v away) is not closer than d", time.Duration(p.Deadline))
			return
		}
		switch {
		case ctxEnd >= 0 && ctxEnd < d:
			if err == nil || elapsed != ctxEnd || !(errors.Is(err, context.Canceled) || errors.Is(err, context.DeadlineExceeded)) {
				fail("context ends after %v < d: want its error at that instant", time.Duration(ctxEnd))
			}
		case ctxEnd == d: // tie: either
			if elapsed != d {
				fail("tie at d: must return at d")
			}
		default:
			if err != nil || elapsed != d {
				fail("want nil after exactly d")
			}
		}
	})
	if perr != nil {
		return out, perr
	}
	if stuck != "" {
		return out, vk.Violf("stuck", "SleepContext %s: %s", vk.Short(p), stuck)
	}
	out.NonTrivial = p.D > 0 && ((p.Ctx == "deadline" && p.Deadline > 0 && p.Deadline < p.D) || (p.Ctx == "cancel-at" && p.CancelAt < p.D) || p.Ctx == "deadline+cancel")
	out.Label("ctx:" + p.Ctx)
	return out, verr
}

func TestSleepContext(t *testing.T) {
	theT = t
	vk.Run(t, suite, "sleep", 1500, genSleep, runSleep)
}

// ---------------------------------------------------------------- JitterTicker

type TEvent struct {
	Op string `json:"op"` // sleep | read | wait | reset | stop
	Dt int64  `json:"dt,omitempty"`
	D  int64  `json:"d,omitempty"`
	J  int64  `json:"j,omitempty"`
}

type TickerPlan struct {
	D      int64    `json:"d"`
	J      int64    `json:"j"`
	Events []TEvent `json:"events"`
}

func genDJ(t *rapid.T, label string) (int64, int64) {
	// (1<<62 + 5: with jitter d-1 twice the jitter no longer fits a Duration; the fake clock can still carry one such period)
	d := rapid.SampledFrom([]int64{1, 2, 1000, int64(time.Millisecond), int64(time.Second), int64(time.Hour), 1 << 60, 1<<62 + 5, 1<<62 + 1<<61, math.MaxInt64,
		int64(time.Second) + 499_000, 13 * int64(time.Second) / 9, 3*int64(time.Second) + 480_001}).Draw(t, label+"d") // the last two: d + jitter no longer fits either
	var j int64
	switch rapid.IntRange(0, 4).Draw(t, label+"jclass") {
	case 0:
		j = 0
	case 1:
		j = d - 1
	case 2:
		j = d / 2
	case 3:
		j = d / 10
		if d > int64(time.Millisecond) && rapid.Bool().Draw(t, label+"tinyj") {
			j = 20_000 // a jitter far below a millisecond on a period far above one
		}
	default:
		j = rapid.Int64Range(0, d-1).Draw(t, label+"j")
	}
	// out-of-domain arguments (must panic)
	switch rapid.IntRange(0, 14).Draw(t, label+"bad") {
	case 0:
		d = 0
	case 1:
		d = -d
	case 2:
		j = d
	case 3:
		j = d
		if d < math.MaxInt64-5 {
			j = d + 5
		}
	}
	return d, j
}

func genTicker(t *rapid.T) TickerPlan {
	p := TickerPlan{}
	p.D, p.J = genDJ(t, "new")
	n := rapid.IntRange(1, 25).Draw(t, "n")
	for i := 0; i < n; i++ {
		e := TEvent{Op: rapid.SampledFrom([]string{"sleep", "sleep", "read", "wait", "wait", "wait", "reset", "stop", "stopreset"}).Draw(t, "op")}
		if e.Op == "stopreset" { // Stop at the very instant a tick is due, then Reset at once
			e.D, e.J = genDJ(t, "reset")
			if !inDomain(e.D, e.J) {
				e.D, e.J = 1000, 0
			}
		}
		switch e.Op {
		case "sleep":
			e.Dt = rapid.SampledFrom([]int64{0, 1, 2, 3, 5, 10, 25}).Draw(t, "dt") // in tenths of the current d
		case "reset":
			e.D, e.J = genDJ(t, "reset")
			if rapid.IntRange(0, 5).Draw(t, "rejected") == 0 {
				// a Reset that is rejected (jitter >= d, with a d that is fine in itself and much shorter than most):
				// it panics as documented and changes nothing - the ticks that follow keep the old spacing
				e.D = rapid.SampledFrom([]int64{1, 1000}).Draw(t, "rejd")
				e.J = e.D + rapid.SampledFrom([]int64{0, 5}).Draw(t, "rejj")
				p.Events = append(p.Events, e)
				for k := 0; k < 3; k++ {
					p.Events = append(p.Events, TEvent{Op: "wait"})
				}
				continue
			}
			e.Dt = rapid.SampledFrom([]int64{0, 0, 1, 2, 2}).Draw(t, "after") // 0: right away; 1: just before the next tick is due; 2: at the very instant it is due
		case "stop":
			if i < n-3 {
				e.Op = "wait"
			}
		}
		p.Events = append(p.Events, e)
	}
	return p
}

func inDomain(d, j int64) bool { return d > 0 && j >= 0 && j < d }

type cfgChange struct {
	at   time.Time
	d, j int64
}

func runTicker(p TickerPlan) (vk.Outcome, error) {
	var out vk.Outcome
	var verr error
	stuck, perr := bubble(func() {
		var tk *xtime.JitterTicker
		panicked, pv := vk.Catch(func() { tk = xtime.NewJitterTicker(time.Duration(p.D), time.Duration(p.J)) })
		if panicked != !inDomain(p.D, p.J) {
			verr = vk.Violf("ticker-domain", "NewJitterTicker(d=%v, jitter=%v): panicked=%v (%v), documented domain says %v", time.Duration(p.D), time.Duration(p.J), panicked, pv, !inDomain(p.D, p.J))
			return
		}
		if panicked {
			out.Label("ctor-panics-out-of-domain")
			return
		}
		d, j := p.D, p.J
		cfgs := []cfgChange{{time.Now(), d, j}}
		var ticks []time.Time
		stopped, poisoned := false, false
		var lastTickOrReset = time.Now()
		var notBefore time.Time // set by Reset: "the next tick will arrive after the new period elapses"
		got := func(ts time.Time) bool {
			if ts.Before(notBefore) {
				verr = vk.Violf("tick-after-reset", "a tick stamped %v before the earliest time the new period allows was delivered after Reset had returned (and the channel had been drained)", notBefore.Sub(ts))
				return false
			}
			if stopped {
				verr = vk.Violf("tick-after-stop", "a tick (%v) was delivered after Stop had returned and the channel had been drained", ts)
				return false
			}
			if n := len(ticks); n > 0 {
				prev := ticks[n-1]
				// smallest d-jitter over the configurations in force between the two ticks
				min := int64(-1)
				for i, c := range cfgs {
					endsBefore := i+1 < len(cfgs) && !cfgs[i+1].at.After(prev)
					if endsBefore || c.at.After(ts) {
						continue
					}
					if m := c.d - c.j; min < 0 || m < min {
						min = m
					}
				}
				if gap := int64(ts.Sub(prev)); gap < min {
					verr = vk.Violf("tick-spacing", "consecutive ticks %v apart, less than d-jitter = %v (configs %v)", time.Duration(gap), time.Duration(min), cfgs)
					return false
				}
			}
			ticks = append(ticks, ts)
			lastTickOrReset = ts
			return true
		}
		for _, e := range p.Events {
			if verr != nil {
				break
			}
			switch e.Op {
			case "sleep":
				if d < 1<<40 {
					time.Sleep(time.Duration(d / 10 * e.Dt))
				}
			case "read":
				select {
				case ts := <-tk.C:
					got(ts)
				default:
				}
			case "wait":
				if stopped {
					continue
				}
				if d >= 1<<59 {
					// nobody waits decades for a tick - but a tick may not show up early either: look twice, a
					// millisecond apart (two ticks of such a ticker that close together break the spacing rule)
					for k := 0; k < 2 && verr == nil; k++ {
						time.Sleep(time.Millisecond)
						select {
						case ts := <-tk.C:
							got(ts)
						default:
						}
					}
					continue
				}
				limit := time.NewTimer(time.Duration(3*d + 10))
				select {
				case ts := <-tk.C:
					got(ts)
				case <-limit.C:
					verr = vk.Violf("no-tick", "no tick within 3*d = %v of waiting (d=%v jitter=%v)", time.Duration(3*d), time.Duration(d), time.Duration(j))
				}
				limit.Stop()
			case "reset":
				if e.Dt == 2 && d < 1<<40 && !stopped {
					// exactly when a tick can fire at the earliest: Reset races with the timer's callback
					if wait := lastTickOrReset.Add(time.Duration(d - j)).Sub(time.Now()); wait > 0 {
						time.Sleep(wait)
					}
					out.Label("reset-at-due-instant")
				}
				if e.Dt == 1 && d < 1<<40 && !stopped {
					// just before a tick could be due at the earliest
					if wait := lastTickOrReset.Add(time.Duration(d - j)).Sub(time.Now()); wait > 1 {
						time.Sleep(wait - 1)
					}
					out.Label("reset-just-before-due")
				}
				panicked, pv := vk.Catch(func() { tk.Reset(time.Duration(e.D), time.Duration(e.J)) })
				if panicked != !inDomain(e.D, e.J) {
					verr = vk.Violf("ticker-domain", "Reset(d=%v, jitter=%v): panicked=%v (%v), documented domain says %v", time.Duration(e.D), time.Duration(e.J), panicked, pv, !inDomain(e.D, e.J))
					// a panic that escaped from inside the ticker may have left its mutex locked: do not touch it again
					if poisoned = panicked; poisoned {
						vk.Established(verr) // a timer callback may already be queued on that mutex, and then the bubble cannot end
					}
					break
				}
				if !panicked {
					// whatever was sent before Reset returned may still sit in the one-slot buffer
					select {
					case ts := <-tk.C:
						got(ts)
					default:
					}
					d, j = e.D, e.J
					cfgs = append(cfgs, cfgChange{time.Now(), d, j})
					lastTickOrReset = time.Now()
					notBefore = time.Now().Add(time.Duration(d - j))
					if stopped {
						out.Label("reset-after-stop") // Reset on a stopped ticker starts it again
						stopped = false
					}
					out.Label("reset")
				}
			case "stopreset":
				if stopped {
					continue
				}
				if d < 1<<40 {
					if wait := lastTickOrReset.Add(time.Duration(d - j)).Sub(time.Now()); wait > 0 {
						time.Sleep(wait) // a tick can fire from now on: its callback may be starting right now
					}
				}
				tk.Stop()
				tk.Reset(time.Duration(e.D), time.Duration(e.J))
				select {
				case ts := <-tk.C: // sent before Stop returned
					if !ts.After(time.Now()) {
						ticks, lastTickOrReset = append(ticks, ts), ts
					}
				default:
				}
				d, j = e.D, e.J
				cfgs = append(cfgs, cfgChange{time.Now(), d, j})
				lastTickOrReset = time.Now()
				notBefore = time.Now().Add(time.Duration(d - j))
				out.Label("stop-then-reset-at-due-instant")
			case "stop":
				if stopped {
					continue
				}
				tk.Stop()
				select {
				case ts := <-tk.C: // a tick sent before Stop may still sit in the one-slot buffer
					got(ts)
				default:
				}
				stopped = true
				out.Label("stop")
			}
		}
		if verr != nil {
			if !stopped && !poisoned {
				vk.Catch(func() { tk.Stop() })
			}
			return
		}
		if !stopped {
			tk.Stop()
			select {
			case ts := <-tk.C:
				got(ts)
			default:
			}
			stopped = true
		}
		// observation tail: nothing may arrive any more
		tail := time.Duration(d)
		if d < 1<<50 {
			tail = time.Duration(100 * d)
		}
		if d >= 1<<61 {
			tail = time.Hour // (the fake clock cannot carry more than one such period; an hour of silence will do)
		}
		time.Sleep(tail)
		select {
		case ts := <-tk.C:
			got(ts)
		default:
		}
		if len(ticks) >= 3 {
			out.Label("ticks>=3")
		}
	})
	if perr != nil {
		return out, vk.Violf("panic", "%v", perr)
	}
	if stuck != "" {
		return out, vk.Violf("stuck", "JitterTicker %s: %s", vk.Short(p), stuck)
	}
	out.NonTrivial = inDomain(p.D, p.J) && (p.J == 0 || p.J == p.D-1 || len(out.Labels) > 0)
	if p.J == 0 {
		out.Label("jitter=0")
	}
	return out, verr
}

func TestJitterTicker(t *testing.T) {
	theT = t
	vk.Run(t, suite, "ticker", 1500, genTicker, runTicker)
}

// ---------------------------------------------------------------- several tickers at once, under the race detector
//
// Each ticker has its own mutex; whatever tickers share (a random source, say) must be safe to use from
// several of them at once. This kind runs on real goroutines and the real clock and has no timing
// oracle: the job is built with -race, so an unsynchronised shared access is reported by the detector,
// and a panic out of NewJitterTicker / Reset / Stop with valid arguments is a violation by itself.

type TickerRacePlan struct {
	Tickers int `json:"tickers"`
	Resets  int `json:"resets"`
}

func genTickerRace(t *rapid.T) TickerRacePlan {
	return TickerRacePlan{Tickers: rapid.IntRange(2, 6).Draw(t, "tickers"), Resets: rapid.IntRange(200, 2000).Draw(t, "resets")}
}

func runTickerRace(p TickerRacePlan) (vk.Outcome, error) {
	var out vk.Outcome
	var wg sync.WaitGroup
	errs := make([]error, p.Tickers)
	for g := 0; g < p.Tickers; g++ {
		wg.Add(1)
		go func(g int) {
			defer wg.Done()
			panicked, pv := vk.Catch(func() {
				tk := xtime.NewJitterTicker(time.Millisecond, 500*time.Microsecond)
				for i := 0; i < p.Resets; i++ {
					tk.Reset(time.Duration(1+i%3)*time.Millisecond, time.Duration(1+i%7)*100*time.Microsecond)
					select {
					case <-tk.C:
					default:
					}
				}
				tk.Stop()
			})
			if panicked {
				errs[g] = vk.Violf("ticker-domain", "ticker %d of %d operated concurrently: NewJitterTicker/Reset/Stop with valid arguments panicked: %v", g, p.Tickers, pv)
			}
		}(g)
	}
	wg.Wait()
	for _, e := range errs {
		if e != nil {
			return out, e
		}
	}
	out.NonTrivial, out.Execs = true, p.Tickers*p.Resets
	return out, nil
}

func TestTickerRace(t *testing.T) {
	suite.Crashy = true
	vk.Run(t, suite, "ticker-race", 30, genTickerRace, runTickerRace)
	suite.Crashy = false
}
