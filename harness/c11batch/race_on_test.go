//go:build race

package c11batch

// raceBuild: the package is built with the race detector.
const raceBuild = true
