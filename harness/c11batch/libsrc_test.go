package c11batch

import (
	"context"
	"fmt"
	"reflect"
	"testing"
	"testing/synctest"
	"time"

	"github.com/bradenaw/juniper/iterator"
	"github.com/bradenaw/juniper/stream"
	"pgregory.net/rapid"

	"verif/harness/sk"
	"verif/harness/vk"
)

// Batch over the library's OWN streams instead of a recording double: stream.Chan over a channel the script
// feeds (and may leave open for ever), stream.FromIterator over a slice, a Pipe, and a Batch of a Batch. An
// implementation may treat types it knows differently from a stranger's stream; the contract is the same.
// No timing oracle here (the doubles of kind `batch` do that): partition, batch sizes, the end, and Close
// returning at any moment - in particular while the channel behind stream.Chan is still open and idle.

type LibSrcPlan struct {
	Src     string `json:"src"` // chan | chan-open | slice | pipe | batch
	Size    int    `json:"size"`
	N       int    `json:"n"`
	GapsMs  []int  `json:"gaps_ms"` // cycled; ms before each item (chan, pipe)
	Buf     int    `json:"buf"`     // channel / pipe buffer
	Read    int    `json:"read"`    // batches to read before Close; -1 = to the end
	CallMs  int    `json:"call_ms"` // per-call timeout of the consumer (0 = none)
	PauseMs int    `json:"pause_ms"`
}

func genLibSrc(t *rapid.T) LibSrcPlan {
	p := LibSrcPlan{Src: rapid.SampledFrom([]string{"chan", "chan-open", "chan-open", "slice", "pipe", "batch"}).Draw(t, "src"),
		Size: rapid.SampledFrom([]int{1, 2, 3, 8}).Draw(t, "size"), N: rapid.IntRange(0, 20).Draw(t, "n"),
		GapsMs: rapid.SliceOfN(rapid.SampledFrom([]int{0, 0, 0, 300, 1000, 2500}), 1, 5).Draw(t, "gaps"),
		Buf:    rapid.SampledFrom([]int{0, 1, 4}).Draw(t, "buf"), Read: -1,
		CallMs:  rapid.SampledFrom([]int{0, 0, 400, 1500}).Draw(t, "callms"),
		PauseMs: rapid.SampledFrom([]int{0, 0, 500, 3000}).Draw(t, "pause")}
	if p.Src == "chan-open" || rapid.IntRange(0, 2).Draw(t, "early") == 0 {
		p.Read = rapid.IntRange(0, p.N/p.Size+1).Draw(t, "read")
	}
	return p
}

func runLibSrc(p LibSrcPlan) (vk.Outcome, error) {
	var out vk.Outcome
	var verr error
	stuck := ""
	func() {
		defer func() {
			if r := recover(); r != nil {
				stuck = fmt.Sprint(r)
			}
		}()
		synctest.Test(theT, func(t *testing.T) {
			defer func() {
				if r := recover(); r != nil {
					verr = vk.Violf("panic", "panic inside bubble: %v", r)
				}
			}()
			verr = libSrcScript(p, &out)
		})
	}()
	if stuck != "" && verr == nil {
		verr = vk.Violf("stuck", "the bubble did not come to rest (Close never returned, or a goroutine of the library was left behind): %s; plan %s", stuck, vk.Short(p))
	}
	return out, verr
}

func libSrcScript(p LibSrcPlan, out *vk.Outcome) error {
	items := make([]int, p.N)
	for i := range items {
		items[i] = i + 1
	}
	gap := func(i int) time.Duration { return time.Duration(p.GapsMs[i%len(p.GapsMs)]) * time.Millisecond }
	stopFeed := make(chan struct{})
	fed := make(chan struct{})
	var src stream.Stream[int]
	ends := true // the source reports its end after the items
	switch p.Src {
	case "chan", "chan-open":
		ch := make(chan int, p.Buf)
		src = stream.Chan[int](ch)
		ends = p.Src == "chan"
		go func() {
			defer close(fed)
			for i, x := range items {
				if g := gap(i); g > 0 {
					time.Sleep(g)
				}
				select {
				case ch <- x:
				case <-stopFeed:
					return
				}
			}
			if ends {
				close(ch)
			}
		}()
	case "slice":
		src = stream.FromIterator(iterator.Slice(append([]int{}, items...)))
		close(fed)
	case "batch": // a Batch of a Batch, flattened again below
		src = stream.FromIterator(iterator.Slice(append([]int{}, items...)))
		close(fed)
	default: // pipe
		sender, recv := stream.Pipe[int](p.Buf)
		src = recv
		go func() {
			defer close(fed)
			for i, x := range items {
				if g := gap(i); g > 0 {
					time.Sleep(g)
				}
				ctx, cancel := sk.WithCancel(context.Background())
				done := make(chan struct{})
				go func() {
					select {
					case <-stopFeed:
						cancel()
					case <-done:
					}
				}()
				err := sender.Send(ctx, x)
				close(done)
				cancel()
				if err != nil {
					return
				}
			}
			sender.Close(nil)
		}()
	}
	var s stream.Stream[[]int]
	if p.Src == "batch" {
		inner := stream.Batch[int](src, time.Second, 2)
		s = stream.Map(stream.Batch[[]int](inner, time.Second, p.Size), func(_ context.Context, bs [][]int) ([]int, error) {
			var flat []int
			for _, b := range bs {
				if len(b) == 0 || len(b) > 2 {
					return nil, fmt.Errorf("inner batch %v with batchSize 2", b)
				}
				flat = append(flat, b...)
			}
			if len(bs) == 0 || len(bs) > p.Size {
				return nil, fmt.Errorf("outer batch of %d inner batches with batchSize %d", len(bs), p.Size)
			}
			return flat, nil
		})
	} else {
		s = stream.Batch[int](src, time.Second, p.Size)
	}
	var got []int
	batches := 0
	sawEnd := false
	expired := 0
	for p.Read < 0 || batches < p.Read {
		if !ends && len(got) == len(items) {
			break // everything is out and the channel stays open: nothing more will come
		}
		if p.PauseMs > 0 && batches%2 == 1 {
			time.Sleep(time.Duration(p.PauseMs) * time.Millisecond)
		}
		ctx, cancel := context.Background(), context.CancelFunc(func() {})
		if p.CallMs > 0 && expired < 2 {
			ctx, cancel = sk.WithTimeout(ctx, time.Duration(p.CallMs)*time.Millisecond)
		}
		b, err := s.Next(ctx)
		ctxErr := ctx.Err()
		cancel()
		if err == stream.End {
			sawEnd = true
			break
		}
		if err != nil {
			if ctxErr != nil && err == ctxErr {
				expired++
				out.Label("call-expired")
				continue
			}
			return vk.Violf("wrong-error", "Batch over %s: Next returned %v", p.Src, err)
		}
		expired = 0
		batches++
		if len(b) == 0 || (p.Src != "batch" && len(b) > p.Size) {
			return vk.Violf("bad-batch-size", "Batch over %s: batch %v with batchSize %d", p.Src, b, p.Size)
		}
		got = append(got, b...)
		if !reflect.DeepEqual(got, items[:min(len(got), len(items))]) || len(got) > len(items) {
			return vk.Violf("not-a-partition", "Batch over %s of %v: batches so far concatenate to %v", p.Src, items, got)
		}
	}
	if sawEnd && (!ends || len(got) != len(items)) {
		return vk.Violf("lost", "Batch over %s: end reported after %d of %d items (the source ends: %v)", p.Src, len(got), len(items), ends)
	}
	// Close returns - whatever the source is doing (an open, idle channel included)
	done := make(chan struct{})
	go func() { s.Close(); close(done) }()
	tm := time.NewTimer(10 * time.Minute)
	select {
	case <-done:
		tm.Stop()
	case <-tm.C:
		close(stopFeed)
		return vk.Violf("close-never-returns", "Batch over %s: Close has not returned after 10 minutes of fake time (%d of %d items read, source ends: %v)", p.Src, len(got), len(items), ends)
	}
	close(stopFeed)
	<-fed
	out.Label("src=" + p.Src)
	if !sawEnd {
		out.Label("closed-early")
	}
	out.NonTrivial = batches >= 2 || (!sawEnd && len(items) > 0)
	return nil
}

func TestBatchLibSource(t *testing.T) {
	theT = t
	vk.Run(t, suite, "batch-lib-source", 1500, genLibSrc, runLibSrc)
}
