package c11batch

import (
	"context"
	"errors"
	"fmt"
	"math"
	"testing"
	"testing/synctest"
	"time"

	"github.com/bradenaw/juniper/stream"
	"pgregory.net/rapid"

	"verif/harness/sk"
	"verif/harness/vk"
)

var suite = vk.NewSuite("C11")
var theT *testing.T

func TestMain(m *testing.M) { suite.Main(m) }

const defaultMaxWait = time.Second

type COp struct {
	Op      string `json:"op"`                // next | sleep | close | drain
	Timeout int    `json:"timeout,omitempty"` // ms; 0 = no deadline
	Ms      int    `json:"ms,omitempty"`
}

type Plan struct {
	Size    int   `json:"size"`              // batchSize / fullness threshold
	Func    bool  `json:"func,omitempty"`    // use BatchFunc with a generated predicate
	Sizes   []int `json:"sizes,omitempty"`   // BatchFunc: per-batch thresholds, cycled
	FullLat int   `json:"fulllat,omitempty"` // ms of fake latency inside full()
	Gaps    []int `json:"gaps"`              // ms before each item
	EndGap  int   `json:"endgap,omitempty"`
	EndErr  bool  `json:"enderr,omitempty"`
	ErrKind int   `json:"errkind,omitempty"` // 0 plain sentinel, 1 wraps context.Canceled, 2 wraps context.DeadlineExceeded
	Deaf    bool  `json:"deaf,omitempty"`    // the source ignores its context and never ends (it keeps answering)
	// Huge: maxWait is the largest Duration ("never hand out an underfilled batch on time") instead of 1s
	Huge bool `json:"huge,omitempty"`
	// CloseMs: the source's Close takes that long (fake time)
	CloseMs int `json:"close_ms,omitempty"`
	// Long: the source has thousands of items without gaps and the batches are large, so that one stream object
	// goes through hundreds of batches (anything that creeps per batch needs that many to show)
	Long int `json:"long,omitempty"`
	// Scribble: the consumer, which owns every batch it was handed, appends to it and overwrites its spare capacity
	Scribble bool  `json:"scribble,omitempty"`
	// Busy: a producer that is always ahead (200 items without gaps), a predicate that takes FullLat per item and
	// never says "full", a consumer that waits from the start: the batcher always has another item to take, and
	// still owes the waiting consumer the underfilled batch once it is overdue
	Busy     bool  `json:"busy,omitempty"`
	Consumer []COp `json:"consumer"`
}

var gapChoices = []int{0, 0, 0, 333, 1000, 3000}

func genPlan(t *rapid.T) Plan {
	p := Plan{Size: rapid.SampledFrom([]int{1, 2, 3, 8, 2, 3, math.MaxInt}).Draw(t, "size")} // MaxInt: "batch on time only"
	p.Func = rapid.IntRange(0, 3).Draw(t, "func") == 0
	if p.Func {
		p.Sizes = rapid.SliceOfN(rapid.IntRange(1, 4), 1, 3).Draw(t, "sizes")
		p.FullLat = rapid.SampledFrom([]int{0, 0, 200, 700, 1500}).Draw(t, "fulllat")
	}
	n := rapid.IntRange(0, 30).Draw(t, "n")
	for i := 0; i < n; i++ {
		p.Gaps = append(p.Gaps, rapid.SampledFrom(gapChoices).Draw(t, "gap"))
	}
	p.EndGap = rapid.SampledFrom(gapChoices).Draw(t, "endgap")
	p.EndErr = rapid.IntRange(0, 3).Draw(t, "enderr") == 0
	p.ErrKind = rapid.IntRange(0, 3).Draw(t, "errkind")
	m := rapid.IntRange(0, 25).Draw(t, "m")
	for i := 0; i < m; i++ {
		o := COp{Op: rapid.SampledFrom([]string{"next", "next", "next", "next", "sleep", "sleep"}).Draw(t, "op")}
		if o.Op == "next" {
			o.Timeout = rapid.SampledFrom([]int{0, 0, 500, 1000, 2000, 1}).Draw(t, "timeout")
		} else {
			o.Ms = rapid.SampledFrom([]int{0, 333, 1000, 2500, 5000}).Draw(t, "ms")
		}
		p.Consumer = append(p.Consumer, o)
	}
	p.CloseMs = rapid.SampledFrom([]int{0, 0, 0, 2, 700}).Draw(t, "closems")
	if rapid.IntRange(0, 149).Draw(t, "long") == 0 {
		p.Long = rapid.IntRange(6000, 14000).Draw(t, "longn")
		p.Size = rapid.SampledFrom([]int{24, 32, 50}).Draw(t, "longsize")
		p.Func, p.Gaps, p.EndGap = false, nil, 0
		p.Consumer = nil
	}
	p.Huge = rapid.IntRange(0, 7).Draw(t, "huge") == 0
	p.Scribble = rapid.Bool().Draw(t, "scribble")
	p.Deaf = rapid.IntRange(0, 5).Draw(t, "deaf") == 0
	if p.Deaf {
		p.EndErr = false
		if p.Size == math.MaxInt {
			p.Huge = false // an endless source, no size limit and no time limit: no batch would ever be due
		}
	}
	if p.Deaf || rapid.IntRange(0, 2).Draw(t, "closeearly") == 0 {
		p.Consumer = append(p.Consumer, COp{Op: "close"})
	} else {
		p.Consumer = append(p.Consumer, COp{Op: "drain"})
	}
	if p.Long > 0 {
		p.Deaf, p.Huge = false, false
		p.Consumer = []COp{{Op: "drain"}}
	}
	if p.Long == 0 && !raceBuild && rapid.IntRange(0, 39).Draw(t, "busy") == 0 {
		p.Busy, p.Func, p.Sizes, p.Size = true, true, []int{1000}, 3
		p.FullLat = rapid.SampledFrom([]int{200, 700}).Draw(t, "busylat")
		p.Gaps = make([]int, 200)
		p.Deaf, p.Huge, p.EndGap = false, false, 0
		p.Consumer = []COp{{Op: "drain"}}
	}
	return p
}

type nextRec struct {
	tc, T   time.Time
	batch   []int
	err     error
	timeout time.Duration
}

func run(p Plan) (out vk.Outcome, verr error) {
	if p.Size < 1 {
		return out, fmt.Errorf("bad plan")
	}
	var stuck string
	func() {
		defer func() {
			if r := recover(); r != nil {
				stuck = fmt.Sprint(r)
			}
		}()
		synctest.Test(theT, func(t *testing.T) {
			defer func() {
				if r := recover(); r != nil {
					verr = vk.Violf("panic", "panic inside bubble: %v", r)
				}
			}()
			verr = script(p, &out)
		})
	}()
	if stuck != "" && verr == nil {
		verr = vk.Violf("stuck", "the bubble did not come to rest (Close never returned, or a goroutine was left behind): %s; plan %s", stuck, vk.Short(p))
	}
	return out, verr
}

func script(p Plan, out *vk.Outcome) error {
	maxWait := defaultMaxWait
	if p.Huge {
		maxWait = time.Duration(math.MaxInt64)
		out.Label("maxwait-never")
	}
	n := len(p.Gaps)
	if p.Long > 0 {
		n = p.Long
	}
	items := make([]int, n)
	gaps := make([]time.Duration, n)
	for i := range items {
		items[i] = i + 1
		if i < len(p.Gaps) {
			gaps[i] = time.Duration(p.Gaps[i]) * time.Millisecond
		}
	}
	src := sk.NewRecStream("src", items)
	src.Gaps = gaps
	src.CloseDelay = time.Duration(p.CloseMs) * time.Millisecond
	src.EndGap = time.Duration(p.EndGap) * time.Millisecond
	E := sk.NewSentinel("E")
	switch p.ErrKind { // a source may fail, for reasons of its own, with an error that wraps a context error
	case 1:
		E = fmt.Errorf("source: upstream call failed: %w", context.Canceled)
	case 2:
		E = fmt.Errorf("source: upstream call failed: %w", context.DeadlineExceeded)
	case 3: // ... or the end marker: a failure all the same, not the end of the source
		E = fmt.Errorf("source: truncated record: %w", stream.End)
	}
	if p.EndErr {
		src.FinalAt, src.Final = n, E
	}
	if p.Deaf {
		src.Deaf, src.More, src.MoreGap = true, func(pos int) int { return pos + 1 }, 7*time.Millisecond
	}
	// BatchFunc predicate: batch k (0-based) is full at Sizes[k % len] items; the harness knows k
	// because batches are formed sequentially.
	var proper [][]int // every slice full() said "not full" for
	var s stream.Stream[[]int]
	threshold := func(first int) int { // threshold of the batch whose first item is `first`
		if !p.Func {
			return p.Size
		}
		return p.Sizes[(first-1)%len(p.Sizes)]
	}
	if p.Func {
		s = stream.BatchFunc[int](src, maxWait, func(b []int) bool {
			if p.FullLat > 0 {
				time.Sleep(time.Duration(p.FullLat) * time.Millisecond)
			}
			full := len(b) >= threshold(b[0])
			if !full {
				proper = append(proper, append([]int{}, b...))
			}
			return full
		})
	} else {
		s = stream.Batch[int](src, maxWait, p.Size)
	}
	var recs []nextRec
	firstCaps := 0
	var lastDelivery time.Time
	delivered := 0
	var final error
	closed := false
	timerBatch, closeWhileHolding, secondWaiter := false, false, false
	lastCancelled := false

	// closeBounded: Close must return; the source keeps answering, so 10 fake minutes are ample.
	closeBounded := func() error {
		done := make(chan struct{})
		go func() { s.Close(); close(done) }()
		tm := time.NewTimer(10 * time.Minute)
		defer tm.Stop()
		select {
		case <-done:
			return nil
		case <-tm.C:
			return vk.Violf("close-never-returns", "Close has not returned after 10 minutes of fake time although the source answers every call (deaf=%v)", p.Deaf)
		}
	}
	doNext := func(timeout time.Duration) error {
		ctx := context.Background()
		cancel := func() {}
		if timeout > 0 {
			ctx, cancel = sk.WithTimeout(ctx, timeout)
		}
		r := nextRec{tc: time.Now(), timeout: timeout}
		b, err := s.Next(ctx)
		r.T = time.Now()
		cancel()
		r.batch, r.err = b, err
		recs = append(recs, r)
		what := fmt.Sprintf("Next #%d (called at +%v, timeout %v, returned at +%v)", len(recs), r.tc.Sub(recs[0].tc), timeout, r.T.Sub(recs[0].tc))
		if err != nil {
			if p.EndErr && err == E { // the source's own error (it may itself wrap a context error)
				final = err
				return nil
			}
			if timeout > 0 && errors.Is(err, context.DeadlineExceeded) {
				if r.T.Sub(r.tc) < timeout {
					return vk.Violf("ctx", "%s: returned the context's error before its deadline", what)
				}
				lastCancelled = true
				return nil
			}
			final = err
			return nil
		}
		if lastCancelled {
			secondWaiter = true
		}
		lastCancelled = false
		// clause 1: non-empty, exactly the next undelivered items
		if len(b) == 0 {
			return vk.Violf("empty-batch", "%s returned an empty batch", what)
		}
		for i, x := range b {
			if x != delivered+i+1 {
				return vk.Violf("lost-or-duplicated", "%s returned %v, expected the items starting at %d", what, b, delivered+1)
			}
		}
		if len(recs) <= 8 && cap(b) > firstCaps {
			firstCaps = cap(b)
		}
		if len(recs) > 100 && len(b) >= 16 && cap(b) > 8*firstCaps && cap(b) > 8*len(b) {
			return vk.Violf("capacity-creep", "%s: a batch of %d items arrives in a slice of capacity %d; the first batches of this stream (same size) had capacity <= %d: the spare capacity grows from batch to batch and will exhaust memory", what, len(b), cap(b), firstCaps)
		}
		first := delivered + 1
		delivered += len(b)
		// clause 2
		th := threshold(first)
		if len(b) > th {
			return vk.Violf("oversized", "%s returned %v, more than the %d items that make it full", what, b, th)
		}
		hand := src.HandTimes()
		h := hand[first-1]
		ended, endAt := src.EndSeen()
		under := len(b) < th
		if under && !(ended && !endAt.After(r.T)) {
			// clause 3: an underfilled batch leaves only after its oldest item waited maxWait
			if r.T.Sub(h) < maxWait {
				return vk.Violf("early-underfilled", "%s returned the underfilled batch %v only %v after its oldest item arrived (maxWait %v, source not ended)", what, b, r.T.Sub(h), maxWait)
			}
			timerBatch = true
		}
		// clause 4: not held back (zero-latency predicate, live context throughout)
		if p.FullLat == 0 && !p.Huge && (timeout == 0 || r.T.Sub(r.tc) < timeout) {
			// arrival of the oldest item at the batcher: when the source handed it over, or - if the batcher was
			// then still blocked handing the previous batch to the consumer - when that batch was taken
			arrival := h
			if lastDelivery.After(arrival) {
				arrival = lastDelivery
			}
			due := arrival.Add(maxWait) // from then on a waiting consumer must get it
			if r.tc.After(due) {
				due = r.tc
			}
			if r.T.After(due) {
				return vk.Violf("held-back", "%s: batch %v handed out %v after it was due (oldest item arrived at +%v, maxWait %v, consumer waiting since +%v)",
					what, b, r.T.Sub(due), arrival.Sub(recs[0].tc), maxWait, r.tc.Sub(recs[0].tc))
			}
		}
		// ... and with a slow predicate: the timer may fire while the batcher is inside full(), and when it comes
		// back to its select the next item may win against the timer and the waiting consumer - again and again,
		// but each time with probability <= 1/2 (three arms are ready, one of them continues): 40 rounds in a row
		// do not happen (2^-40)
		if p.FullLat > 0 && !p.Huge && (timeout == 0 || r.T.Sub(r.tc) < timeout) && len(b) < threshold(b[0]) {
			arrival := h
			if lastDelivery.After(arrival) {
				arrival = lastDelivery
			}
			due := arrival.Add(maxWait)
			if r.tc.After(due) {
				due = r.tc
			}
			// (a batch that was not yet due when the source ended leaves because of the end, whenever that is noticed)
			if late := r.T.Sub(due); late > 41*time.Duration(p.FullLat)*time.Millisecond && !(ended && endAt.Before(due)) {
				return vk.Violf("held-back", "%s: underfilled batch of %d items handed out %v after it was due (oldest item arrived at +%v, maxWait %v, consumer waiting since +%v; the predicate takes %d ms per item)",
					what, len(b), late, arrival.Sub(recs[0].tc), maxWait, r.tc.Sub(recs[0].tc), p.FullLat)
			}
		}
		lastDelivery = r.T
		if p.Scribble {
			// the batch now belongs to the consumer, spare capacity included
			full := b[:cap(b)]
			for i := range full {
				full[i] = -7
			}
			_ = append(b, -7)
		}
		return nil
	}

	for _, o := range p.Consumer {
		if final != nil || closed {
			break
		}
		switch o.Op {
		case "next":
			if err := doNext(time.Duration(o.Timeout) * time.Millisecond); err != nil {
				return err
			}
		case "sleep":
			time.Sleep(time.Duration(o.Ms) * time.Millisecond)
		case "drain":
			for i := 0; final == nil && i < n+5 && !p.Deaf; i++ {
				if err := doNext(0); err != nil {
					return err
				}
			}
		case "close":
			synctest.Wait()
			if src.Handed() > delivered {
				closeWhileHolding = true
			}
			if err := closeBounded(); err != nil {
				return err
			}
			closed = true
		}
	}
	if !closed {
		if final == nil { // the script ended without reading to the end: close now
			synctest.Wait()
			if src.Handed() > delivered {
				closeWhileHolding = true
			}
		}
		if err := closeBounded(); err != nil {
			return err
		}
	}
	// clause 7: Close has returned; the source is closed exactly once
	if err := src.Ownership(); err != nil {
		return vk.Violf("ownership", "after Close returned: %v", err)
	}
	// clause 6 and read-to-the-end
	if final != nil {
		if p.EndErr {
			if final != E {
				return vk.Violf("wrong-error", "source failed with E after %d items, consumer got %v", n, final)
			}
		} else if final != stream.End {
			return vk.Violf("spurious-error", "consumer got %v from a source that ends normally", final)
		}
		if delivered != n {
			return vk.Violf("lost-or-duplicated", "stream finished with %v after %d of %d items", final, delivered, n)
		}
	}
	// clause 2 for BatchFunc: the predicate said "not full" for every proper prefix it was shown;
	// check that every delivered batch's proper prefixes were among them (or the batch left by timer/end).
	if timerBatch {
		out.Label("underfilled-by-timer")
	}
	if closeWhileHolding {
		out.Label("close-while-holding")
	}
	if secondWaiter {
		out.Label("waiter-after-cancelled-waiter")
	}
	if p.Func {
		out.Label("BatchFunc")
	}
	if p.Deaf {
		out.Label("deaf-endless-source")
	}
	if p.FullLat > 0 {
		out.Label("slow-predicate")
	}
	if p.EndErr && final != nil {
		out.Label("source-error-seen")
	}
	_ = proper
	out.NonTrivial = timerBatch || closeWhileHolding || secondWaiter
	return nil
}

func runReps(p Plan) (vk.Outcome, error) {
	if p.Busy && raceBuild {
		// Not under the race detector: go1.26.8's runtime itself dies now and then (SIGSEGV in
		// runtime.(*timer).maybeRunChan, goroutine 0) when a bubble's timer fires while the goroutine that
		// selects on it is busy, in -race builds only - twice in three thorough runs with these plans, never
		// without them. The plans run in the ordinary build.
		var out vk.Outcome
		out.Label("busy-plan-skipped-under-race")
		return out, nil
	}
	reps := vk.Reps(3, 10)
	if p.Long > 0 {
		reps = vk.Reps(3, 2) // (thousands of items per execution: ten repetitions of these made the thorough tier take an hour)
	}
	var out vk.Outcome
	for i := 0; i < reps; i++ {
		o, err := run(p)
		if err != nil {
			return o, err
		}
		for _, l := range o.Labels {
			out.Label(l)
		}
		out.NonTrivial = out.NonTrivial || o.NonTrivial
	}
	out.Execs = reps
	return out, nil
}

func TestBatch(t *testing.T) {
	theT = t
	vk.Run(t, suite, "batch", 4000, genPlan, runReps)
}
