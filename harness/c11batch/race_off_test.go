//go:build !race

package c11batch

const raceBuild = false
