package c05heap

import (
	"fmt"
	"testing"
	"time"

	"github.com/bradenaw/juniper/container/xheap"
	"pgregory.net/rapid"

	"verif/harness/vk"
)

var suite = vk.NewSuite("C05")

func TestMain(m *testing.M) { suite.HangLimit = 60 * time.Second; suite.Main(m) }

// Elem is ordered by Pri only; ID makes ties distinguishable to the oracle but not to the heap.
type Elem struct {
	Pri int `json:"p"`
	ID  int `json:"id"`
}

// orders on priorities (three-way).
var orders = map[string]func(a, b int) int{
	"nat":    func(a, b int) int { return sgn(a - b) },
	"rev":    func(a, b int) int { return sgn(b - a) },
	"coarse": func(a, b int) int { return sgn(fdiv(a, 3) - fdiv(b, 3)) },
}
var orderNames = []string{"nat", "rev", "coarse"}

func fdiv(a, b int) int {
	q := a / b
	if a%b != 0 && (a < 0) != (b < 0) {
		q--
	}
	return q
}

func sgn(x int) int {
	if x < 0 {
		return -1
	}
	if x > 0 {
		return 1
	}
	return 0
}

type HOp struct {
	Op  string `json:"op"` // Push Pop Peek Len Grow Shrink Iterate PopN PushN
	Pri int    `json:"pri,omitempty"`
	N   int    `json:"n,omitempty"`
}

type HeapPlan struct {
	Order   string `json:"order"`
	Cmp     bool   `json:"cmp"`
	Initial []int  `json:"initial"`
	Ops     []HOp  `json:"ops"`
}

func genPri(t *rapid.T, wide bool) int {
	if wide {
		return rapid.IntRange(-1000, 1000).Draw(t, "pri")
	}
	return rapid.IntRange(0, 5).Draw(t, "pri")
}

func genHeapPlan(t *rapid.T) HeapPlan {
	wide := rapid.IntRange(0, 3).Draw(t, "wide") == 0
	p := HeapPlan{Order: rapid.SampledFrom(orderNames).Draw(t, "order"), Cmp: rapid.Bool().Draw(t, "cmp")}
	ni := rapid.SampledFrom([]int{0, 0, 1, 2, 3, 7, 8, 15, 40}).Draw(t, "ninit")
	for i := 0; i < ni; i++ {
		p.Initial = append(p.Initial, genPri(t, wide))
	}
	n := rapid.IntRange(1, 60).Draw(t, "nops")
	for i := 0; i < n; i++ {
		o := HOp{Op: rapid.SampledFrom([]string{"Push", "Push", "Push", "Pop", "Pop", "Peek", "Len", "Grow", "Shrink", "Iterate", "PopN", "PushN"}).Draw(t, "op")}
		switch o.Op {
		case "Push":
			o.Pri = genPri(t, wide)
		case "Grow", "Shrink":
			o.N = rapid.IntRange(0, 20).Draw(t, "n")
			if rapid.IntRange(0, 3).Draw(t, "bign") == 0 { // room for hundreds or thousands (a bulk load is announced)
				o.N = rapid.SampledFrom([]int{255, 256, 300, 1024, 5000}).Draw(t, "nbig")
			}
		case "PopN":
			o.N = rapid.IntRange(1, 12).Draw(t, "n")
		case "PushN":
			o.N = rapid.IntRange(1, 12).Draw(t, "n")
			o.Pri = genPri(t, wide)
		}
		p.Ops = append(p.Ops, o)
	}
	if rapid.IntRange(0, 24).Draw(t, "bulk") == 0 { // one plan in 25 goes through thousands of items somewhere
		at := rapid.IntRange(0, len(p.Ops)).Draw(t, "bulkat")
		b := HOp{Op: "Bulk", N: rapid.IntRange(0, 3999).Draw(t, "bulkn"), Pri: rapid.IntRange(0, 99).Draw(t, "bulkseed")}
		p.Ops = append(p.Ops[:at], append([]HOp{b}, p.Ops[at:]...)...)
	}
	return p
}

func runHeap(p HeapPlan) (vk.Outcome, error) {
	var out vk.Outcome
	ord := orders[p.Order]
	if ord == nil {
		return out, fmt.Errorf("bad order")
	}
	model := map[int]int{} // id -> pri
	nextID := 0
	var initial []Elem
	for _, pr := range p.Initial {
		nextID++
		initial = append(initial, Elem{pr, nextID})
		model[nextID] = pr
	}
	var h xheap.Heap[Elem]
	if p.Cmp {
		h = xheap.NewCmp(func(a, b Elem) int { return 7 * ord(a.Pri, b.Pri) }, initial)
	} else {
		h = xheap.New(func(a, b Elem) bool { return ord(a.Pri, b.Pri) < 0 }, initial)
	}
	h2 := h // copies denote the same heap
	isMin := func(e Elem) error {
		pr, ok := model[e.ID]
		if !ok || pr != e.Pri {
			return vk.Violf("not-held", "returned %+v which the heap does not hold", e)
		}
		for id, q := range model {
			if ord(q, e.Pri) < 0 {
				return vk.Violf("not-minimum", "returned %+v although held item {%d %d} is less", e, q, id)
			}
		}
		return nil
	}
	ties := func() bool {
		seen := map[int]bool{}
		for _, q := range model {
			if seen[q] {
				return true
			}
			seen[q] = true
		}
		return false
	}
	pop := func(step int) error {
		if len(model) == 0 {
			if pn, _ := vk.Catch(func() { h.Pop() }); !pn {
				return vk.Violf("nopanic", "step %d: Pop on empty heap did not panic", step)
			}
			if pn, _ := vk.Catch(func() { h.Peek() }); !pn {
				return vk.Violf("nopanic", "step %d: Peek on empty heap did not panic", step)
			}
			out.Label("pop-empty")
			return nil
		}
		if ties() {
			out.Label("pop-with-ties")
		}
		e := h.Pop()
		if err := isMin(e); err != nil {
			return fmt.Errorf("step %d Pop: %w", step, err)
		}
		delete(model, e.ID)
		return nil
	}
	phase := 0 // 0: nothing, 1: popped, 2: pushed after pop, 3: popped after that
	for i, o := range p.Ops {
		switch o.Op {
		case "Push":
			nextID++
			h2.Push(Elem{o.Pri, nextID})
			model[nextID] = o.Pri
			if phase == 1 {
				phase = 2
			}
		case "Bulk":
			// thousands of items, then drained again (storage policies change with size): every popped item is
			// held, and the drain comes out in non-decreasing order
			n := 1100 + o.N%4000
			x := o.Pri*7919 + 13
			for j := 0; j < n; j++ {
				x = (x*1103515245 + 12345) & 0x7fffffff
				nextID++
				pr := (x >> 8) % 1000
				h.Push(Elem{pr, nextID})
				model[nextID] = pr
			}
			if h.Len() != len(model) {
				return out, vk.Violf("len", "step %d: after a bulk push Len()=%d model %d", i, h.Len(), len(model))
			}
			var prev *Elem
			for len(model) > n%50 {
				e := h.Pop()
				if pr, ok := model[e.ID]; !ok || pr != e.Pri {
					return out, vk.Violf("not-held", "step %d: bulk drain returned %+v which the heap does not hold (%d items left)", i, e, len(model))
				}
				delete(model, e.ID)
				if prev != nil && ord(e.Pri, prev.Pri) < 0 {
					return out, vk.Violf("drain-order", "step %d: bulk drain returned priority %d after %d (%d items left)", i, e.Pri, prev.Pri, len(model))
				}
				ee := e
				prev = &ee
				if h.Len() != len(model) {
					return out, vk.Violf("len", "step %d: during the bulk drain Len()=%d model %d", i, h.Len(), len(model))
				}
			}
			out.Label("bulk>1000")
		case "PushN":
			for j := 0; j < o.N; j++ {
				nextID++
				h.Push(Elem{o.Pri + j%3, nextID})
				model[nextID] = o.Pri + j%3
			}
			if phase == 1 {
				phase = 2
			}
		case "Pop":
			nonEmpty := len(model) > 0
			if err := pop(i); err != nil {
				return out, err
			}
			if nonEmpty {
				if phase == 0 {
					phase = 1
				} else if phase == 2 {
					phase = 3
				}
			}
		case "PopN":
			for j := 0; j < o.N; j++ {
				nonEmpty := len(model) > 0
				if err := pop(i); err != nil {
					return out, err
				}
				if nonEmpty {
					if phase == 0 {
						phase = 1
					} else if phase == 2 {
						phase = 3
					}
				}
			}
		case "Peek":
			if len(model) > 0 {
				if err := isMin(h2.Peek()); err != nil {
					return out, fmt.Errorf("step %d Peek: %w", i, err)
				}
			}
		case "Grow":
			h.Grow(o.N)
		case "Shrink":
			h2.Shrink(o.N)
		case "Iterate":
			seen := map[int]bool{}
			it := h.Iterate()
			for {
				e, ok := it.Next()
				if !ok {
					break
				}
				if pr, held := model[e.ID]; !held || pr != e.Pri || seen[e.ID] {
					return out, vk.Violf("iterate", "step %d: Iterate yields %+v (held=%v, repeated=%v)", i, e, held, seen[e.ID])
				}
				seen[e.ID] = true
			}
			if len(seen) != len(model) {
				return out, vk.Violf("iterate", "step %d: Iterate yields %d of %d items", i, len(seen), len(model))
			}
		}
		if h.Len() != len(model) || h2.Len() != len(model) {
			return out, vk.Violf("len", "step %d %v: Len()=%d model %d", i, o, h.Len(), len(model))
		}
		if len(model) > 0 {
			if err := isMin(h.Peek()); err != nil {
				return out, fmt.Errorf("after step %d %v: Peek: %w", i, o, err)
			}
		}
	}
	// final drain: non-decreasing, exactly the remaining multiset.
	var prev *Elem
	for len(model) > 0 {
		e := h.Pop()
		if err := isMin(e); err != nil {
			return out, fmt.Errorf("final drain: %w", err)
		}
		if prev != nil && ord(e.Pri, prev.Pri) < 0 {
			return out, vk.Violf("drain-order", "drain returned %+v after %+v", e, *prev)
		}
		delete(model, e.ID)
		ee := e
		prev = &ee
	}
	if h.Len() != 0 {
		return out, vk.Violf("len", "heap not empty after draining the model: %d", h.Len())
	}
	out.NonTrivial = phase == 3
	out.Label("order:" + p.Order)
	return out, nil
}

func TestHeap(t *testing.T) {
	vk.Run(t, suite, "heap", 6000, genHeapPlan, runHeap)
}

// ---------------------------------------------------------------------------------------------
// PriorityQueue

type KeySel struct {
	Mode string `json:"m"` // new | pos | abs
	Pos  string `json:"pos,omitempty"`
	Arg  int    `json:"a,omitempty"`
}

type QOp struct {
	Op  string `json:"op"` // Update Remove Pop Peek Contains Priority Len Iterate Grow PopN
	Key KeySel `json:"key,omitempty"`
	Rel string `json:"rel,omitempty"` // lower equal higher abs
	Pri int    `json:"pri,omitempty"`
	N   int    `json:"n,omitempty"`
}

type KPi struct {
	K int `json:"k"`
	P int `json:"p"`
}

type QueuePlan struct {
	Order    string `json:"order"`
	Cmp      bool   `json:"cmp"`
	Universe int    `json:"universe"`
	PType    string `json:"ptype,omitempty"` // "" = int priorities, "slice" = []int priorities (not comparable with ==)
	Initial  []KPi  `json:"initial"`
	Ops      []QOp  `json:"ops"`
}

var posClasses = []string{"root", "last", "inner", "leaf", "any"}

func genKeySel(t *rapid.T) KeySel {
	switch rapid.IntRange(0, 5).Draw(t, "selmode") {
	case 0:
		return KeySel{Mode: "new", Arg: rapid.IntRange(0, 100).Draw(t, "arg")}
	case 1:
		return KeySel{Mode: "abs", Arg: rapid.IntRange(0, 100).Draw(t, "arg")}
	default:
		return KeySel{Mode: "pos", Pos: rapid.SampledFrom(posClasses).Draw(t, "pos"), Arg: rapid.IntRange(0, 100).Draw(t, "arg")}
	}
}

func genQueuePlan(t *rapid.T) QueuePlan {
	wide := rapid.IntRange(0, 3).Draw(t, "wide") == 0
	p := QueuePlan{Order: rapid.SampledFrom(orderNames).Draw(t, "order"), Cmp: rapid.Bool().Draw(t, "cmp"),
		Universe: rapid.SampledFrom([]int{1, 2, 3, 8, 16, 24}).Draw(t, "universe")}
	ni := rapid.SampledFrom([]int{0, 1, 2, 5, 12, 30}).Draw(t, "ninit")
	for i := 0; i < ni; i++ {
		p.Initial = append(p.Initial, KPi{K: rapid.IntRange(0, p.Universe-1).Draw(t, "ik"), P: genPri(t, wide)})
	}
	n := rapid.IntRange(1, 60).Draw(t, "nops")
	for i := 0; i < n; i++ {
		o := QOp{Op: rapid.SampledFrom([]string{"Update", "Update", "Update", "Update", "Remove", "Remove", "Pop", "Pop", "PopN", "Peek", "Contains", "Priority", "Len", "Iterate", "Grow"}).Draw(t, "op")}
		switch o.Op {
		case "Update":
			o.Key = genKeySel(t)
			o.Rel = rapid.SampledFrom([]string{"lower", "equal", "higher", "abs", "lower", "higher"}).Draw(t, "rel")
			o.Pri = genPri(t, wide)
			o.N = rapid.IntRange(1, 4).Draw(t, "delta")
		case "Remove", "Contains", "Priority":
			o.Key = genKeySel(t)
		case "PopN":
			o.N = rapid.IntRange(2, 6).Draw(t, "n")
		case "Grow":
			o.N = rapid.IntRange(0, 30).Draw(t, "n")
			if rapid.IntRange(0, 2).Draw(t, "bign") == 0 { // room for hundreds or thousands (a bulk load is announced)
				o.N = rapid.SampledFrom([]int{255, 256, 300, 1024, 5000}).Draw(t, "nbig")
			}
		}
		p.Ops = append(p.Ops, o)
	}
	if rapid.IntRange(0, 3).Draw(t, "ptype") == 0 {
		p.PType = "slice"
	}
	if rapid.IntRange(0, 24).Draw(t, "bulk") == 0 {
		at := rapid.IntRange(0, len(p.Ops)).Draw(t, "bulkat")
		b := QOp{Op: "Bulk", N: rapid.IntRange(0, 3999).Draw(t, "bulkn"), Pri: rapid.IntRange(0, 99).Draw(t, "bulkseed")}
		p.Ops = append(p.Ops[:at], append([]QOp{b}, p.Ops[at:]...)...)
	}
	return p
}

// qrun is generic over the priority type: int, or a one-element []int (a type that == cannot
// compare, ordered through its element; the zero value nil counts as 0).
type qrun[P any] struct {
	q        xheap.PriorityQueue[int, P]
	mkP      func(int) P
	unP      func(P) int
	model    map[int]int
	ord      func(a, b int) int
	universe int
	out      vk.Outcome
}

// arrayOrder returns the keys in heap-array order (Iterate on an unmodified queue).
func (r *qrun[P]) arrayOrder() []int {
	var ks []int
	it := r.q.Iterate()
	for {
		k, ok := it.Next()
		if !ok {
			return ks
		}
		ks = append(ks, k)
		if len(ks) > len(r.model)+5 {
			return ks
		}
	}
}

func (r *qrun[P]) resolve(s KeySel) (key int, class string) {
	switch s.Mode {
	case "new":
		for d := 0; d < r.universe; d++ {
			k := (s.Arg + d) % r.universe // keys 0..universe-1: the zero value is an ordinary key
			if _, ok := r.model[k]; !ok {
				return k, "new"
			}
		}
		return r.universe + 1 + s.Arg%3, "new" // universe full: a key outside it
	case "pos":
		ks := r.arrayOrder()
		n := len(ks)
		if n == 0 {
			return s.Arg % r.universe, "new"
		}
		lastInner := (n - 2) / 2 // last index with a child
		switch s.Pos {
		case "root":
			return ks[0], "root"
		case "last":
			return ks[n-1], "last"
		case "inner":
			if lastInner >= 1 {
				return ks[1+s.Arg%lastInner], "inner"
			}
		case "leaf":
			if lo := lastInner + 1; lo < n-1 && lo >= 1 {
				return ks[lo+s.Arg%(n-1-lo)], "leaf"
			}
		}
		return ks[s.Arg%n], "any"
	}
	k := s.Arg % r.universe
	if _, ok := r.model[k]; ok {
		return k, "any"
	}
	return k, "absent"
}

func (r *qrun[P]) minimal(k int) error {
	p, ok := r.model[k]
	if !ok {
		return vk.Violf("not-held", "returned key %d which is not in the queue", k)
	}
	for k2, p2 := range r.model {
		if r.ord(p2, p) < 0 {
			return vk.Violf("not-minimum", "returned key %d (priority %d) although key %d has priority %d", k, p, k2, p2)
		}
	}
	return nil
}

func (r *qrun[P]) observe(what string) error {
	if r.q.Len() != len(r.model) {
		return vk.Violf("len", "%s: Len()=%d model %d", what, r.q.Len(), len(r.model))
	}
	for k := -1; k <= r.universe+4; k++ {
		p, ok := r.model[k]
		if got := r.q.Contains(k); got != ok {
			return vk.Violf("contains", "%s: Contains(%d)=%v want %v", what, k, got, ok)
		}
		if got := r.unP(r.q.Priority(k)); got != p {
			return vk.Violf("priority", "%s: Priority(%d)=%d want %d (present=%v)", what, k, got, p, ok)
		}
	}
	if len(r.model) > 0 {
		if err := r.minimal(r.q.Peek()); err != nil {
			return fmt.Errorf("%s: Peek: %w", what, err)
		}
	} else if pn, _ := vk.Catch(func() { r.q.Peek() }); !pn {
		return vk.Violf("nopanic", "%s: Peek on empty queue did not panic", what)
	}
	seen := map[int]bool{}
	for _, k := range r.arrayOrder() {
		if _, ok := r.model[k]; !ok || seen[k] {
			return vk.Violf("iterate", "%s: Iterate yields key %d (present=%v repeated=%v)", what, k, ok, seen[k])
		}
		seen[k] = true
	}
	if len(seen) != len(r.model) {
		return vk.Violf("iterate", "%s: Iterate yields %d of %d keys", what, len(seen), len(r.model))
	}
	return nil
}

func (r *qrun[P]) hasTie() bool {
	seen := map[int]bool{}
	for _, p := range r.model {
		if seen[p] {
			return true
		}
		seen[p] = true
	}
	return false
}

func runQueue(p QueuePlan) (vk.Outcome, error) {
	if p.PType == "slice" {
		return runQueueT[[]int](p, func(x int) []int { return []int{x} }, func(s []int) int {
			if len(s) == 0 {
				return 0
			}
			return s[0]
		})
	}
	return runQueueT[int](p, func(x int) int { return x }, func(x int) int { return x })
}

func runQueueT[P any](p QueuePlan, mkP func(int) P, unP func(P) int) (vk.Outcome, error) {
	r := &qrun[P]{model: map[int]int{}, ord: orders[p.Order], universe: p.Universe, mkP: mkP, unP: unP}
	if r.ord == nil || p.Universe < 1 {
		return r.out, fmt.Errorf("bad plan")
	}
	listed := map[int][]int{}
	var initial []xheap.KP[int, P]
	for _, kp := range p.Initial {
		initial = append(initial, xheap.KP[int, P]{K: kp.K, P: mkP(kp.P)})
		listed[kp.K] = append(listed[kp.K], kp.P)
	}
	if p.Cmp {
		r.q = xheap.NewPriorityQueueCmp[int, P](func(a, b P) int { return 5 * r.ord(unP(a), unP(b)) }, initial)
	} else {
		r.q = xheap.NewPriorityQueue[int, P](func(a, b P) bool { return r.ord(unP(a), unP(b)) < 0 }, initial)
	}
	// duplicates: each distinct key once, with one of its listed priorities (which one is not documented).
	if r.q.Len() != len(listed) {
		return r.out, vk.Violf("initial-dedup", "queue built from %d entries with %d distinct keys has Len %d", len(p.Initial), len(listed), r.q.Len())
	}
	for k, ps := range listed {
		if len(ps) > 1 {
			r.out.Label("initial-duplicates")
		}
		if !r.q.Contains(k) {
			return r.out, vk.Violf("initial-dedup", "initial key %d missing", k)
		}
		got := unP(r.q.Priority(k))
		ok := false
		for _, x := range ps {
			if x == got {
				ok = true
			}
		}
		if !ok {
			return r.out, vk.Violf("initial-dedup", "initial key %d has priority %d, listed %v", k, got, ps)
		}
		r.model[k] = got
	}
	if err := r.observe("after construction"); err != nil {
		return r.out, err
	}
	q2 := r.q
	midTouched, popsAfter, tieSeen := false, 0, false
	pop := func(what string) error {
		if len(r.model) == 0 {
			if pn, _ := vk.Catch(func() { r.q.Pop() }); !pn {
				return vk.Violf("nopanic", "%s: Pop on empty queue did not panic", what)
			}
			r.out.Label("pop-empty")
			return nil
		}
		if r.hasTie() {
			tieSeen = true
		}
		k := q2.Pop()
		if err := r.minimal(k); err != nil {
			return fmt.Errorf("%s: Pop: %w", what, err)
		}
		delete(r.model, k)
		if midTouched {
			popsAfter++
		}
		return nil
	}
	for i, o := range p.Ops {
		what := fmt.Sprintf("step %d %s", i, vk.Short(o))
		switch o.Op {
		case "Update":
			k, class := r.resolve(o.Key)
			pri := o.Pri
			if cur, ok := r.model[k]; ok {
				switch o.Rel {
				case "lower":
					pri = cur - o.N
				case "equal":
					pri = cur
				case "higher":
					pri = cur + o.N
				}
				if p.Order == "rev" && o.Rel != "abs" {
					pri = 2*cur - pri
				}
				r.out.Label("update-" + class + "-" + o.Rel)
				if class == "inner" || class == "leaf" {
					midTouched, popsAfter = true, 0
				}
			} else {
				r.out.Label("update-new")
			}
			r.q.Update(k, mkP(pri))
			r.model[k] = pri
		case "Remove":
			k, class := r.resolve(o.Key)
			r.out.Label("remove-" + class)
			if _, ok := r.model[k]; ok && (class == "inner" || class == "leaf") {
				midTouched, popsAfter = true, 0
			}
			q2.Remove(k)
			delete(r.model, k)
		case "Pop":
			if err := pop(what); err != nil {
				return r.out, err
			}
		case "PopN":
			for j := 0; j < o.N; j++ {
				if err := pop(what); err != nil {
					return r.out, err
				}
			}
		case "Bulk":
			// thousands of keys, then popped again: every popped key is held with the priority it was given, the
			// drain is in non-decreasing priority order, lookups of a few of the bulk keys are right on the way
			n := 1100 + o.N%4000
			x := o.Pri*7919 + 13
			for j := 0; j < n; j++ {
				x = (x*1103515245 + 12345) & 0x7fffffff
				k := 100000 + j
				pr := (x >> 8) % 1000
				r.q.Update(k, mkP(pr))
				r.model[k] = pr
			}
			if r.q.Len() != len(r.model) {
				return r.out, vk.Violf("len", "%s: after a bulk insert Len()=%d model %d", what, r.q.Len(), len(r.model))
			}
			havePrev, prev := false, 0
			for j := 0; len(r.model) > n%50; j++ {
				k := r.q.Pop()
				pr, ok := r.model[k]
				if !ok {
					return r.out, vk.Violf("not-held", "%s: bulk drain returned key %d which the queue does not hold (%d keys left)", what, k, len(r.model))
				}
				delete(r.model, k)
				if havePrev && r.ord(pr, prev) < 0 {
					return r.out, vk.Violf("drain-order", "%s: bulk drain returned priority %d after %d (%d keys left)", what, pr, prev, len(r.model))
				}
				havePrev, prev = true, pr
				if r.q.Contains(k) || r.q.Len() != len(r.model) {
					return r.out, vk.Violf("len", "%s: during the bulk drain: Contains(popped key %d)=%v Len()=%d model %d", what, k, r.q.Contains(k), r.q.Len(), len(r.model))
				}
				if probe := 100000 + (j*37)%n; j%64 == 0 {
					mp, held := r.model[probe]
					if r.q.Contains(probe) != held || (held && unP(r.q.Priority(probe)) != mp) {
						return r.out, vk.Violf("lookup", "%s: during the bulk drain key %d: Contains=%v Priority=%v, model %v %d", what, probe, r.q.Contains(probe), r.q.Priority(probe), held, mp)
					}
				}
			}
			for k := range r.model { // what is left of the bulk goes away too: the observation below only looks at the small universe
				if k >= 100000 {
					r.q.Remove(k)
					delete(r.model, k)
				}
			}
			r.out.Label("bulk>1000")
		case "Grow":
			r.q.Grow(o.N)
		case "Contains", "Priority":
			k, _ := r.resolve(o.Key)
			pr, ok := r.model[k]
			if r.q.Contains(k) != ok || unP(r.q.Priority(k)) != pr {
				return r.out, vk.Violf("lookup", "%s: key %d Contains=%v Priority=%v, model %v %d", what, k, r.q.Contains(k), r.q.Priority(k), ok, pr)
			}
		}
		if err := r.observe(what); err != nil {
			return r.out, err
		}
		if midTouched && popsAfter >= 2 && tieSeen {
			r.out.NonTrivial = true
		}
	}
	// final drain in non-decreasing priority order
	var prev *int
	for len(r.model) > 0 {
		k := r.q.Pop()
		if err := r.minimal(k); err != nil {
			return r.out, fmt.Errorf("final drain: %w", err)
		}
		pr := r.model[k]
		if prev != nil && r.ord(pr, *prev) < 0 {
			return r.out, vk.Violf("drain-order", "drain returned priority %d after %d", pr, *prev)
		}
		prev = &pr
		delete(r.model, k)
	}
	if err := r.observe("after drain"); err != nil {
		return r.out, err
	}
	r.out.Label("order:" + p.Order)
	return r.out, nil
}

func TestQueue(t *testing.T) {
	vk.Run(t, suite, "queue", 10000, genQueuePlan, runQueue)
}
