package c05heap

import (
	"math"
	"sort"
	"testing"

	"github.com/bradenaw/juniper/container/xheap"
	"pgregory.net/rapid"

	"verif/harness/vk"
)

// queue-nan-keys: a PriorityQueue with float64 keys, some of them NaN - a key that is not equal to itself.
// Such a key can be put in (every Update inserts another entry, as with a Go map) but never be found again:
// Contains is false, Remove and Update cannot address it, only Pop takes it out. The queue still is "a
// multiset with minimum extraction" over all of its entries: Len counts them, Pop / Peek hand out an entry
// of minimal priority and Pop removes exactly one.

type NaNPlan struct {
	Ops []NaNOp `json:"ops"`
}
type NaNOp struct {
	Op string `json:"op"` // update | updatenan | remove | removenan | pop | peek
	K  int    `json:"k"`
	P  int    `json:"p"`
}

func genNaN(t *rapid.T) NaNPlan {
	var p NaNPlan
	n := rapid.IntRange(1, 40).Draw(t, "n")
	for i := 0; i < n; i++ {
		p.Ops = append(p.Ops, NaNOp{Op: rapid.SampledFrom([]string{"update", "updatenan", "updatenan", "remove", "removenan", "pop", "pop", "peek"}).Draw(t, "op"),
			K: rapid.IntRange(0, 5).Draw(t, "k"), P: rapid.IntRange(0, 6).Draw(t, "p")})
	}
	return p
}

func runNaN(p NaNPlan) (vk.Outcome, error) {
	var out vk.Outcome
	q := xheap.NewPriorityQueue[float64, int](func(a, b int) bool { return a < b }, nil)
	named := map[float64]int{}
	var anon []int // priorities of the NaN entries
	sawNaNPop := false
	minPrio := func() int {
		m := math.MaxInt
		for _, v := range named {
			if v < m {
				m = v
			}
		}
		for _, v := range anon {
			if v < m {
				m = v
			}
		}
		return m
	}
	for i, o := range p.Ops {
		total := len(named) + len(anon)
		switch o.Op {
		case "update":
			q.Update(float64(o.K), o.P)
			named[float64(o.K)] = o.P
		case "updatenan":
			q.Update(math.NaN(), o.P)
			anon = append(anon, o.P)
		case "remove":
			q.Remove(float64(o.K))
			delete(named, float64(o.K))
		case "removenan":
			q.Remove(math.NaN()) // cannot address anything
		case "pop", "peek":
			if total == 0 {
				if panicked, _ := vk.Catch(func() { q.Pop() }); !panicked {
					return out, vk.Violf("no-panic", "step %d: Pop on an empty queue did not panic", i)
				}
				continue
			}
			var k float64
			if o.Op == "peek" {
				k = q.Peek()
			} else {
				k = q.Pop()
			}
			want := minPrio()
			if k != k {
				sort.Ints(anon)
				if len(anon) == 0 || anon[0] != want {
					return out, vk.Violf("not-minimal", "step %d: %s returned a NaN key; the minimal priority %d belongs to another entry (NaN entries hold %v)", i, o.Op, want, anon)
				}
				if o.Op == "pop" {
					anon = anon[1:]
					sawNaNPop = true
				}
			} else {
				pr, ok := named[k]
				if !ok || pr != want {
					return out, vk.Violf("not-minimal", "step %d: %s returned key %v (held: %v, priority %d), minimal priority is %d", i, o.Op, k, ok, pr, want)
				}
				if o.Op == "pop" {
					delete(named, k)
				}
			}
		}
		if got, want := q.Len(), len(named)+len(anon); got != want {
			return out, vk.Violf("len", "step %d (%s): Len() = %d, the queue holds %d entries (%d of them under NaN keys)", i, o.Op, got, want, len(anon))
		}
		if q.Contains(math.NaN()) {
			return out, vk.Violf("contains", "step %d: Contains(NaN) is true", i)
		}
		for k := 0; k <= 5; k++ {
			_, held := named[float64(k)]
			if q.Contains(float64(k)) != held {
				return out, vk.Violf("contains", "step %d: Contains(%d) = %v, want %v", i, k, !held, held)
			}
		}
	}
	// drain: everything comes out, in non-decreasing order of priority
	for n := len(named) + len(anon); n > 0; n-- {
		if q.Len() != n {
			return out, vk.Violf("len", "drain: Len() = %d with %d entries left", q.Len(), n)
		}
		q.Pop()
	}
	if q.Len() != 0 {
		return out, vk.Violf("len", "drained: Len() = %d", q.Len())
	}
	out.NonTrivial = sawNaNPop
	return out, nil
}

func TestQueueNaNKeys(t *testing.T) {
	vk.Run(t, suite, "queue-nan-keys", 1500, genNaN, runNaN)
}
