package c05heap

import (
	"fmt"
	"testing"

	"github.com/bradenaw/juniper/container/xheap"
	"pgregory.net/rapid"

	"verif/harness/vk"
)

// queue-huge / heap-huge: one queue that holds tens of thousands of keys at once (beyond 2^16), is then
// taken down to a fraction of its peak by Remove and Pop in generated proportions, refilled a little, and
// drained. The model is a plain map; it is compared in full (Len, Contains and Priority of every key ever
// used) at every phase boundary and, cheaply (Len + the touched key), after every single call.

type HugeQPlan struct {
	Peak     int `json:"peak"`      // keys held at once
	Floor    int `json:"floor"`     // keys left after the shrinking phase
	PopEvery int `json:"pop_every"` // every n-th deletion is a Pop, the others are Removes; 0 = Removes only
	Stride   int `json:"stride"`    // Removes walk the key space with this stride
	Refill   int `json:"refill"`
	Ties     int `json:"ties"` // priorities are key % Ties (many ties) when > 0
}

func genHugeQ(t *rapid.T) HugeQPlan {
	p := HugeQPlan{Peak: rapid.SampledFrom([]int{40000, 65536, 65537, 70000, 140000}).Draw(t, "peak"),
		PopEvery: rapid.SampledFrom([]int{0, 0, 2, 7}).Draw(t, "popevery"), Stride: rapid.SampledFrom([]int{1, 7919, 104729}).Draw(t, "stride"),
		Refill: rapid.SampledFrom([]int{0, 100, 5000}).Draw(t, "refill"), Ties: rapid.SampledFrom([]int{0, 0, 5, 1000}).Draw(t, "ties")}
	p.Floor = p.Peak / rapid.SampledFrom([]int{3, 4, 5, 16, 64}).Draw(t, "floordiv")
	return p
}

func runHugeQ(p HugeQPlan) (vk.Outcome, error) {
	var out vk.Outcome
	prio := func(k int) int {
		if p.Ties > 0 {
			return k % p.Ties
		}
		return (k * 7919) % 1000003
	}
	q := xheap.NewPriorityQueue[int, int](func(a, b int) bool { return a < b }, nil)
	model := map[int]int{}
	universe := p.Peak + p.Refill
	full := func(phase string) error {
		if q.Len() != len(model) {
			return vk.Violf("len", "%s: Len() = %d, %d keys held", phase, q.Len(), len(model))
		}
		for k := 0; k < universe; k++ {
			want, present := model[k]
			if q.Contains(k) != present {
				return vk.Violf("contains", "%s: Contains(%d) = %v, want %v (%d keys held, peak %d)", phase, k, !present, present, len(model), p.Peak)
			}
			if present {
				if got := q.Priority(k); got != want {
					return vk.Violf("priority", "%s: Priority(%d) = %d, want %d (%d keys held, peak %d)", phase, k, got, want, len(model), p.Peak)
				}
			}
		}
		return nil
	}
	for k := 0; k < p.Peak; k++ {
		q.Update(k, prio(k))
		model[k] = prio(k)
	}
	if err := full("at the peak"); err != nil {
		return out, err
	}
	k, deletions := 0, 0
	for len(model) > p.Floor {
		deletions++
		if p.PopEvery > 0 && deletions%p.PopEvery == 0 {
			got := q.Pop()
			want, ok := model[got]
			if !ok {
				return out, vk.Violf("pop", "Pop returned key %d, which is not held (%d keys held, peak %d)", got, len(model), p.Peak)
			}
			_ = want
			delete(model, got)
		} else {
			for {
				k = (k + p.Stride) % p.Peak
				if _, ok := model[k]; ok {
					break
				}
			}
			q.Remove(k)
			delete(model, k)
			if q.Contains(k) {
				return out, vk.Violf("contains", "Contains(%d) is true right after Remove(%d) (%d keys held, peak %d)", k, k, len(model), p.Peak)
			}
		}
		if q.Len() != len(model) {
			return out, vk.Violf("len", "after deletion #%d: Len() = %d, %d keys held", deletions, q.Len(), len(model))
		}
	}
	if err := full(fmt.Sprintf("after shrinking to %d of %d", p.Floor, p.Peak)); err != nil {
		return out, err
	}
	for i := 0; i < p.Refill; i++ {
		key := p.Peak + i
		q.Update(key, prio(key))
		model[key] = prio(key)
	}
	if p.Refill > 0 {
		if err := full("after the refill"); err != nil {
			return out, err
		}
	}
	last := -1
	for len(model) > 0 {
		got := q.Pop()
		pr, ok := model[got]
		if !ok {
			return out, vk.Violf("pop", "drain: Pop returned key %d, which is not held", got)
		}
		if pr < last {
			return out, vk.Violf("order", "drain: Pop returned key %d with priority %d after priority %d", got, pr, last)
		}
		last = pr
		delete(model, got)
	}
	if q.Len() != 0 {
		return out, vk.Violf("len", "drained: Len() = %d", q.Len())
	}
	out.NonTrivial = true
	out.Label(fmt.Sprintf("huge:peak=%d", p.Peak))
	return out, nil
}

func TestQueueHuge(t *testing.T) {
	vk.Run(t, suite, "queue-huge", 8, genHugeQ, runHugeQ)
}
