//go:debug panicnil=1

// Package c18old runs xsync.Lazy the way a program does whose main module says go 1.20 or older (as juniper's
// own go.mod does): there panic(nil) - typically panic(err) with a nil err - is not turned into a
// *runtime.PanicNilError, and recover() returns nil for it. A wrapper that asks recover() whether something
// went wrong gets the wrong answer; "Lazy runs its function once" holds all the same.
package c18old

import (
	"sync"
	"sync/atomic"
	"testing"

	"github.com/bradenaw/juniper/xsync"
	"pgregory.net/rapid"

	"verif/harness/vk"
)

var suite = vk.NewSuite("C18")

func TestMain(m *testing.M) { suite.Main(m) }

type Plan struct {
	Callers int  `json:"callers"`
	Later   int  `json:"later"`
	NilErr  bool `json:"nil_err"` // panic(err) with a nil error (else the untyped nil)
}

func genPlan(t *rapid.T) Plan {
	return Plan{Callers: rapid.IntRange(1, 6).Draw(t, "callers"), Later: rapid.IntRange(1, 3).Draw(t, "later"), NilErr: rapid.Bool().Draw(t, "nilerr")}
}

func run(p Plan) (vk.Outcome, error) {
	var out vk.Outcome
	var runs atomic.Int32
	lazy := xsync.Lazy(func() int {
		runs.Add(1)
		if p.NilErr {
			var err error
			panic(err)
		}
		panic(nil)
	})
	// access reports whether the call returned normally
	access := func() (returned bool, v int) {
		defer func() { recover() }()
		v = lazy()
		return true, v
	}
	var wg sync.WaitGroup
	var returned atomic.Int32
	gate := make(chan struct{})
	for i := 0; i < p.Callers; i++ {
		wg.Add(1)
		go func() {
			defer wg.Done()
			<-gate
			if ok, _ := access(); ok {
				returned.Add(1)
			}
		}()
	}
	close(gate)
	wg.Wait()
	for i := 0; i < p.Later; i++ {
		if ok, _ := access(); ok {
			returned.Add(1)
		}
	}
	if n := runs.Load(); n != 1 {
		return out, vk.Violf("lazy-runs", "f (which panics with a nil value) ran %d times for %d concurrent and %d later callers", n, p.Callers, p.Later)
	}
	if n := returned.Load(); n != 0 {
		return out, vk.Violf("lazy-value", "f's only run panicked (with a nil value); %d accesses returned a value all the same", n)
	}
	out.NonTrivial = p.Callers >= 2
	return out, nil
}

func TestLazyPanicNil(t *testing.T) {
	vk.Run(t, suite, "lazy-panic-nil", 300, genPlan, run)
}
