// Package faultkit runs one stream combinator (or reducer, or short pipeline) over instrumented
// sources with one injected fault and one consumer behaviour, and records what the consumer saw
// and what every source saw. C08 (faults surface intact, resumable) and C09 (close exactly once)
// judge the same executions with different oracles.
package faultkit

import (
	"context"
	"errors"
	"fmt"
	"math/rand"
	"sync/atomic"
	"time"

	"github.com/bradenaw/juniper/parallel"
	"github.com/bradenaw/juniper/stream"
	"github.com/bradenaw/juniper/xmath/xrand"

	"verif/harness/sk"
)

const U = 8

// Fault describes the injected fault.
//
//	none
//	final            the source fails with E (sticky) once P items have been handed out
//	callback         the P-th invocation (0-based) of the user callback returns E
//	transient        one transient error before item P is handed out, then normal service
//	transient2       transient errors before items P and P2 (P2 >= P; equal = two in a row)
//	transient-final  a transient error before item P, final error E once P2 items are out
//	ctx              the consumer's P-th call (0-based) is made with an already-cancelled context
//	ctxt             the consumer's P-th call is made with a context that expires P2 ms (fake time) later
type Fault struct {
	Kind  string `json:"kind"`
	P     int    `json:"p"`
	P2    int    `json:"p2,omitempty"`
	Outer bool   `json:"outer,omitempty"` // Flatten: positions refer to the outer stream
}

type Case struct {
	Comb    string   `json:"comb"`
	Pre     []string `json:"pre,omitempty"` // stages between the source and Comb
	Input   []int    `json:"in"`
	N       int      `json:"n,omitempty"`
	Mask    int      `json:"mask,omitempty"`
	Classes []int    `json:"classes,omitempty"`
	Split   []int    `json:"split,omitempty"` // cut points for Flatten / Join / FlattenSlices
	Fault   Fault    `json:"fault"`
	Stop    int      `json:"stop"` // responses after which the consumer closes; -1 = to the end
	// bubble-only knobs (goroutine-backed combinators)
	SrcGapMs int    `json:"srcgap,omitempty"`
	EndGapMs int    `json:"endgap,omitempty"`
	CloseMs  int    `json:"closems,omitempty"` // how long every source's Close takes (bubble only)
	PaceMs   int    `json:"pace,omitempty"`
	Latency  string `json:"latency,omitempty"` // MapStream: "", "desc", "head"
	Par      int    `json:"par,omitempty"`
	Buf      int    `json:"buf,omitempty"`
	// LaxSources: the sources answer a call whose context has already ended like any other call (an in-memory
	// source need not look at its context); the combinator then sees items and End arrive under an ended context.
	LaxSources bool `json:"lax_sources,omitempty"`
	// EWraps: the error E that the source / callback fails with also wraps a context error
	// (1 = context.Canceled, 2 = context.DeadlineExceeded, 3 = stream.End) - an upstream call of its own timed out, say.
	// It is still E and has to surface as E.
	EWraps int `json:"ewraps,omitempty"`
}

// CtxWrap is an error of the source's own that also wraps a context error.
type CtxWrap struct{ Own, Ctx error }

func (e *CtxWrap) Error() string   { return e.Own.Error() + ": " + e.Ctx.Error() }
func (e *CtxWrap) Unwrap() []error { return []error{e.Own, e.Ctx} }

// MkE builds the case's terminal error.
func MkE(c Case) error {
	switch c.EWraps {
	case 1:
		return &CtxWrap{sk.NewSentinel("E"), context.Canceled}
	case 2:
		return &CtxWrap{sk.NewSentinel("E"), context.DeadlineExceeded}
	case 3: // ... or the end marker (a decoder that ran out of input in the middle of a record): a failure, not the end
		return &CtxWrap{sk.NewSentinel("E"), stream.End}
	}
	return sk.NewSentinel("E")
}

// Response is one consumer-visible step.
type Response struct {
	Items    []int
	Complete bool // Items form a complete response (chunk, run, batch, single item)
	Err      error
}

type Subject interface {
	Next(ctx context.Context) Response
	Close()
}

// Source is what the ownership oracle needs from every stream handed to the library.
type Source struct {
	Name      string
	Ownership func() error
	Given     func() bool // false for inner streams the library never obtained
}

type Result struct {
	Case       Case
	Responses  []Response
	Delivered  []int   // concatenation of all delivered items
	Groups     [][]int // completed multi-item responses
	Final      error   // End, the terminal error, or nil if the consumer stopped early
	AfterFinal error   // for a terminal error: what one more call returned (nil if not made)
	AfterEnd   error   // set if a call made after End did not report End again (C07's business; recorded, not judged here)
	Sources    []Source
	E          error   // the final-error sentinel of this run
	Transients []error // the transient sentinels, in script order
	CtxErr     error
	Reached    bool // the final/callback fault was actually triggered
	Reducer    bool
	Resumed    int     // failing calls the consumer recovered from
	AtClose    []error // ownership problems observed at the instant Close / the reducer returned
	FirstFault error   // the earliest scripted fault that a source or callback actually produced
}

// Env carries the per-run fault state shared by sources and callbacks.
type Env struct {
	c         Case
	E         error
	T1, T2    error
	cbCalls   atomic.Int64
	cbFailed  atomic.Bool
	sources   []Source
	finalHit  func() bool
	srcGap    time.Duration
	recs      []*sk.RecStream[int]
	finalSeen []func() bool
	faultLogs []func() []sk.FaultEvent
	cbSeq     atomic.Int64
}

// A failing callback returns its error together with an ordinary-looking value (like `n, err :=
// strconv.Atoi(s); return n%2 == 0, err`): the value means nothing then, only the error counts.
func (e *Env) keep(ctx context.Context, x int) (bool, error) {
	if err := e.cb(); err != nil {
		return x%2 == 0, err
	}
	return e.c.Mask&(1<<uint(x%U)) != 0, nil
}

func (e *Env) mapf(ctx context.Context, x int) (int, error) {
	if err := e.cb(); err != nil {
		return MapF(x), err
	}
	return MapF(x), nil
}

func MapF(x int) int { return (x*3 + 1) % 11 }

func (e *Env) cb() error {
	i := int(e.cbCalls.Add(1)) - 1
	if e.c.Fault.Kind == "callback" && i == e.c.Fault.P {
		e.cbFailed.Store(true)
		e.cbSeq.Store(sk.Tick())
		return e.E
	}
	return nil
}

func (e *Env) same(a, b int) bool { return e.c.Classes[a%U] == e.c.Classes[b%U] }

// script applies the fault (positions local to this stream) to a recording stream.
func script[T any](e *Env, r *sk.RecStream[T], p, p2 int) {
	f := e.c.Fault
	switch f.Kind {
	case "final":
		r.FinalAt, r.Final = p, e.E
	case "transient":
		r.Transient = map[int][]error{p: {e.T1}}
	case "transient2":
		if p2 == p {
			r.Transient = map[int][]error{p: {e.T1, e.T2}}
		} else {
			r.Transient = map[int][]error{p: {e.T1}, p2: {e.T2}}
		}
	case "transient-final":
		r.Transient = map[int][]error{p: {e.T1}}
		r.FinalAt, r.Final = p2, e.E
	}
}

func addSource[T any](e *Env, r *sk.RecStream[T], given func() bool) {
	if given == nil {
		given = func() bool { return true }
	}
	e.sources = append(e.sources, Source{Name: r.Name, Ownership: r.Ownership, Given: given})
	e.faultLogs = append(e.faultLogs, r.Faults)
	e.finalSeen = append(e.finalSeen, func() bool {
		for _, fe := range r.Faults() {
			if fe.Err == e.E {
				return true
			}
		}
		return false
	})
}

func gaps(n int, d time.Duration) []time.Duration {
	if d == 0 {
		return nil
	}
	g := make([]time.Duration, n)
	for i := range g {
		g[i] = d
	}
	return g
}

// mainSource builds the single int source with the fault applied.
func (e *Env) mainSource() *sk.RecStream[int] {
	r := sk.NewRecStream("src", e.c.Input)
	r.IgnoreCtx = e.c.LaxSources
	r.Gaps = gaps(len(e.c.Input), e.srcGap)
	r.EndGap = e.srcGap + time.Duration(e.c.EndGapMs)*time.Millisecond
	r.CloseDelay = time.Duration(e.c.CloseMs) * time.Millisecond
	script(e, r, e.c.Fault.P, e.c.Fault.P2)
	addSource(e, r, nil)
	e.recs = append(e.recs, r)
	return r
}

// Nest cuts Input at the Split points.
func Nest(c Case) [][]int {
	var out [][]int
	prev := 0
	for _, s := range c.Split {
		if s < prev {
			s = prev
		}
		if s > len(c.Input) {
			s = len(c.Input)
		}
		out = append(out, c.Input[prev:s])
		prev = s
	}
	out = append(out, c.Input[prev:])
	return out
}

// nestSources builds one recording stream per inner sequence; the fault lands in the inner that
// holds global position P (P == total: at the end of the last inner).
func (e *Env) nestSources(applyFault bool) []*sk.RecStream[int] {
	nest := Nest(e.c)
	var out []*sk.RecStream[int]
	off := 0
	placed, placed2 := false, false
	f := e.c.Fault
	for i, in := range nest {
		r := sk.NewRecStream(fmt.Sprintf("inner%d", i), in)
		r.IgnoreCtx = e.c.LaxSources
		last := i == len(nest)-1
		if applyFault {
			lp, lp2 := -1, -1
			if !placed && (f.P < off+len(in) || last) && f.P >= off {
				lp = f.P - off
				placed = true
			}
			if !placed2 && (f.P2 < off+len(in) || last) && f.P2 >= off {
				lp2 = f.P2 - off
				placed2 = true
			}
			switch f.Kind {
			case "final":
				if lp >= 0 {
					r.FinalAt, r.Final = lp, e.E
				}
			case "transient":
				if lp >= 0 {
					r.Transient = map[int][]error{lp: {e.T1}}
				}
			case "transient2":
				r.Transient = map[int][]error{}
				if lp >= 0 {
					r.Transient[lp] = append(r.Transient[lp], e.T1)
				}
				if lp2 >= 0 {
					r.Transient[lp2] = append(r.Transient[lp2], e.T2)
				}
			case "transient-final":
				if lp >= 0 {
					r.Transient = map[int][]error{lp: {e.T1}}
				}
				if lp2 >= 0 {
					r.FinalAt, r.Final = lp2, e.E
				}
			}
		}
		off += len(in)
		out = append(out, r)
		e.recs = append(e.recs, r)
	}
	return out
}

// ---------------------------------------------------------------------------------------------
// subjects

type itemStream struct {
	s stream.Stream[int]
}

func (a itemStream) Next(ctx context.Context) Response {
	x, err := a.s.Next(ctx)
	if err != nil {
		return Response{Err: err}
	}
	return Response{Items: []int{x}, Complete: true}
}
func (a itemStream) Close() { a.s.Close() }

type groupStream struct {
	s     stream.Stream[[]int]
	owned *[][]int // every group handed out so far (they belong to the consumer)
}

func (a groupStream) Next(ctx context.Context) Response {
	// The groups received so far belong to the consumer, spare capacity included: a consumer that appends to
	// them or recycles them - at any later time, also between a failed call and its retry - must not be able
	// to disturb anything the stream hands out afterwards.
	if a.owned != nil {
		for _, g := range *a.owned {
			full := g[:cap(g)]
			for i := range full {
				full[i] = -7
			}
		}
	}
	x, err := a.s.Next(ctx)
	if err != nil {
		return Response{Err: err}
	}
	if a.owned != nil {
		*a.owned = append(*a.owned, x)
	}
	return Response{Items: append([]int{}, x...), Complete: true}
}
func (a groupStream) Close() { a.s.Close() }

// runsSubject drains each run; an interrupted run is continued on the next call (the consumer
// re-issues the call that failed, it does not skip ahead).
type runsSubject struct {
	outer   stream.Stream[stream.Stream[int]]
	inner   stream.Stream[int]
	partial []int
	// innerLast: a run the consumer still holds when it stops is closed after the outer stream (else before)
	innerLast bool
}

// closeRuns closes the outer stream of a Runs and the run the consumer still holds, in either order.
func closeRuns(outer stream.Stream[stream.Stream[int]], inner stream.Stream[int], innerLast bool) {
	if inner != nil && !innerLast {
		inner.Close()
	}
	outer.Close()
	if inner != nil && innerLast {
		inner.Close()
	}
}

func (a *runsSubject) Next(ctx context.Context) Response {
	if a.inner == nil {
		in, err := a.outer.Next(ctx)
		if err != nil {
			return Response{Err: err}
		}
		a.inner = in
		a.partial = nil
	}
	var fresh []int
	for {
		x, err := a.inner.Next(ctx)
		if err == stream.End {
			a.inner = nil
			all := append(append([]int{}, a.partial...), fresh...)
			_ = all
			return Response{Items: fresh, Complete: true}
		}
		if err != nil {
			a.partial = append(a.partial, fresh...)
			return Response{Items: fresh, Err: err}
		}
		fresh = append(fresh, x)
		if len(fresh) > 1000 {
			return Response{Items: fresh, Err: errors.New("harness: run longer than 1000")}
		}
	}
}
func (a *runsSubject) Close() { closeRuns(a.outer, a.inner, a.innerLast) }

// runsSkipSubject reads only the first item of every run and then moves on: the outer stream has to
// skip the unread rest of the run itself (and must cope with a failure while doing so).
type runsSkipSubject struct {
	outer     stream.Stream[stream.Stream[int]]
	inner     stream.Stream[int]
	held      stream.Stream[int] // the run that was abandoned last (never closed by the consumer so far)
	innerLast bool
}

func (a *runsSkipSubject) Next(ctx context.Context) Response {
	if a.inner == nil {
		in, err := a.outer.Next(ctx)
		if err != nil {
			return Response{Err: err}
		}
		a.inner = in
	}
	x, err := a.inner.Next(ctx)
	if err != nil {
		if err == stream.End {
			a.inner = nil
			return Response{Err: errors.New("harness: a run without a first item")}
		}
		return Response{Err: err} // the consumer re-issues this call
	}
	a.held, a.inner = a.inner, nil // abandon the rest of the run
	return Response{Items: []int{x}, Complete: true}
}
func (a *runsSkipSubject) Close() {
	in := a.inner
	if in == nil {
		in = a.held // closing a run that has been abandoned long ago is as good as never closing it
	}
	closeRuns(a.outer, in, a.innerLast)
}

// peekSubject peeks before every Next; the peeked value must equal what Next then returns.
type peekSubject struct {
	p      stream.Peekable[int]
	peeked bool
	val    int
	bad    error
	sawEnd bool
}

func (a *peekSubject) Next(ctx context.Context) Response {
	if a.sawEnd { // after Peek has reported the end: Next is asked directly (as a reducer handed this stream would)
		x, err := a.p.Next(ctx)
		if err != nil {
			return Response{Err: err}
		}
		return Response{Items: []int{x}, Complete: true}
	}
	if !a.peeked {
		v, err := a.p.Peek(ctx)
		if err != nil {
			a.sawEnd = err == stream.End
			return Response{Err: err}
		}
		a.peeked, a.val = true, v
		// a second Peek must agree and cost nothing
		if v2, err2 := a.p.Peek(ctx); err2 != nil || v2 != v {
			a.bad = fmt.Errorf("second Peek = %d,%v after %d", v2, err2, v)
		}
	}
	x, err := a.p.Next(ctx)
	if err != nil {
		return Response{Err: err}
	}
	if x != a.val && a.bad == nil {
		a.bad = fmt.Errorf("Next returned %d after Peek showed %d", x, a.val)
	}
	a.peeked = false
	if a.bad != nil {
		return Response{Err: a.bad}
	}
	return Response{Items: []int{x}, Complete: true}
}
func (a *peekSubject) Close() { a.p.Close() }

// reducerSubject runs a reducer once.
type reducerSubject struct {
	run  func(ctx context.Context) ([]int, error)
	done bool
	cl   func()
}

func (a *reducerSubject) Next(ctx context.Context) Response {
	if a.done {
		return Response{Err: stream.End}
	}
	a.done = true
	out, err := a.run(ctx)
	if err != nil {
		return Response{Err: err}
	}
	return Response{Items: out, Complete: true}
}
func (a *reducerSubject) Close() {
	if a.cl != nil {
		a.cl()
	}
}

var Streaming = []string{"WithPeek", "Chunk", "Compact", "CompactFunc", "Filter", "First", "Flatten", "FlattenSlices", "Join", "Map", "Runs", "RunsSkip", "While"}
var Reducers = []string{"Collect", "Last", "One", "Reduce", "SampleStream"}
var Background = []string{"Batch", "Merge1", "MapStream", "PipeChain"}
var PreStages = []string{"Map", "Filter", "Compact", "ChunkFlatten", "First"}

func IsReducer(comb string) bool {
	for _, r := range Reducers {
		if r == comb {
			return true
		}
	}
	return false
}

func IsBackground(comb string) bool {
	for _, r := range Background {
		if r == comb {
			return true
		}
	}
	return false
}

func HasCallback(comb string) bool {
	switch comb {
	case "Filter", "Map", "While", "Reduce", "MapStream":
		return true
	}
	return false
}

// pre wraps the source in the pre-stages (their callbacks never fail).
func (e *Env) pre(s stream.Stream[int]) stream.Stream[int] {
	for _, st := range e.c.Pre {
		switch st {
		case "Map":
			s = stream.Map(s, func(_ context.Context, x int) (int, error) { return MapF(x) % U, nil })
		case "Filter":
			s = stream.Filter(s, func(_ context.Context, x int) (bool, error) { return x%3 != 0, nil })
		case "Compact":
			s = stream.Compact(s)
		case "ChunkFlatten":
			s = stream.FlattenSlices(stream.Chunk(s, 2))
		case "First":
			s = stream.First(s, 5)
		}
	}
	return s
}

// RefPre applies the pre-stages to a plain slice.
func RefPre(c Case, in []int) []int {
	out := append([]int{}, in...)
	for _, st := range c.Pre {
		var nx []int
		switch st {
		case "Map":
			for _, x := range out {
				nx = append(nx, MapF(x)%U)
			}
		case "Filter":
			for _, x := range out {
				if x%3 != 0 {
					nx = append(nx, x)
				}
			}
		case "Compact":
			for i, x := range out {
				if i == 0 || out[i-1] != x {
					nx = append(nx, x)
				}
			}
		case "First":
			for i, x := range out {
				if i < 5 {
					nx = append(nx, x)
				}
			}
		default:
			nx = out
		}
		out = nx
	}
	return out
}

// Ref is the fault-free reference: the flattened outputs and the groups (for grouping combinators).
func Ref(c Case) (flat []int, groups [][]int) {
	in := RefPre(c, c.Input)
	keep := func(x int) bool { return c.Mask&(1<<uint(x%U)) != 0 }
	same := func(a, b int) bool { return c.Classes[a%U] == c.Classes[b%U] }
	switch c.Comb {
	case "Map", "MapStream":
		for _, x := range in {
			flat = append(flat, MapF(x))
		}
	case "Filter":
		for _, x := range in {
			if keep(x) {
				flat = append(flat, x)
			}
		}
	case "First":
		for i, x := range in {
			if i < c.N {
				flat = append(flat, x)
			}
		}
	case "While":
		for _, x := range in {
			if !keep(x) {
				break
			}
			flat = append(flat, x)
		}
	case "Compact":
		for i, x := range in {
			if i == 0 || in[i-1] != x {
				flat = append(flat, x)
			}
		}
	case "CompactFunc":
		for i, x := range in {
			if i == 0 || !same(in[i-1], x) {
				flat = append(flat, x)
			}
		}
	case "Chunk":
		for i := 0; i < len(in); i += c.N {
			end := i + c.N
			if end > len(in) {
				end = len(in)
			}
			groups = append(groups, in[i:end])
		}
		flat = in
	case "Runs":
		for i := 0; i < len(in); {
			j := i + 1
			for j < len(in) && same(in[i], in[j]) {
				j++
			}
			groups = append(groups, in[i:j])
			i = j
		}
		flat = in
	case "RunsSkip":
		for i := 0; i < len(in); {
			j := i + 1
			for j < len(in) && same(in[i], in[j]) {
				j++
			}
			flat = append(flat, in[i])
			i = j
		}
	case "Last":
		n := c.N
		if n > len(in) {
			n = len(in)
		}
		flat = in[len(in)-n:]
	case "One":
		if len(in) == 1 {
			flat = in
		}
	case "Reduce":
		acc := 0
		for _, x := range in {
			acc = (acc*31 + x + 7) % 1000003
		}
		flat = []int{acc}
	default: // identity-like: WithPeek Flatten FlattenSlices Join Collect Batch Merge1 PipeChain SampleStream
		flat = in
	}
	return flat, groups
}

// Build constructs the subject for a caller-goroutine combinator or reducer.
func Build(c Case) (Subject, *Env, error) {
	e := &Env{c: c, E: MkE(c), T1: sk.NewSentinel("T1"), T2: sk.NewSentinel("T2")}
	if len(c.Classes) != U {
		return nil, nil, fmt.Errorf("bad classes")
	}
	switch c.Comb {
	case "WithPeek":
		return &peekSubject{p: stream.WithPeek(e.pre(e.mainSource()))}, e, nil
	case "Chunk":
		if c.N < 1 {
			return nil, nil, fmt.Errorf("bad chunk size")
		}
		return groupStream{stream.Chunk(e.pre(e.mainSource()), c.N), new([][]int)}, e, nil
	case "Compact":
		return itemStream{stream.Compact(e.pre(e.mainSource()))}, e, nil
	case "CompactFunc":
		return itemStream{stream.CompactFunc(e.pre(e.mainSource()), e.same)}, e, nil
	case "Filter":
		return itemStream{stream.Filter(e.pre(e.mainSource()), e.keep)}, e, nil
	case "First":
		return itemStream{stream.First(e.pre(e.mainSource()), c.N)}, e, nil
	case "Map":
		return itemStream{stream.Map(e.pre(e.mainSource()), e.mapf)}, e, nil
	case "While":
		return itemStream{stream.While(e.pre(e.mainSource()), e.keep)}, e, nil
	case "Runs":
		return &runsSubject{outer: stream.Runs(e.pre(e.mainSource()), e.same), innerLast: len(c.Input)%2 == 1}, e, nil
	case "RunsSkip":
		return &runsSkipSubject{outer: stream.Runs(e.pre(e.mainSource()), e.same), innerLast: len(c.Input)%2 == 1}, e, nil
	case "Flatten":
		inners := e.nestSources(!c.Fault.Outer)
		ss := make([]stream.Stream[int], len(inners))
		for i := range inners {
			ss[i] = inners[i]
		}
		outer := sk.NewRecStream("outer", ss)
		outer.IgnoreCtx = e.c.LaxSources
		if c.Fault.Outer {
			script(e, outer, c.Fault.P, c.Fault.P2)
		}
		addSource(e, outer, nil)
		for i, r := range inners {
			i := i
			addSource(e, r, func() bool { return outer.Handed() > i })
		}
		return itemStream{stream.Flatten[int](outer)}, e, nil
	case "FlattenSlices":
		nest := Nest(c)
		cp := make([][]int, len(nest))
		for i := range nest {
			cp[i] = append([]int{}, nest[i]...)
		}
		outer := sk.NewRecStream("outer", cp)
		outer.IgnoreCtx = e.c.LaxSources
		script(e, outer, min(c.Fault.P, len(cp)), min(c.Fault.P2, len(cp)))
		addSource(e, outer, nil)
		return itemStream{stream.FlattenSlices[int](outer)}, e, nil
	case "Join":
		inners := e.nestSources(true)
		ss := make([]stream.Stream[int], len(inners))
		for i := range inners {
			ss[i] = inners[i]
			addSource(e, inners[i], nil)
		}
		return itemStream{stream.Join(ss...)}, e, nil
	case "Collect":
		s := e.pre(e.mainSource())
		return &reducerSubject{run: func(ctx context.Context) ([]int, error) { return stream.Collect(ctx, s) }}, e, nil
	case "Last":
		s := e.pre(e.mainSource())
		return &reducerSubject{run: func(ctx context.Context) ([]int, error) { return stream.Last(ctx, s, c.N) }}, e, nil
	case "One":
		s := e.pre(e.mainSource())
		return &reducerSubject{run: func(ctx context.Context) ([]int, error) {
			x, err := stream.One(ctx, s)
			if err == stream.ErrEmpty || err == stream.ErrMoreThanOne {
				return nil, nil
			}
			if err != nil {
				return nil, err
			}
			return []int{x}, nil
		}}, e, nil
	case "Reduce":
		s := e.pre(e.mainSource())
		return &reducerSubject{run: func(ctx context.Context) ([]int, error) {
			acc, err := stream.Reduce(ctx, s, 0, func(a, x int) (int, error) {
				if err := e.cb(); err != nil {
					return a, err
				}
				return (a*31 + x + 7) % 1000003, nil
			})
			if err != nil {
				return nil, err
			}
			return []int{acc}, nil
		}}, e, nil
	case "SampleStream":
		s := e.pre(e.mainSource())
		return &reducerSubject{run: func(ctx context.Context) ([]int, error) {
			return xrand.RSampleStream(ctx, rand.New(rand.NewSource(int64(len(c.Input)*131+c.N))), s, c.N)
		}}, e, nil
	}
	return nil, nil, fmt.Errorf("unknown combinator %q", c.Comb)
}

var bg = context.Background()

// Consume runs the consumer script against a subject.
func Consume(c Case, subj Subject, e *Env, pace func()) *Result {
	res := &Result{Case: c, E: e.E, Transients: []error{e.T1, e.T2}, Reducer: IsReducer(c.Comb)}
	cancelled, cancel := sk.WithCancel(bg)
	cancel()
	res.CtxErr = cancelled.Err()
	calls, responses := 0, 0
	for c.Stop < 0 || responses < c.Stop {
		if pace != nil {
			pace()
		}
		ctx := bg
		timed := false
		if c.Fault.Kind == "ctx" && calls == c.Fault.P {
			ctx = cancelled
		}
		if c.Fault.Kind == "ctxt" && calls == c.Fault.P {
			var cancelT context.CancelFunc
			ctx, cancelT = sk.WithTimeout(bg, time.Duration(c.Fault.P2)*time.Millisecond)
			defer cancelT()
			timed = true
		}
		calls++
		r := subj.Next(ctx)
		res.Responses = append(res.Responses, r)
		res.Delivered = append(res.Delivered, r.Items...)
		if r.Err == nil {
			responses++
			if r.Complete {
				res.Groups = append(res.Groups, r.Items)
			}
			if calls > 2000 {
				res.Final = errors.New("harness: more than 2000 calls")
				break
			}
			continue
		}
		if r.Err == stream.End {
			res.Final = stream.End
			// a consumer (or a wrapper around this stream) that asks again is told the same - and nothing that has
			// been let go of at the end is touched again
			if !res.Reducer {
				for k := 0; k < 2; k++ {
					if r2 := subj.Next(bg); r2.Err != stream.End {
						res.AfterEnd = fmt.Errorf("after reporting the end, Next #%d returned (%v, %v)", k+1, r2.Items, r2.Err)
					}
				}
			}
			break
		}
		resumable := errors.Is(r.Err, e.E)
		resumable = !resumable && (!res.Reducer && !IsBackground(c.Comb) &&
			(errors.Is(r.Err, e.T1) || errors.Is(r.Err, e.T2)) ||
			(!res.Reducer && ctx == cancelled && errors.Is(r.Err, context.Canceled)) ||
			(!res.Reducer && timed && errors.Is(r.Err, context.DeadlineExceeded)))
		if resumable && res.Resumed < 10 {
			res.Resumed++
			continue
		}
		res.Final = r.Err
		// one more call: a sticky source failure must stay a failure
		if !res.Reducer {
			r2 := subj.Next(bg)
			res.AfterFinal = r2.Err
			if r2.Err == nil {
				res.AfterFinal = fmt.Errorf("delivered %v after the terminal error", r2.Items)
			}
		}
		break
	}
	subj.Close()
	// ownership is judged at the moment Close (or the reducer) has returned, not after the bubble has come to rest
	for _, src := range e.sources {
		if src.Given() {
			if err := src.Ownership(); err != nil {
				res.AtClose = append(res.AtClose, err)
			}
		}
	}
	res.Sources = e.sources
	res.Reached = e.cbFailed.Load()
	var firstSeq int64
	if res.Reached {
		firstSeq, res.FirstFault = e.cbSeq.Load(), e.E
	}
	for _, fl := range e.faultLogs {
		for _, fe := range fl() {
			if res.FirstFault == nil || fe.Seq < firstSeq {
				firstSeq, res.FirstFault = fe.Seq, fe.Err
			}
		}
	}
	for _, f := range e.finalSeen {
		if f() {
			res.Reached = true
		}
	}
	return res
}

// Run executes a caller-goroutine case.
func Run(c Case) (*Result, error) {
	subj, e, err := Build(c)
	if err != nil {
		return nil, err
	}
	return Consume(c, subj, e, nil), nil
}

var _ = parallel.MapStream[int, int]
