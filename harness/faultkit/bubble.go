package faultkit

import (
	"context"
	"fmt"
	"testing"
	"testing/synctest"
	"time"

	"github.com/bradenaw/juniper/parallel"
	"github.com/bradenaw/juniper/stream"

	"verif/harness/sk"
)

// RunBubble executes a goroutine-backed case on the fake clock. stuck is non-empty if the bubble
// deadlocked or its root returned while goroutines were still blocked (leak).
func RunBubble(t *testing.T, c Case) (res *Result, stuck string, err error) {
	defer func() {
		if r := recover(); r != nil {
			stuck = fmt.Sprint(r)
		}
	}()
	synctest.Test(t, func(t *testing.T) {
		defer func() {
			if r := recover(); r != nil {
				err = fmt.Errorf("panic inside bubble: %v", r)
			}
		}()
		e := &Env{c: c, E: MkE(c), T1: sk.NewSentinel("T1"), T2: sk.NewSentinel("T2"),
			srcGap: time.Duration(c.SrcGapMs) * time.Millisecond}
		var subj Subject
		switch c.Comb {
		case "Batch":
			n := c.N
			if n < 1 {
				n = 1
			}
			subj = groupStream{stream.Batch[int](e.mainSource(), time.Second, n), new([][]int)}
		case "Merge1":
			subj = itemStream{stream.Merge[int](e.mainSource())}
		case "MergeN":
			inners := e.nestSources(true)
			ss := make([]stream.Stream[int], len(inners))
			for i := range inners {
				inners[i].Gaps = gaps(len(inners[i].Items), e.srcGap*time.Duration(i+1))
				inners[i].CloseDelay = time.Duration(c.CloseMs) * time.Millisecond
				ss[i] = inners[i]
				addSource(e, inners[i], nil)
			}
			subj = itemStream{stream.Merge[int](ss...)}
		case "MapStream":
			src := e.mainSource()
			n := len(c.Input)
			f := func(ctx context.Context, x int) (int, error) {
				i := int(e.cbCalls.Load())
				switch c.Latency {
				case "desc":
					time.Sleep(time.Duration(n-i+1) * 10 * time.Millisecond)
				case "head":
					if i == 0 {
						time.Sleep(time.Second)
					}
				}
				return e.mapf(ctx, x)
			}
			subj = itemStream{parallel.MapStream[int, int](bg, src, c.Par, c.Buf, f)}
		case "PipeChain":
			src := sk.NewRecStream("src", c.Input)
			src.Gaps = gaps(len(c.Input), e.srcGap)
			script(e, src, c.Fault.P, c.Fault.P2)
			e.faultLogs = append(e.faultLogs, src.Faults)
			e.finalSeen = append(e.finalSeen, func() bool {
				for _, fe := range src.Faults() {
					if fe.Err == e.E {
						return true
					}
				}
				return false
			})
			sender, receiver := stream.Pipe[int](c.Buf)
			go func() {
				defer src.Close()
				for {
					x, err := src.Next(bg)
					if err == stream.End {
						sender.Close(nil)
						return
					}
					if err != nil {
						sender.Close(err)
						return
					}
					if sender.Send(bg, x) != nil {
						return
					}
				}
			}()
			subj = itemStream{stream.Map[int, int](receiver, func(_ context.Context, x int) (int, error) { return x, nil })}
		default:
			err = fmt.Errorf("unknown background combinator %q", c.Comb)
			return
		}
		var pace func()
		if c.PaceMs > 0 {
			pace = func() { time.Sleep(time.Duration(c.PaceMs) * time.Millisecond) }
		}
		res = Consume(c, subj, e, pace)
		synctest.Wait()
	})
	return res, stuck, err
}
