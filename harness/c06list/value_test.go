package c06list

import (
	"runtime"
	"sync"
	"testing"

	"github.com/bradenaw/juniper/container/xlist"
	"pgregory.net/rapid"

	"verif/harness/vk"
)

// list-value-race: "handles keep their identity and their Value is never touched". Value is the user's field:
// one goroutine owns the list and moves, removes and re-inserts nodes, another one owns a node's Value and keeps
// updating it through the handle. The list operations do not read or write Value, so the two never meet - the
// race detector (this kind runs in the race job) stays silent and no update is lost.

type counterPair struct {
	hits  int
	label string
}

type ValueRacePlan struct {
	Nodes   int   `json:"nodes"`
	Updates int   `json:"updates"`
	Moves   []int `json:"moves"` // 0 MoveToFront 1 MoveToBack 2 MoveBefore(front) 3 MoveAfter(back) 4 Remove
}

func genValueRace(t *rapid.T) ValueRacePlan {
	return ValueRacePlan{Nodes: rapid.IntRange(2, 6).Draw(t, "nodes"), Updates: rapid.IntRange(2000, 20000).Draw(t, "updates"),
		Moves: rapid.SliceOfN(rapid.IntRange(0, 4), 4, 40).Draw(t, "moves")}
}

func runValueRace(p ValueRacePlan) (vk.Outcome, error) {
	var out vk.Outcome
	var l xlist.List[counterPair]
	nodes := make([]*xlist.Node[counterPair], p.Nodes)
	for i := range nodes {
		nodes[i] = l.PushBack(counterPair{label: "n"})
	}
	target := nodes[p.Nodes/2]
	var wg sync.WaitGroup
	wg.Add(1)
	stop := make(chan struct{})
	go func() { // the owner of target.Value
		defer wg.Done()
		for i := 0; i < p.Updates; i++ {
			target.Value.hits++
			target.Value.label = "updated"
		}
		close(stop)
	}()
	// the owner of the list
	removed := false
	for i := 0; ; i++ {
		select {
		case <-stop:
		default:
			if removed { // (the handle is dead for the list now; its Value is still the writer's)
				runtime.Gosched()
				continue
			}
			switch p.Moves[i%len(p.Moves)] {
			case 0:
				l.MoveToFront(target)
			case 1:
				l.MoveToBack(target)
			case 2:
				if f := l.Front(); f != target {
					l.MoveBefore(target, f)
				}
			case 3:
				if b := l.Back(); b != target {
					l.MoveAfter(target, b)
				}
			default:
				l.Remove(target)
				removed = true
			}
			continue
		}
		break
	}
	wg.Wait()
	if got := target.Value.hits; got != p.Updates {
		return out, vk.Violf("value-touched", "a node's Value was incremented %d times through its handle while the list moved and removed the node: it reads %d (list operations must not touch Value)", p.Updates, got)
	}
	out.NonTrivial, out.Execs = true, p.Updates
	return out, nil
}

func TestListValueRace(t *testing.T) {
	vk.Run(t, suite, "list-value-race", 60, genValueRace, runValueRace)
}
