package c06list

import (
	"fmt"
	"testing"
	"time"

	"github.com/bradenaw/juniper/container/xlist"
	"pgregory.net/rapid"

	"verif/harness/vk"
)

var suite = vk.NewSuite("C06")

func TestMain(m *testing.M) { suite.HangLimit = 60 * time.Second; suite.Main(m) }

// Op: Node and Mark are chosen by class relative to the model; A, B are raw indices (mod len).
type Op struct {
	Op    string `json:"op"`
	Class string `json:"class,omitempty"` // same succ pred first-last last-first node-front node-back mark-front mark-back random
	A     int    `json:"a,omitempty"`
	B     int    `json:"b,omitempty"`
}

type Plan struct {
	Ops []Op `json:"ops"`
}

var opNames = []string{"PushFront", "PushBack", "InsertBefore", "InsertAfter", "Remove", "Remove", "MoveBefore", "MoveBefore",
	"MoveAfter", "MoveAfter", "MoveToFront", "MoveToBack", "Clear", "RemoveAll", "PushBackN", "PushBackN", "MoveBefore", "MoveAfter"}
var classes = []string{"same", "succ", "pred", "first-last", "last-first", "node-front", "node-back", "mark-front", "mark-back", "random", "random"}

func genOp(t *rapid.T) Op {
	o := Op{Op: rapid.SampledFrom(opNames).Draw(t, "op")}
	if o.Op == "Clear" && rapid.IntRange(0, 2).Draw(t, "rarely") != 0 {
		o.Op = "PushBack"
	}
	switch o.Op {
	case "MoveBefore", "MoveAfter":
		o.Class = rapid.SampledFrom(classes).Draw(t, "class")
		o.A = rapid.IntRange(0, 1000).Draw(t, "a")
		o.B = rapid.IntRange(0, 1000).Draw(t, "b")
	case "PushBackN":
		o.A = rapid.IntRange(2, 8).Draw(t, "n")
	case "InsertBefore", "InsertAfter", "Remove", "MoveToFront", "MoveToBack":
		o.Class = rapid.SampledFrom([]string{"front", "back", "random", "random"}).Draw(t, "class1")
		o.A = rapid.IntRange(0, 1000).Draw(t, "a")
	}
	return o
}

func genPlan(t *rapid.T) Plan {
	p := Plan{Ops: rapid.SliceOfN(rapid.Custom(genOp), 1, 60).Draw(t, "ops")}
	if rapid.IntRange(0, 19).Draw(t, "bulk") == 0 { // hundreds of insertions over the life of one list
		at := rapid.IntRange(0, len(p.Ops)).Draw(t, "bulkat")
		p.Ops = append(p.Ops[:at], append([]Op{{Op: "Bulk", A: rapid.IntRange(260, 900).Draw(t, "bulkn")}}, p.Ops[at:]...)...)
	}
	for k := rapid.IntRange(0, 2).Draw(t, "relocs"); k > 0; k-- { // the list value is moved to another address
		at := rapid.IntRange(0, len(p.Ops)).Draw(t, "relocat")
		p.Ops = append(p.Ops[:at], append([]Op{{Op: "Relocate"}}, p.Ops[at:]...)...)
	}
	return p
}

type handle struct {
	n   *xlist.Node[int]
	val int
}

func pick(class string, a, b, n int) (node, mark int) {
	switch class {
	case "same":
		return a % n, a % n
	case "succ": // mark is node's successor
		if n >= 2 {
			i := a % (n - 1)
			return i, i + 1
		}
	case "pred": // mark is node's predecessor
		if n >= 2 {
			i := a % (n - 1)
			return i + 1, i
		}
	case "first-last":
		return 0, n - 1
	case "last-first":
		return n - 1, 0
	case "node-front":
		return 0, b % n
	case "node-back":
		return n - 1, b % n
	case "mark-front":
		return a % n, 0
	case "mark-back":
		return a % n, n - 1
	}
	return a % n, b % n
}

func pick1(class string, a, n int) int {
	switch class {
	case "front":
		return 0
	case "back":
		return n - 1
	}
	return a % n
}

func check(l *xlist.List[int], model []handle, what string) error {
	if l.Len() != len(model) {
		return vk.Violf("len", "%s: Len()=%d model %d", what, l.Len(), len(model))
	}
	if len(model) == 0 {
		if l.Front() != nil || l.Back() != nil {
			return vk.Violf("empty-ends", "%s: empty list has Front=%p Back=%p", what, l.Front(), l.Back())
		}
		return nil
	}
	if l.Front() == nil || l.Back() == nil {
		return vk.Violf("nil-end", "%s: non-empty list has a nil end", what)
	}
	if l.Front().Prev() != nil {
		return vk.Violf("front-prev", "%s: Front().Prev() != nil", what)
	}
	if l.Back().Next() != nil {
		return vk.Violf("back-next", "%s: Back().Next() != nil", what)
	}
	// forward walk
	cur := l.Front()
	for i := 0; i <= len(model); i++ {
		if i == len(model) {
			if cur != nil {
				return vk.Violf("forward-walk", "%s: forward walk continues past %d nodes (cycle or extra node)", what, len(model))
			}
			break
		}
		if cur == nil {
			return vk.Violf("forward-walk", "%s: forward walk ends after %d of %d nodes", what, i, len(model))
		}
		if cur != model[i].n {
			return vk.Violf("forward-walk", "%s: forward walk position %d holds node with value %d, want value %d", what, i, cur.Value, model[i].val)
		}
		if cur.Value != model[i].val {
			return vk.Violf("value-touched", "%s: node at %d has Value %d, created with %d", what, i, cur.Value, model[i].val)
		}
		cur = cur.Next()
	}
	cur = l.Back()
	for i := len(model) - 1; i >= -1; i-- {
		if i == -1 {
			if cur != nil {
				return vk.Violf("backward-walk", "%s: backward walk continues past %d nodes", what, len(model))
			}
			break
		}
		if cur == nil {
			return vk.Violf("backward-walk", "%s: backward walk ends early at position %d", what, i)
		}
		if cur != model[i].n {
			return vk.Violf("backward-walk", "%s: backward walk position %d holds node with value %d, want value %d", what, i, cur.Value, model[i].val)
		}
		cur = cur.Prev()
	}
	return nil
}

func move(model []handle, from, to int) []handle {
	// move element at from so that it ends up immediately before the element currently at index 'to'
	// (to == len(model) means the end), indices referring to the slice before removal.
	h := model[from]
	out := make([]handle, 0, len(model))
	for i, x := range model {
		if i == to {
			out = append(out, h)
		}
		if i != from {
			out = append(out, x)
		}
	}
	if to == len(model) {
		out = append(out, h)
	}
	return out
}

// checkRemoved: a handle that was removed keeps its identity and Value, has no neighbours, and is
// never handed out again as a node of the list - whatever happens to the list afterwards.
func checkRemoved(removed []handle, model []handle, what string) error {
	live := map[*xlist.Node[int]]bool{}
	for _, h := range model {
		live[h.n] = true
	}
	for _, h := range removed {
		if h.n.Value != h.val {
			return vk.Violf("value-touched", "%s: a handle removed earlier now has Value %d, it was created with %d", what, h.n.Value, h.val)
		}
		if h.n.Prev() != nil || h.n.Next() != nil {
			return vk.Violf("removed-neighbour", "%s: a handle removed earlier (value %d) has a neighbour again", what, h.val)
		}
		if live[h.n] {
			return vk.Violf("handle-reused", "%s: the handle of a removed node (value %d) was handed out again as a new node", what, h.val)
		}
	}
	return nil
}

func runPlan(p Plan) (vk.Outcome, error) { return runPlanOn(p, 0) }

// runPlanOn runs the plan on a list that has been Cleared preClears times before (a long-lived list).
func runPlanOn(p Plan, preClears uint64) (vk.Outcome, error) {
	var out vk.Outcome
	l := new(xlist.List[int]) // (behind a pointer so that the list VALUE can be moved elsewhere: op Relocate)
	for i := uint64(0); i < preClears; i++ {
		l.Clear()
	}
	var model []handle
	var removedHandles, clearedHandles []handle
	next := 0
	removed, cleared, nontrivial := false, false, false
	newVal := func() int { next++; return next }
	if err := check(l, model, "zero value"); err != nil {
		return out, err
	}
	for i, o := range p.Ops {
		what := fmt.Sprintf("step %d %s (len %d)", i, vk.Short(o), len(model))
		n := len(model)
		switch o.Op {
		case "PushFront":
			v := newVal()
			model = append([]handle{{l.PushFront(v), v}}, model...)
		case "PushBack":
			v := newVal()
			model = append(model, handle{l.PushBack(v), v})
		case "PushBackN":
			for j := 0; j < o.A; j++ {
				v := newVal()
				if j%3 == 2 {
					model = append([]handle{{l.PushFront(v), v}}, model...)
				} else {
					model = append(model, handle{l.PushBack(v), v})
				}
			}
		case "InsertBefore", "InsertAfter":
			if n == 0 {
				continue
			}
			m := pick1(o.Class, o.A, n)
			v := newVal()
			var nd *xlist.Node[int]
			at := m
			if o.Op == "InsertBefore" {
				nd = l.InsertBefore(v, model[m].n)
			} else {
				nd = l.InsertAfter(v, model[m].n)
				at = m + 1
			}
			model = append(model, handle{})
			copy(model[at+1:], model[at:])
			model[at] = handle{nd, v}
			if nd.Value != v {
				return out, vk.Violf("insert-value", "%s: new node has Value %d", what, nd.Value)
			}
		case "Remove":
			if n == 0 {
				continue
			}
			m := pick1(o.Class, o.A, n)
			h := model[m]
			l.Remove(h.n)
			model = append(model[:m:m], model[m+1:]...)
			removedHandles = append(removedHandles, h)
			if h.n.Prev() != nil || h.n.Next() != nil {
				return out, vk.Violf("removed-neighbour", "%s: removed node still has a neighbour", what)
			}
			if h.n.Value != h.val {
				return out, vk.Violf("value-touched", "%s: removed node's Value changed", what)
			}
			removed = true
			if len(model) == 0 {
				out.Label("emptied-by-remove")
			}
		case "RemoveAll":
			for len(model) > 0 {
				m := (o.A + len(model)) % len(model)
				h := model[m]
				l.Remove(h.n)
				model = append(model[:m:m], model[m+1:]...)
				removedHandles = append(removedHandles, h)
				if h.n.Prev() != nil || h.n.Next() != nil {
					return out, vk.Violf("removed-neighbour", "%s: removed node still has a neighbour", what)
				}
				if err := check(l, model, what); err != nil {
					return out, err
				}
				removed = true
			}
			if n > 0 {
				out.Label("emptied-by-remove")
			}
		case "MoveBefore", "MoveAfter":
			if n == 0 {
				continue
			}
			ni, mi := pick(o.Class, o.A, o.B, n)
			nd, mk := model[ni].n, model[mi].n
			if o.Op == "MoveBefore" {
				l.MoveBefore(nd, mk)
				if ni != mi {
					model = move(model, ni, mi)
					if mk.Prev() != nd || nd.Next() != mk {
						return out, vk.Violf("move-postcondition", "%s: after MoveBefore mark.Prev()!=node", what)
					}
				}
			} else {
				l.MoveAfter(nd, mk)
				if ni != mi {
					model = move(model, ni, mi+1)
					if mk.Next() != nd || nd.Prev() != mk {
						return out, vk.Violf("move-postcondition", "%s: after MoveAfter mark.Next()!=node", what)
					}
				}
			}
			out.Label("move:" + o.Class)
			adjacentOrEnds := ni == mi+1 || mi == ni+1 || (ni == 0 && mi == n-1) || (ni == n-1 && mi == 0)
			if n >= 3 && adjacentOrEnds && removed {
				nontrivial = true
			}
			if n == 1 {
				out.Label("move-on-singleton")
			}
		case "MoveToFront", "MoveToBack":
			if n == 0 {
				continue
			}
			m := pick1(o.Class, o.A, n)
			if o.Op == "MoveToFront" {
				l.MoveToFront(model[m].n)
				model = move(model, m, 0)
				if m == 0 {
					model = append([]handle(nil), model...)
				}
			} else {
				l.MoveToBack(model[m].n)
				if m != n-1 {
					model = move(model, m, n)
				}
			}
		case "Relocate":
			// The list is a plain value (its zero value is ready to use, nothing says it must not be moved): it is
			// copied to a new address and the old location is wiped. Handles obtained before keep working.
			nl := new(xlist.List[int])
			*nl = *l
			*l = xlist.List[int]{}
			l = nl
			out.Label("relocated")
		case "Bulk":
			// hundreds of insertions at both ends, then all but a few removed again (from the middle outwards)
			for j := 0; j < o.A; j++ {
				v := newVal()
				var nd *xlist.Node[int]
				if j%5 == 4 {
					nd = l.PushFront(v)
					model = append([]handle{{nd, v}}, model...)
				} else {
					nd = l.PushBack(v)
					model = append(model, handle{nd, v})
				}
				if nd == nil || nd.Value != v {
					return out, vk.Violf("insert-value", "%s: insertion %d of the bulk returned a node with Value %v", what, j, nd)
				}
				if j%97 == 0 {
					if err := check(l, model, what); err != nil {
						return out, err
					}
					if err := checkRemoved(removedHandles, model, what); err != nil {
						return out, err
					}
				}
			}
			if err := check(l, model, what); err != nil {
				return out, err
			}
			for len(model) > 5+o.A%7 {
				m := len(model) / 2
				h := model[m]
				l.Remove(h.n)
				model = append(model[:m:m], model[m+1:]...)
				removedHandles = append(removedHandles, h)
			}
			out.Label("bulk>256")
		case "Clear":
			l.Clear()
			// the handles of the cleared nodes stay with the caller: their Value is never touched
			clearedHandles = append(clearedHandles, model...)
			model = nil
			cleared = true
			out.Label("clear")
		}
		if cleared && len(model) > 0 {
			out.Label("regrown-after-clear")
		}
		if err := check(l, model, what); err != nil {
			return out, err
		}
		if err := checkRemoved(removedHandles, model, what); err != nil {
			return out, err
		}
		live := map[*xlist.Node[int]]bool{}
		for _, h := range model {
			live[h.n] = true
		}
		for _, h := range clearedHandles {
			if h.n.Value != h.val {
				return out, vk.Violf("value-touched", "%s: the handle of a node that was in the list when it was cleared now has Value %d, it was created with %d", what, h.n.Value, h.val)
			}
			if live[h.n] {
				return out, vk.Violf("handle-reused", "%s: the handle of a cleared node (value %d) was handed out again as a new node", what, h.val)
			}
		}
	}
	out.NonTrivial = nontrivial
	return out, nil
}

func TestList(t *testing.T) {
	vk.Run(t, suite, "list", 8000, genPlan, runPlan)
}

// list-clear-wrap: a list that has lived through about 2^8, 2^16 and 2^32 Clears (an empty Clear costs a
// nanosecond or two: four billion of them are a few seconds) behaves like a new one. The generated plan runs
// on lists pre-cleared 2^k-2 ... 2^k+1 times, so that whatever is counted per Clear passes every value around
// the wrap of a 8-, 16- or 32-bit counter while operations with handles are being made.
func TestListClearWrap(t *testing.T) {
	vk.Run(t, suite, "list-clear-wrap", 1, genPlan, func(p Plan) (vk.Outcome, error) {
		var pres []uint64
		for _, k := range []uint{8, 16, 32} {
			for d := -2; d <= 1; d++ {
				pres = append(pres, uint64(int64(1)<<k+int64(d)))
			}
		}
		type res struct {
			pre uint64
			out vk.Outcome
			err error
		}
		ch := make(chan res, len(pres))
		for _, pre := range pres {
			go func(pre uint64) {
				// a fixed prologue that uses handles in every way, then the generated plan (which may well begin
				// with a Clear and be past the interesting count at once)
				q := Plan{Ops: append([]Op{{Op: "PushBackN", A: 5}, {Op: "Remove", Class: "random", A: 2}, {Op: "MoveToFront", Class: "back"},
					{Op: "InsertAfter", Class: "front"}, {Op: "InsertBefore", Class: "back"}, {Op: "MoveBefore", Class: "last-first"},
					{Op: "MoveAfter", Class: "first-last"}, {Op: "MoveToBack", Class: "front"}, {Op: "Remove", Class: "front"}}, p.Ops...)}
				o, err := runPlanOn(q, pre)
				ch <- res{pre, o, err}
			}(pre)
		}
		var out vk.Outcome
		var first error
		for range pres {
			r := <-ch
			if r.err != nil && first == nil {
				first = vk.Violf("after-many-clears", "on a list that had been Cleared %d times before: %v", r.pre, r.err)
			}
			out = r.out
		}
		out.NonTrivial = true
		out.Label("pre-cleared")
		return out, first
	})
}
