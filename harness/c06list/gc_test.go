package c06list

import (
	"fmt"
	"runtime"
	"testing"

	"github.com/bradenaw/juniper/container/xlist"
	"pgregory.net/rapid"

	"verif/harness/vk"
)

// A list of pointer values that nobody but the list refers to: the harness keeps no handles and no
// values, only what the walk is supposed to show, and lets the garbage collector run between the
// operations. Whatever the list is made of has to keep its nodes and their values alive (and intact)
// by itself - node storage that the collector cannot see into shows here, and only here.

type payload struct {
	id  int
	pad [6]int // (large enough not to share an allocation block with its neighbours)
}

type GCPlan struct {
	N      int   `json:"n"`      // nodes
	GCs    int   `json:"gcs"`    // collections spread over the fill
	Churn  int   `json:"churn"`  // unrelated garbage allocated between operations (KiB), to get freed memory reused
	Remove []int `json:"remove"` // positions (mod length) removed from the front walk afterwards
}

func genGCPlan(t *rapid.T) GCPlan {
	return GCPlan{N: rapid.SampledFrom([]int{5, 40, 400, 1500}).Draw(t, "n"), GCs: rapid.IntRange(1, 4).Draw(t, "gcs"),
		Churn: rapid.SampledFrom([]int{0, 64, 1024}).Draw(t, "churn"), Remove: rapid.SliceOfN(rapid.IntRange(0, 5000), 0, 6).Draw(t, "remove")}
}

var gcSink [][]byte

func runGCPlan(p GCPlan) (vk.Outcome, error) {
	var out vk.Outcome
	l := new(xlist.List[*payload])
	var want []int
	every := p.N/p.GCs + 1
	for i := 0; i < p.N; i++ {
		if i%3 == 2 {
			l.PushFront(&payload{id: i})
			want = append([]int{i}, want...)
		} else {
			l.PushBack(&payload{id: i})
			want = append(want, i)
		}
		if i%every == every-1 {
			runtime.GC()
			for k := 0; k < p.Churn; k++ { // make the allocator hand freed memory out again
				b := make([]byte, 1024)
				b[0] = byte(k)
				gcSink = append(gcSink, b)
			}
			gcSink = nil
		}
	}
	runtime.GC()
	for _, r := range p.Remove {
		if len(want) == 0 {
			break
		}
		m := r % len(want)
		nd := l.Front()
		for j := 0; j < m; j++ {
			nd = nd.Next()
		}
		l.Remove(nd)
		want = append(want[:m:m], want[m+1:]...)
		runtime.GC()
	}
	check := func(what string, start func() *xlist.Node[*payload], step func(*xlist.Node[*payload]) *xlist.Node[*payload], at func(i int) int) error {
		nd := start()
		for i := 0; i < len(want); i++ {
			if nd == nil {
				return vk.Violf(what, "%s walk ended after %d of %d nodes (after garbage collections)", what, i, len(want))
			}
			if nd.Value == nil || nd.Value.id != at(i) || nd.Value.pad != [6]int{} {
				return vk.Violf("value-touched", "%s walk, node %d: Value is %s, the list was given the payload with id %d (after garbage collections)", what, i, describe(nd.Value), at(i))
			}
			nd = step(nd)
		}
		if nd != nil {
			return vk.Violf(what, "%s walk continues past %d nodes", what, len(want))
		}
		return nil
	}
	if l.Len() != len(want) {
		return out, vk.Violf("len", "Len()=%d want %d", l.Len(), len(want))
	}
	if err := check("forward-walk", l.Front, func(n *xlist.Node[*payload]) *xlist.Node[*payload] { return n.Next() }, func(i int) int { return want[i] }); err != nil {
		return out, err
	}
	if err := check("backward-walk", l.Back, func(n *xlist.Node[*payload]) *xlist.Node[*payload] { return n.Prev() }, func(i int) int { return want[len(want)-1-i] }); err != nil {
		return out, err
	}
	runtime.KeepAlive(l)
	out.NonTrivial = p.N >= 40
	out.Label(fmt.Sprintf("gc-list/n=%d", p.N))
	return out, nil
}

func describe(p *payload) string {
	if p == nil {
		return "nil"
	}
	return fmt.Sprintf("{id %d pad %v}", p.id, p.pad)
}

func TestListUnderGC(t *testing.T) {
	suite.Crashy = true // memory the collector freed may be anything: a crash is reported with the plan that ran
	vk.Run(t, suite, "list-gc", 60, genGCPlan, runGCPlan)
	suite.Crashy = false
}
