//go:debug asynctimerchan=1

// Package c17old runs Group.PeriodicOrTrigger under the pre-Go-1.23 timer-channel semantics
// (asynctimerchan=1), which is what the library gets when its user's main module says go < 1.23.
// testing/synctest refuses to run with that setting, so this one test uses the real clock, with
// bounds that are two orders of magnitude away from the expected timing.
package c17old

import (
	"context"
	"runtime"
	"sync/atomic"
	"testing"
	"time"

	"github.com/bradenaw/juniper/xsync"
	"pgregory.net/rapid"

	"verif/harness/vk"
)

var suite = vk.NewSuite("C17")

func TestMain(m *testing.M) { suite.Main(m) }

type Plan struct {
	IntervalUs int   `json:"interval_us"`
	RunFactor  int   `json:"run_factor"` // f runs RunFactor x interval
	Triggers   []int `json:"triggers"`   // microseconds into a run at which the trigger is called, one per round
}

func genPlan(t *rapid.T) Plan {
	p := Plan{IntervalUs: rapid.SampledFrom([]int{300, 1000, 2000}).Draw(t, "interval"), RunFactor: rapid.IntRange(2, 3).Draw(t, "factor")}
	for n := rapid.IntRange(4, 16).Draw(t, "rounds"); n > 0; n-- {
		p.Triggers = append(p.Triggers, rapid.IntRange(0, p.IntervalUs*p.RunFactor).Draw(t, "at"))
	}
	return p
}

func run(p Plan) (vk.Outcome, error) {
	var out vk.Outcome
	interval := time.Duration(p.IntervalUs) * time.Microsecond
	runTime := interval * time.Duration(p.RunFactor)
	g := xsync.NewGroup(context.Background())
	var starts atomic.Int64
	started := make(chan struct{}, 1024)
	trigger := g.PeriodicOrTrigger(interval, 0, func(ctx context.Context) {
		starts.Add(1)
		select {
		case started <- struct{}{}:
		default:
		}
		time.Sleep(runTime)
	})
	waitStart := func(limit time.Duration) bool {
		select {
		case <-started:
			return true
		case <-vk.After(limit):
			return false
		}
	}
	var verr error
	for i, at := range p.Triggers {
		if !waitStart(3 * time.Second) {
			verr = vk.Violf("periodic-stalled", "round %d: no run of the PeriodicOrTrigger function started within 3 s (interval %v, run time %v): the schedule died", i, interval, runTime)
			break
		}
		time.Sleep(time.Duration(at) * time.Microsecond)
		trigger() // lands during (or right at the end of) a run that outlasts the interval
	}
	if verr == nil {
		// the periodic schedule is still alive: more runs keep starting without any trigger
		for len(started) > 0 {
			<-started
		}
		before := starts.Load()
		waited := vk.ActiveSince() // (active clock: a paused or starved process does not count)
		for starts.Load() < before+3 && waited() < 3*time.Second {
			time.Sleep(runTime)
		}
		if starts.Load() < before+3 {
			verr = vk.Violf("periodic-stalled", "after %d triggers made during runs, only %d runs started in 3 s (interval %v, run time %v)", len(p.Triggers), starts.Load()-before, interval, runTime)
		}
	}
	done := make(chan struct{})
	go func() { g.StopAndWait(); close(done) }()
	select {
	case <-done:
	case <-vk.After(5 * time.Second):
		if verr == nil {
			verr = vk.Violf("stuck", "StopAndWait has not returned 5 s after the stop (the worker is blocked outside its select?)")
		}
	}
	out.NonTrivial = true
	return out, verr
}

func TestPeriodicOrTriggerOldTimers(t *testing.T) {
	vk.Run(t, suite, "pot-old-timers", 40, genPlan, run)
}

// ---------------------------------------------------------------- every trigger call is followed by a run (real clock)
//
// In a bubble a zero-delay timer only fires at quiescence, so an implementation that turns a trigger
// into "make the timer fire now" can never be caught mid-run there. Here the interval is an hour (only
// triggers cause runs), a run takes ~20 us, and the second trigger of every round is aimed at the end of
// the run the first one started. A run has to begin after that call; 3 s is the (generous) limit.

type TrigRealPlan struct {
	Rounds int `json:"rounds"`
	RunUs  int `json:"run_us"`
}

func genTrigReal(t *rapid.T) TrigRealPlan {
	return TrigRealPlan{Rounds: rapid.IntRange(300, 1500).Draw(t, "rounds"), RunUs: rapid.SampledFrom([]int{5, 20, 50}).Draw(t, "run")}
}

func spinFor(d time.Duration) {
	for start := time.Now(); time.Since(start) < d; {
	}
}

func runTrigReal(p TrigRealPlan) (vk.Outcome, error) {
	var out vk.Outcome
	g := xsync.NewGroup(context.Background())
	runLen := time.Duration(p.RunUs) * time.Microsecond
	var begun atomic.Int64
	trigger := g.PeriodicOrTrigger(time.Hour, 0, func(ctx context.Context) {
		begun.Add(1)
		spinFor(runLen)
	})
	waitAbove := func(n int64) bool {
		waited := vk.ActiveSince() // (active clock: a paused or starved process does not count)
		for i := 0; begun.Load() <= n; i++ {
			if i > 2000 {
				if waited() > 3*time.Second {
					return false
				}
				time.Sleep(20 * time.Microsecond)
			}
		}
		return true
	}
	var verr error
	for round := 0; round < p.Rounds; round++ {
		b0 := begun.Load()
		trigger()
		if !waitAbove(b0) {
			verr = vk.Violf("trigger-lost", "round %d: a trigger call on an idle PeriodicOrTrigger worker was not followed by a run within 3 s", round)
			break
		}
		spinFor(runLen * time.Duration(round%31) / 20) // 0 .. 1.5 run lengths: around the end of that run
		b1 := begun.Load()
		trigger()
		if !waitAbove(b1) {
			verr = vk.Violf("trigger-lost", "round %d: a trigger call made %v after a run had begun (a run takes %v) was not followed by a run that began after the call, within 3 s", round, runLen*time.Duration(round%31)/20, runLen)
			break
		}
		time.Sleep(50 * time.Microsecond) // let the worker go idle again
	}
	g.StopAndWait()
	out.NonTrivial, out.Execs = true, p.Rounds
	return out, verr
}

func TestTriggerFollowedByRunRealClock(t *testing.T) {
	vk.Run(t, suite, "pot-trigger-real", 12, genTrigReal, runTrigReal)
}

// ---------------------------------------------------------------- a group function that calls back into its group during the stop (real clock)
//
// StopAndWait waits for the functions that are running; a running function may, at that very time, call
// Do / Stop / a trigger function of its own group (a follow-up job, a fatal-error path). None of those calls
// may wait for StopAndWait - which is waiting for them. A bubble cannot see this kind of wait (the calls
// would sit on a mutex), so: real goroutines, 5 s on the active clock.

type ReentrantPlan struct {
	Call  string `json:"call"` // Do | Stop | Trigger | Periodic
	Funcs int    `json:"funcs"`
}

func genReentrant(t *rapid.T) ReentrantPlan {
	return ReentrantPlan{Call: rapid.SampledFrom([]string{"Do", "Do", "Stop", "Trigger", "Periodic"}).Draw(t, "call"), Funcs: rapid.IntRange(1, 4).Draw(t, "funcs")}
}

func runReentrant(p ReentrantPlan) (vk.Outcome, error) {
	var out vk.Outcome
	g := xsync.NewGroup(context.Background())
	stopping := make(chan struct{})
	var childRan atomic.Int32
	var inside, finished atomic.Int32
	trig := g.Trigger(func(ctx context.Context) { childRan.Add(1) })
	for i := 0; i < p.Funcs; i++ {
		g.Do(func(ctx context.Context) {
			inside.Add(1)
			<-stopping
			<-ctx.Done() // the stop has begun
			switch p.Call {
			case "Do":
				g.Do(func(context.Context) { childRan.Add(1) })
			case "Stop":
				g.Stop()
			case "Trigger":
				trig()
			case "Periodic":
				g.Periodic(time.Millisecond, 0, func(context.Context) { childRan.Add(1) })
			}
			finished.Add(1)
		})
	}
	for inside.Load() < int32(p.Funcs) {
		time.Sleep(50 * time.Microsecond)
	}
	done := make(chan struct{})
	go func() { close(stopping); g.StopAndWait(); close(done) }()
	select {
	case <-done:
	case <-vk.After(5 * time.Second):
		return out, vk.Violf("stuck", "StopAndWait has not returned after 5 s: %d running function(s) of the group call %s on their own group once the stop has begun (%d of them got past that call)", p.Funcs, p.Call, finished.Load())
	}
	if finished.Load() != int32(p.Funcs) {
		return out, vk.Violf("barrier", "StopAndWait returned while %d of %d functions were still running", int32(p.Funcs)-finished.Load(), p.Funcs)
	}
	before := childRan.Load()
	time.Sleep(2 * time.Millisecond)
	if childRan.Load() != before {
		return out, vk.Violf("started-after-stop", "a function registered from inside a running group function during the stop ran after StopAndWait had returned")
	}
	out.NonTrivial = true
	out.Label("reentrant:" + p.Call)
	return out, nil
}

func TestStopWithReentrantCalls(t *testing.T) {
	vk.Run(t, suite, "stop-reentrant", 60, genReentrant, runReentrant)
}

// ---------------------------------------------------------------- a group nobody holds a reference to (real clock, real GC)
//
// Fire and forget: the caller starts periodic work and a trigger, keeps only the trigger function and lets
// the *Group go; the group's life is the parent context's. Garbage collections in between change nothing:
// the periodic function keeps being invoked and a trigger call is followed by a run.

type DroppedPlan struct {
	GCs int `json:"gcs"`
}

func genDropped(t *rapid.T) DroppedPlan { return DroppedPlan{GCs: rapid.IntRange(1, 4).Draw(t, "gcs")} }

//go:noinline
func startAndForget(parent context.Context, ticks, runs *atomic.Int64) func() {
	g := xsync.NewGroup(parent)
	g.Periodic(200*time.Microsecond, 0, func(context.Context) { ticks.Add(1) })
	return g.Trigger(func(context.Context) { runs.Add(1) })
}

func runDropped(p DroppedPlan) (vk.Outcome, error) {
	var out vk.Outcome
	parent, cancel := context.WithCancel(context.Background())
	defer cancel()
	var ticks, runs atomic.Int64
	trigger := startAndForget(parent, &ticks, &runs)
	for i := 0; i < p.GCs; i++ {
		runtime.GC()
		time.Sleep(time.Millisecond) // finalizers run on a goroutine of their own
	}
	waitFor := func(c *atomic.Int64, above int64) bool {
		waited := vk.ActiveSince()
		for c.Load() <= above {
			if waited() > 3*time.Second {
				return false
			}
			time.Sleep(100 * time.Microsecond)
		}
		return true
	}
	if t0 := ticks.Load(); !waitFor(&ticks, t0+2) {
		return out, vk.Violf("periodic-stalled", "after %d garbage collections the Periodic function of a group that nobody stopped (its *Group value is unreachable, its parent context alive) is no longer invoked: %d runs in 3 s", p.GCs, ticks.Load()-t0)
	}
	r0 := runs.Load()
	trigger()
	if !waitFor(&runs, r0) {
		return out, vk.Violf("trigger-lost", "after %d garbage collections a call of the trigger function of a group that nobody stopped was not followed by a run within 3 s", p.GCs)
	}
	out.NonTrivial = true
	return out, nil
}

func TestGroupNobodyHolds(t *testing.T) {
	vk.Run(t, suite, "group-dropped", 20, genDropped, runDropped)
}

// ---------------------------------------------------------------- one group, very many functions (real clock)
//
// A long-lived Group that is handed tens of thousands of short functions, each awaited before the next few
// are started (a request loop): every one of them runs, and StopAndWait returns at the end. Whatever a Group
// keeps per function (goroutines it might reuse, counters) goes through many more rounds here than in any
// generated timeline.

type LongLivedPlan struct {
	Calls    int `json:"calls"`
	InFlight int `json:"in_flight"` // functions started before the oldest of them is awaited
}

func genLongLived(t *rapid.T) LongLivedPlan {
	return LongLivedPlan{Calls: rapid.SampledFrom([]int{150000, 300000, 1<<17 + 3}).Draw(t, "calls"), InFlight: rapid.SampledFrom([]int{1, 1, 2, 8}).Draw(t, "inflight")}
}

func runLongLived(p LongLivedPlan) (vk.Outcome, error) {
	var out vk.Outcome
	g := xsync.NewGroup(context.Background())
	var ran atomic.Int64
	done := make(chan struct{}, p.InFlight)
	fail := make(chan error, 1)
	go func() {
		inflight := 0
		for i := 0; i < p.Calls; i++ {
			g.Do(func(ctx context.Context) { ran.Add(1); done <- struct{}{} })
			inflight++
			if inflight == p.InFlight {
				<-done
				inflight--
				if i%2 == 0 {
					runtime.Gosched() // (lets whatever ran the function settle before the next one is handed over)
				}
			}
		}
		for ; inflight > 0; inflight-- {
			<-done
		}
		g.StopAndWait()
		fail <- nil
	}()
	select {
	case <-fail:
	case <-vk.After(60 * time.Second):
		return out, vk.Violf("stuck", "one Group, %d short functions handed to Do (at most %d in flight): after 60 s %d of them have run and the loop (or the final StopAndWait) has not finished", p.Calls, p.InFlight, ran.Load())
	}
	if n := ran.Load(); n != int64(p.Calls) {
		return out, vk.Violf("lost-run", "%d of %d functions handed to Do on a live group ran", n, p.Calls)
	}
	out.NonTrivial, out.Execs = true, p.Calls
	return out, nil
}

func TestGroupLongLived(t *testing.T) {
	vk.Run(t, suite, "group-long-lived", 3, genLongLived, runLongLived)
}
