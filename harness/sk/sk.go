// Package sk ("stream kit") holds the instrumented iterator and stream doubles shared by the
// combinator, fault, ownership and concurrency checks (C07-C12, C14).
package sk

import (
	"context"
	"errors"
	"fmt"
	"runtime"
	"sync"
	"sync/atomic"
	"time"

	"github.com/bradenaw/juniper/stream"
)

// RecIter is a recording iterator source over a fixed slice; sticky at the end.
type RecIter[T any] struct {
	Items  []T
	pos    int
	Calls  int // Next calls, including those that report the end
	Handed int // items handed out
}

func NewRecIter[T any](items []T) *RecIter[T] { return &RecIter[T]{Items: items} }

func (r *RecIter[T]) Next() (T, bool) {
	r.Calls++
	if r.pos >= len(r.Items) {
		var zero T
		return zero, false
	}
	it := r.Items[r.pos]
	r.pos++
	r.Handed++
	return it, true
}

// Sentinel errors are unique values; compare with errors.Is.
type Sentinel struct{ Name string }

func (s *Sentinel) Error() string { return "sentinel:" + s.Name }

func NewSentinel(name string) error { return &Sentinel{Name: name} }

// Event is one logged call on a RecStream.
type Event struct {
	Seq  int64  // global logical clock
	What string // "next", "next-ret", "close", "close-ret"
	Pos  int
	Err  string
}

var clock atomic.Int64

// FaultEvent records a scripted error that a source actually returned.
type FaultEvent struct {
	Seq int64
	Err error
}

// Tick returns the next value of the global logical clock.
func Tick() int64 { return clock.Add(1) }

// RecStream is a scripted, recording stream source.
//
//	Items      the values it yields, in order
//	Transient  Transient[p] = errors returned (one per call, without consuming anything) before the
//	           item at position p is handed out
//	FinalAt    if >= 0: once p items have been handed out, every call returns Final
//	Gaps       Gaps[p] = fake-time delay before item p is handed out (bubble only); the delay is
//	           abandoned (and restarted on the next call) if ctx ends first
//	BlockAt    if >= 0: once p items have been handed out, Next blocks until its ctx is done
//	EndGap     delay before End / Final is reported
type RecStream[T any] struct {
	Name      string
	Items     []T
	Transient map[int][]error
	FinalAt   int
	Final     error
	Gaps      []time.Duration
	EndGap    time.Duration
	BlockAt   int
	// GoexitAt: if k > 0, the call of Next that finds k-1 items handed out ends the goroutine it runs on with
	// runtime.Goexit (what t.FailNow, t.Fatal and t.Skip do inside a test double): deferred calls of that
	// goroutine still run, nothing else does
	GoexitAt  int
	IgnoreCtx bool // do not look at ctx when it is already done (still honours it while waiting)
	// Deaf: ignore ctx completely (no early return, delays are not interruptible). The Stream contract
	// does not oblige a source to watch its context; such a source still answers every call.
	Deaf bool
	// More, if set, makes the stream endless: position p >= len(Items) yields More(p) after MoreGap.
	More    func(pos int) T
	MoreGap time.Duration
	// CloseDelay makes Close take that long (fake time, bubble only): the stream only counts as closed
	// once Close has returned, so "closed by the time X returns" is observable.
	CloseDelay time.Duration

	mu        sync.Mutex
	pos       int
	closed    bool
	closing   bool
	inCall    int32
	Nexts     int
	Closes    int
	Problems  []string
	Log       []Event
	HandedAt  []time.Time
	EndSeenAt time.Time
	endSeen   bool
	faults    []FaultEvent
	tpos      map[int]int
}

func NewRecStream[T any](name string, items []T) *RecStream[T] {
	return &RecStream[T]{Name: name, Items: items, FinalAt: -1, BlockAt: -1}
}

func (s *RecStream[T]) problem(format string, args ...any) {
	s.Problems = append(s.Problems, fmt.Sprintf("stream %s: ", s.Name)+fmt.Sprintf(format, args...))
}

func (s *RecStream[T]) enter(what string) {
	if atomic.AddInt32(&s.inCall, 1) != 1 {
		s.mu.Lock()
		s.problem("%s overlaps another call on the same stream", what)
		s.mu.Unlock()
	}
}

func (s *RecStream[T]) leave() { atomic.AddInt32(&s.inCall, -1) }

func (s *RecStream[T]) Next(ctx context.Context) (T, error) {
	var zero T
	s.enter("Next")
	defer s.leave()
	s.mu.Lock()
	s.Nexts++
	s.Log = append(s.Log, Event{Seq: Tick(), What: "next", Pos: s.pos})
	if s.closed || s.closing {
		s.problem("Next called after Close")
	}
	pos := s.pos
	s.mu.Unlock()

	ret := func(v T, err error) (T, error) {
		s.mu.Lock()
		e := ""
		if err != nil {
			e = err.Error()
		}
		s.Log = append(s.Log, Event{Seq: Tick(), What: "next-ret", Pos: s.pos, Err: e})
		s.mu.Unlock()
		return v, err
	}

	if !s.IgnoreCtx && !s.Deaf && ctx.Err() != nil {
		return ret(zero, ctx.Err())
	}
	// transient errors scheduled before this position
	s.mu.Lock()
	if s.tpos == nil {
		s.tpos = map[int]int{}
	}
	if q := s.Transient[pos]; s.tpos[pos] < len(q) {
		err := q[s.tpos[pos]]
		s.tpos[pos]++
		s.faults = append(s.faults, FaultEvent{Tick(), err})
		s.mu.Unlock()
		return ret(zero, err)
	}
	s.mu.Unlock()

	if s.GoexitAt > 0 && pos >= s.GoexitAt-1 {
		ret(zero, errors.New("runtime.Goexit"))
		runtime.Goexit()
	}
	if s.BlockAt >= 0 && pos >= s.BlockAt {
		<-ctx.Done()
		return ret(zero, ctx.Err())
	}
	wait := func(d time.Duration) error {
		if d <= 0 {
			return nil
		}
		if s.Deaf {
			time.Sleep(d)
			return nil
		}
		t := time.NewTimer(d)
		defer t.Stop()
		select {
		case <-t.C:
			return nil
		case <-ctx.Done():
			return ctx.Err()
		}
	}
	if s.FinalAt >= 0 && pos >= s.FinalAt {
		if !s.endSeen {
			if err := wait(s.EndGap); err != nil {
				return ret(zero, err)
			}
		}
		s.mu.Lock()
		if !s.endSeen {
			s.endSeen, s.EndSeenAt = true, time.Now()
		}
		s.faults = append(s.faults, FaultEvent{Tick(), s.Final})
		s.mu.Unlock()
		return ret(zero, s.Final)
	}
	if pos >= len(s.Items) && s.More != nil {
		if err := wait(s.MoreGap); err != nil {
			return ret(zero, err)
		}
		s.mu.Lock()
		item := s.More(s.pos)
		s.pos++
		s.HandedAt = append(s.HandedAt, time.Now())
		s.mu.Unlock()
		return ret(item, nil)
	}
	if pos >= len(s.Items) {
		if !s.endSeen {
			if err := wait(s.EndGap); err != nil {
				return ret(zero, err)
			}
		}
		s.mu.Lock()
		if !s.endSeen {
			s.endSeen, s.EndSeenAt = true, time.Now()
		}
		s.mu.Unlock()
		return ret(zero, stream.End)
	}
	if pos < len(s.Gaps) {
		if err := wait(s.Gaps[pos]); err != nil {
			return ret(zero, err)
		}
	}
	s.mu.Lock()
	item := s.Items[s.pos]
	s.pos++
	s.HandedAt = append(s.HandedAt, time.Now())
	s.mu.Unlock()
	return ret(item, nil)
}

func (s *RecStream[T]) Close() {
	s.enter("Close")
	defer s.leave()
	s.mu.Lock()
	s.Log = append(s.Log, Event{Seq: Tick(), What: "close", Pos: s.pos})
	if s.closed || s.closing {
		s.problem("Close called a second time")
	}
	s.closing = true
	s.mu.Unlock()
	if s.CloseDelay > 0 {
		time.Sleep(s.CloseDelay)
	}
	s.mu.Lock()
	defer s.mu.Unlock()
	s.Closes++
	s.closed = true
}

// Faults lists the scripted errors returned so far.
func (s *RecStream[T]) Faults() []FaultEvent {
	s.mu.Lock()
	defer s.mu.Unlock()
	return append([]FaultEvent(nil), s.faults...)
}

// Handed is the number of items handed out so far.
func (s *RecStream[T]) Handed() int {
	s.mu.Lock()
	defer s.mu.Unlock()
	return s.pos
}

func (s *RecStream[T]) Stats() (nexts, closes int, problems []string) {
	s.mu.Lock()
	defer s.mu.Unlock()
	return s.Nexts, s.Closes, append([]string(nil), s.Problems...)
}

// HandTimes returns a copy of the hand-over timestamps.
func (s *RecStream[T]) HandTimes() []time.Time {
	s.mu.Lock()
	defer s.mu.Unlock()
	return append([]time.Time(nil), s.HandedAt...)
}

// EndSeen reports whether (and when) the source first reported its end or final error.
func (s *RecStream[T]) EndSeen() (bool, time.Time) {
	s.mu.Lock()
	defer s.mu.Unlock()
	return s.endSeen, s.EndSeenAt
}

// Ownership checks the close-exactly-once contract for a stream that was handed to the library.
func (s *RecStream[T]) Ownership() error {
	_, closes, problems := s.Stats()
	if len(problems) > 0 {
		return errors.New(problems[0])
	}
	if closes != 1 {
		return fmt.Errorf("stream %s: closed %d times, want exactly once", s.Name, closes)
	}
	return nil
}

// IsEnd reports whether err is the end-of-stream marker.
func IsEnd(err error) bool { return err == stream.End }

// ErrCause is the cause handed to every context the harnesses cancel or time out themselves. A context
// that carries a cause still reports context.Canceled / context.DeadlineExceeded from Err(), and that is
// what library calls are documented to return ("ctx.Err()"): a call that hands back the cause instead
// (context.Cause) shows up as an unexpected error.
var ErrCause = errors.New("harness: cancellation cause (never to be returned by the library)")

// WithCancel is context.WithCancelCause with ErrCause as the cause.
func WithCancel(parent context.Context) (context.Context, context.CancelFunc) {
	ctx, cancel := context.WithCancelCause(parent)
	return ctx, func() { cancel(ErrCause) }
}

// WithTimeout is context.WithTimeoutCause with ErrCause as the cause.
func WithTimeout(parent context.Context, d time.Duration) (context.Context, context.CancelFunc) {
	return context.WithTimeoutCause(parent, d, ErrCause)
}

// WithDeadline is context.WithDeadlineCause with ErrCause as the cause.
func WithDeadline(parent context.Context, t time.Time) (context.Context, context.CancelFunc) {
	return context.WithDeadlineCause(parent, t, ErrCause)
}

// Detach wraps ctx in a hand-written context type: Done, Err and Deadline are ctx's, Value is answered by
// an unrelated context that is alive (the "detached values" pattern: request-scoped values on a
// differently-scoped lifetime). Library calls are documented to report ctx.Err(); anything that goes
// looking for the state of a standard-library context behind Value (context.Cause does) finds the live one.
func Detach(ctx context.Context) context.Context { return detached{inner: ctx} }

var liveValues, _ = context.WithCancel(context.Background())

type detached struct{ inner context.Context }

func (d detached) Deadline() (time.Time, bool) { return d.inner.Deadline() }
func (d detached) Done() <-chan struct{}       { return d.inner.Done() }
func (d detached) Err() error                  { return d.inner.Err() }
func (d detached) Value(k any) any             { return liveValues.Value(k) }

// DetachValue is Detach as a by-value context type that == cannot compare (a struct with a slice field): legal
// as a context.Context, and a trap for code that compares contexts or uses them as map keys.
func DetachValue(ctx context.Context) context.Context {
	return detachedValue{inner: ctx, notes: []string{"by value"}}
}

type detachedValue struct {
	inner context.Context
	notes []string
}

func (d detachedValue) Deadline() (time.Time, bool) { return d.inner.Deadline() }
func (d detachedValue) Done() <-chan struct{}       { return d.inner.Done() }
func (d detachedValue) Err() error                  { return d.inner.Err() }
func (d detachedValue) Value(k any) any             { return liveValues.Value(k) }
