package c16cond

import (
	"context"
	"sync"
	"sync/atomic"
	"testing"
	"time"

	"github.com/bradenaw/juniper/xsync"
	"pgregory.net/rapid"

	"verif/harness/vk"
)

// cond-real-storm: the same promises on real goroutines and the real clock, without a bubble (a cond whose
// internals wait for a sync mutex cannot be judged inside one: such waits are not "durably blocked", the
// bubble neither advances nor deadlocks). Per round, on a fresh cond:
//
//	waiter:  L.Lock(); Wait(ctx that never ends); L.Unlock()
//	main:    Broadcast() without holding L, aimed at the instant the waiter enters Wait;
//	         L.Lock(); L.Unlock()   - succeeds only once the waiter has released L inside Wait (or is through);
//	         Signal()               - one waiter has entered Wait, one Signal: it is woken (if the Broadcast
//	                                  has not woken it already);
//	noise:   0-4 goroutines call Signal / Broadcast without L all the while (allowed; they only add wakeups).
//
// Everybody has to be through within 10 s of active time. No timing is judged otherwise.

type RealStormPlan struct {
	Rounds       int `json:"rounds"`
	Signalers    int `json:"signalers"`
	Broadcasters int `json:"broadcasters"`
	NoiseCalls   int `json:"noise_calls"`
	SpinMax      int `json:"spin_max"` // the aimed Broadcast is delayed by round%SpinMax spins
	// Monitor: instead of a plain mutex the Locker is a "monitor" lock whose Unlock broadcasts on the cond when
	// the protected state has been changed (the waiter changes it before it waits): user code that runs inside
	// Wait - the Locker's Unlock - calls back into the cond
	Monitor bool `json:"monitor,omitempty"`
}

// monitorLock broadcasts from inside Unlock when the state it protects is dirty.
type monitorLock struct {
	mu    sync.Mutex
	dirty bool
	c     *xsync.ContextCond
}

func (m *monitorLock) Lock() { m.mu.Lock() }
func (m *monitorLock) Unlock() {
	d := m.dirty
	m.dirty = false
	m.mu.Unlock()
	if d {
		m.c.Broadcast()
	}
}

func genRealStorm(t *rapid.T) RealStormPlan {
	return RealStormPlan{Rounds: rapid.IntRange(200, 1000).Draw(t, "rounds"),
		Signalers: rapid.SampledFrom([]int{0, 0, 1, 2}).Draw(t, "signalers"), Broadcasters: rapid.SampledFrom([]int{0, 0, 1, 2}).Draw(t, "broadcasters"),
		NoiseCalls: rapid.SampledFrom([]int{20, 100, 400}).Draw(t, "noisecalls"), SpinMax: rapid.SampledFrom([]int{1, 8, 32, 128}).Draw(t, "spinmax"),
		Monitor: rapid.IntRange(0, 3).Draw(t, "monitor") == 0}
}

var spinSink atomic.Int64

func runRealStorm(p RealStormPlan) (vk.Outcome, error) {
	var out vk.Outcome
	for round := 0; round < p.Rounds; round++ {
		if p.Monitor {
			// the waiter dirties the state and waits: its own Unlock (inside Wait) broadcasts. Whether that wakes
			// it or not, a Signal after it has entered Wait does, and nothing gets stuck.
			m := &monitorLock{}
			m.c = xsync.NewContextCond(m)
			done := make(chan error, 1)
			go func() {
				m.Lock()
				m.dirty = round%2 == 0
				err := m.c.Wait(context.Background())
				if err == nil {
					m.Unlock()
				}
				done <- err
			}()
			if round > p.Rounds/10+5 {
				break
			}
			sig := make(chan struct{})
			var through atomic.Bool
			go func() {
				defer close(sig)
				for i := 0; i < 2000 && !through.Load(); i++ { // (signals until the waiter is through: the first may precede its Wait)
					m.Lock()
					m.Unlock()
					m.c.Signal()
					time.Sleep(50 * time.Microsecond)
				}
			}()
			select {
			case err := <-done:
				through.Store(true)
				if err != nil {
					return out, vk.Violf("wrong-error", "round %d: Wait with a context that never ends returned %v", round, err)
				}
			case <-vk.After(10 * time.Second):
				through.Store(true)
				return out, vk.Violf("wedged", "round %d: a Locker whose Unlock calls Broadcast (state dirty: %v): Wait has not returned 10 s after Signals that followed its entry", round, round%2 == 0)
			}
			<-sig
			continue
		}
		var mu sync.Mutex
		c := xsync.NewContextCond(&mu)
		// the waiter and the aimed Broadcast leave a common starting line (both spin on a flag: a channel
		// wake-up would cost microseconds of jitter, the windows of interest are nanoseconds wide)
		var ready, goFlag atomic.Int32
		waiterDone := make(chan error, 1)
		go func() {
			mu.Lock()
			ready.Add(1)
			for goFlag.Load() == 0 {
			}
			err := c.Wait(context.Background())
			if err == nil {
				mu.Unlock()
			}
			waiterDone <- err
		}()
		bdone := make(chan struct{})
		go func() {
			defer close(bdone)
			ready.Add(1)
			for goFlag.Load() == 0 {
			}
			for k := round % p.SpinMax; k > 0; k-- {
				spinSink.Add(1)
			}
			c.Broadcast()
		}()
		var noise sync.WaitGroup
		for i := 0; i < p.Signalers+p.Broadcasters; i++ {
			noise.Add(1)
			go func(bc bool) {
				defer noise.Done()
				for k := 0; k < p.NoiseCalls; k++ {
					if bc {
						c.Broadcast()
					} else {
						c.Signal()
					}
				}
			}(i >= p.Signalers)
		}
		mainDone := make(chan struct{})
		go func() {
			defer close(mainDone)
			for ready.Load() < 2 {
				time.Sleep(2 * time.Microsecond)
			}
			goFlag.Store(1)
			<-bdone
			mu.Lock() // the waiter has released the lock inside Wait (or has finished)
			mu.Unlock()
			c.Signal()
			noise.Wait()
		}()
		limit := vk.After(10 * time.Second)
		select {
		case <-mainDone:
		case <-limit:
			return out, vk.Violf("wedged", "round %d: Broadcast / Signal calls made without holding the lock (%d signalling, %d broadcasting goroutines, one waiter) have not all returned after 10 s", round, p.Signalers+1, p.Broadcasters+1)
		}
		select {
		case err := <-waiterDone:
			if err != nil {
				return out, vk.Violf("wrong-error", "round %d: Wait with a context that never ends returned %v", round, err)
			}
		case <-limit:
			return out, vk.Violf("lost-wakeup", "round %d: a goroutine entered Wait (it had released the lock: the lock could be taken), then Signal was called (and a Broadcast around the time it entered): it has not been woken after 10 s", round)
		}
	}
	out.NonTrivial, out.Execs = true, p.Rounds
	out.Label("real-storm")
	return out, nil
}

func TestCondRealStorm(t *testing.T) {
	vk.Run(t, suite, "cond-real-storm", 40, genRealStorm, runRealStorm)
}
