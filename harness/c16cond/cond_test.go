package c16cond

import (
	"context"
	"fmt"
	"sync"
	"testing"
	"testing/synctest"

	"github.com/bradenaw/juniper/xsync"
	"pgregory.net/rapid"

	"verif/harness/vk"
)

var suite = vk.NewSuite("C16")
var theT *testing.T

func TestMain(m *testing.M) { suite.Main(m) }

type Step struct {
	Op      string `json:"op"` // signal | broadcast | open | cancel
	W       int    `json:"w,omitempty"`
	Quiesce bool   `json:"q"`
}

type Round struct {
	K      int    `json:"k"`
	Parked []bool `json:"parked"` // per waiter: let through to park, or held between unlock and park
	Steps  []Step `json:"steps"`
}

// Plan: one or two rounds on the same ContextCond (the second round meets whatever channel state the
// first one left behind, e.g. the channel installed by a Broadcast).
type Plan struct {
	Rounds []Round `json:"rounds"`
}

func genPlan(t *rapid.T) Plan {
	var pl Plan
	for r := rapid.IntRange(1, 2).Draw(t, "rounds"); r > 0; r-- {
		pl.Rounds = append(pl.Rounds, genRound(t))
	}
	return pl
}

func genRound(t *rapid.T) Round {
	p := Round{K: rapid.IntRange(1, 5).Draw(t, "k")}
	for i := 0; i < p.K; i++ {
		p.Parked = append(p.Parked, rapid.Bool().Draw(t, "parked"))
	}
	racy := rapid.IntRange(0, 3).Draw(t, "racy") == 0
	n := rapid.IntRange(0, 8).Draw(t, "n")
	for i := 0; i < n; i++ {
		s := Step{Op: rapid.SampledFrom([]string{"signal", "signal", "signal", "broadcast", "open", "open", "cancel", "cancel", "lock", "unlock"}).Draw(t, "op"),
			W: rapid.IntRange(0, p.K-1).Draw(t, "w"), Quiesce: true}
		if racy {
			s.Quiesce = rapid.Bool().Draw(t, "q")
		}
		p.Steps = append(p.Steps, s)
	}
	return p
}

// gatedLocker: Lock is a plain exclusive lock; Unlock releases it and then, if the caller (known
// because the lock is exclusive) is a waiter whose gate is armed, blocks until the harness opens the
// gate: the waiter is then exactly between c.L.Unlock() and the select inside Wait.
type gatedLocker struct {
	mu     chan struct{} // the lock itself: a one-slot channel, so that waiting for it is durably blocked in a bubble
	st     sync.Mutex    // protects the fields below
	locked bool
	owner  int // waiter that marked itself as holder, -1 if none yet
	armed  map[int]chan struct{}
	bad    []string
}

func (l *gatedLocker) Lock() {
	l.mu <- struct{}{}
	l.st.Lock()
	l.locked, l.owner = true, -1
	l.st.Unlock()
}

func (l *gatedLocker) Unlock() {
	l.st.Lock()
	if !l.locked {
		l.bad = append(l.bad, "Unlock of an unlocked Locker")
		l.st.Unlock()
		return
	}
	owner := l.owner
	gate := l.armed[owner]
	delete(l.armed, owner)
	l.locked, l.owner = false, -1
	l.st.Unlock()
	<-l.mu
	if gate != nil {
		<-gate
	}
}

// mark is called by a goroutine that believes it holds the lock.
func (l *gatedLocker) mark(i int, what string) {
	l.st.Lock()
	defer l.st.Unlock()
	if !l.locked {
		l.bad = append(l.bad, fmt.Sprintf("waiter %d: %s but the lock is not held", i, what))
	} else if l.owner != -1 {
		l.bad = append(l.bad, fmt.Sprintf("waiter %d: %s but waiter %d holds the lock", i, what, l.owner))
	} else {
		l.owner = i
	}
}

type waiter struct {
	ctx      context.Context
	cancel   context.CancelFunc
	gate     chan struct{}
	opened   bool
	done     chan struct{}
	err      error
	returned bool
}

func run(pl Plan) (out vk.Outcome, verr error) {
	for _, p := range pl.Rounds {
		if p.K < 1 || len(p.Parked) != p.K {
			return out, fmt.Errorf("bad plan")
		}
	}
	var stuck string
	func() {
		defer func() {
			if r := recover(); r != nil {
				stuck = fmt.Sprint(r)
			}
		}()
		synctest.Test(theT, func(t *testing.T) {
			defer func() {
				if r := recover(); r != nil {
					verr = vk.Violf("panic", "panic inside bubble: %v", r)
				}
			}()
			l := &gatedLocker{owner: -1, armed: map[int]chan struct{}{}, mu: make(chan struct{}, 1)}
			c := xsync.NewContextCond(l)
			everSignalled := false // a Signal without a taker leaves a remembered token behind, also for later rounds
			for ri, p := range pl.Rounds {
				if verr = script(l, c, p, &out, &everSignalled); verr != nil {
					break
				}
				if ri > 0 {
					out.Label("second-round")
				}
			}
		})
	}()
	if stuck != "" && verr == nil {
		verr = vk.Violf("stuck", "bubble did not come to rest: %s", stuck)
	}
	return out, verr
}

func script(l *gatedLocker, c *xsync.ContextCond, p Round, out *vk.Outcome, everSignalled *bool) error {
	ws := make([]*waiter, p.K)
	var mu sync.Mutex
	start := func(i int) {
		w := &waiter{gate: make(chan struct{}), done: make(chan struct{})}
		w.ctx, w.cancel = context.WithCancel(context.Background())
		ws[i] = w
		go func() {
			defer close(w.done)
			l.Lock()
			l.mark(i, "after Lock")
			l.st.Lock()
			l.armed[i] = w.gate
			l.st.Unlock()
			err := c.Wait(w.ctx)
			mu.Lock()
			w.err, w.returned = err, true
			mu.Unlock()
			if err == nil {
				l.mark(i, "Wait returned nil")
				l.Unlock()
			}
		}()
	}
	open := func(i int) {
		if !ws[i].opened {
			ws[i].opened = true
			close(ws[i].gate)
		}
	}
	// phase 1
	for i := 0; i < p.K; i++ {
		start(i)
		synctest.Wait() // waiter i has released the lock and sits at its gate
		if p.Parked[i] {
			open(i)
			synctest.Wait() // now parked in the select
		}
	}
	// Model of a condition variable whose wakeup is ONE buffered slot (what the type documents itself
	// to be), used only to put a signature on a "too few woken" failure: did some Signal arrive while the
	// slot was already full although somebody still needed waking? Which parked waiter takes a token is
	// the runtime's choice, so the model tracks the set of all possible states (deterministically).
	type mstate struct {
		token          bool
		parked, window uint8
	}
	var init mstate
	inWindow := map[int]bool{} // used for labels only
	for i := 0; i < p.K; i++ {
		if p.Parked[i] {
			init.parked |= 1 << uint(i)
		} else {
			init.window |= 1 << uint(i)
			inWindow[i] = true
		}
	}
	states := []mstate{init}
	dedup := func(in []mstate) []mstate {
		seen := map[mstate]bool{}
		var outS []mstate
		for _, st := range in {
			if !seen[st] {
				seen[st] = true
				outS = append(outS, st)
			}
		}
		return outS
	}
	coalesced, uncertain := false, false
	cancelled := map[int]bool{}
	signals, broadcasts := 0, 0
	held := false // the harness itself holds c.L (a producer may Signal/cancel inside its critical section)
	signalWithWindow := false
	prevQuiesced := true
	for _, s := range p.Steps {
		if s.W >= p.K {
			s.W = p.K - 1
		}
		if !prevQuiesced {
			uncertain = true
		}
		switch s.Op {
		case "signal":
			signals++
			if len(inWindow) > 0 {
				signalWithWindow = true
			}
			var nx []mstate
			for _, st := range states {
				switch {
				case st.token:
					if st.parked|st.window != 0 {
						coalesced = true // this Signal found the slot full while somebody still waits
					}
					nx = append(nx, st)
				case st.parked != 0:
					for b := 0; b < p.K; b++ {
						if st.parked&(1<<uint(b)) != 0 {
							n2 := st
							n2.parked &^= 1 << uint(b)
							nx = append(nx, n2)
						}
					}
				default:
					st.token = true
					nx = append(nx, st)
				}
			}
			states = dedup(nx)
			*everSignalled = true
			c.Signal()
		case "broadcast":
			broadcasts++
			inWindow = map[int]bool{}
			states = []mstate{{}}
			c.Broadcast()
		case "open":
			if inWindow[s.W] {
				delete(inWindow, s.W)
			}
			{
				bit := uint8(1) << uint(s.W)
				var nx []mstate
				for _, st := range states {
					if st.window&bit == 0 {
						nx = append(nx, st)
						continue
					}
					st.window &^= bit
					if cancelled[s.W] { // it returns either way; it may or may not take a token with it
						nx = append(nx, st)
						if st.token {
							st.token = false
							nx = append(nx, st)
						}
					} else if st.token {
						st.token = false
						nx = append(nx, st)
					} else {
						st.parked |= bit
						nx = append(nx, st)
					}
				}
				states = dedup(nx)
			}
			open(s.W)
		case "lock":
			if !held {
				l.Lock()
				l.mark(-2, "harness Lock")
				held = true
				out.Label("lock-held-by-producer")
			}
		case "unlock":
			if held {
				l.Unlock()
				held = false
			}
		case "cancel":
			if !cancelled[s.W] {
				cancelled[s.W] = true
				for i := range states { // if it is parked it leaves (by its context); if it sits in the window it is only marked
					states[i].parked &^= 1 << uint(s.W)
				}
				states = dedup(states)
			}
			ws[s.W].cancel()
		}
		if s.Quiesce {
			synctest.Wait()
		}
		prevQuiesced = s.Quiesce
		// a parked waiter whose context was cancelled has returned by the next quiescence
		// (while the harness holds c.L a waiter that was already woken is legitimately queued on the lock, so
		// the promptness of a cancelled Wait is only judged if nobody can have been woken yet)
		if s.Quiesce && !(held && (signals+broadcasts > 0 || *everSignalled)) {
			for i, w := range ws {
				mu.Lock()
				ret := w.returned
				mu.Unlock()
				if cancelled[i] && w.opened && !ret {
					return vk.Violf("cancel-not-prompt", "waiter %d: context cancelled while parked, Wait has not returned at the next quiescence", i)
				}
			}
		}
	}
	// phase 3
	if held {
		l.Unlock()
		held = false
	}
	for i := range ws {
		open(i)
	}
	synctest.Wait()
	nilReturns, errReturns, nc := 0, 0, len(cancelled)
	for i, w := range ws {
		mu.Lock()
		ret, err := w.returned, w.err
		mu.Unlock()
		switch {
		case ret && err == nil:
			nilReturns++
		case ret:
			errReturns++
			_ = errReturns
			if !cancelled[i] || err != context.Canceled {
				return vk.Violf("spurious-error", "waiter %d: Wait returned %v (cancelled=%v)", i, err, cancelled[i])
			}
		case cancelled[i]:
			return vk.Violf("cancel-not-prompt", "waiter %d: context cancelled, Wait still blocked after quiescence", i)
		}
	}
	l.st.Lock()
	bad, stillLocked := append([]string(nil), l.bad...), l.locked
	l.st.Unlock()
	if len(bad) > 0 {
		return vk.Violf("lock-ownership", "%v", bad)
	}
	if stillLocked {
		return vk.Violf("lock-ownership", "the Locker is still held after every waiter returned or is blocked: a Wait that returned an error kept the lock")
	}
	var verr error
	if broadcasts > 0 && signals == 0 {
		// every phase-1 waiter that was waiting at the (last) Broadcast is awake; with Broadcast all of them were
		for i, w := range ws {
			mu.Lock()
			ret := w.returned
			mu.Unlock()
			if !ret {
				verr = vk.Violf("broadcast-missed", "waiter %d still blocked after Broadcast (k=%d, plan %s)", i, p.K, vk.Short(p))
			}
		}
	} else if broadcasts == 0 {
		need := signals
		if p.K-nc < need {
			need = p.K - nc
		}
		if nilReturns < need {
			verr = vk.Violf("too-few-woken", "%d Signals with %d waiters inside Wait (%d of them cancelled) woke only %d; plan %s", signals, p.K, nc, nilReturns, vk.Short(p)).
				With("coalesced", coalesced || (uncertain && signals >= 2)).With("signals", signals)
		}
	} else {
		// mixed Signal and Broadcast: everybody who entered before the last Broadcast must be awake; all did
		lastB := -1
		for i, s := range p.Steps {
			if s.Op == "broadcast" {
				lastB = i
			}
		}
		_ = lastB
		for i, w := range ws {
			mu.Lock()
			ret := w.returned
			mu.Unlock()
			if !ret {
				verr = vk.Violf("broadcast-missed", "waiter %d still blocked although a Broadcast was issued after it entered Wait; plan %s", i, vk.Short(p))
			}
		}
	}
	// let everything finish so that the bubble can exit
	for _, w := range ws {
		w.cancel()
	}
	synctest.Wait()
	for _, w := range ws {
		<-w.done
	}
	if signalWithWindow {
		out.Label("signal-while-in-window")
	}
	if broadcasts > 0 {
		out.Label("broadcast")
	}
	if nc > 0 {
		out.Label("cancelled-waiter")
	}
	if uncertain {
		out.Label("racing-steps")
	}
	if coalesced {
		out.Label("coalesced-signals")
	}
	if p.K >= 2 && (signalWithWindow || (broadcasts > 0 && len(p.Parked) > 0 && hasWindow(p))) {
		out.NonTrivial = true
	}
	return verr
}

func hasWindow(p Round) bool {
	for _, b := range p.Parked {
		if !b {
			return true
		}
	}
	return false
}

func runReps(p Plan) (vk.Outcome, error) {
	reps := vk.Reps(3, 10)
	var out vk.Outcome
	for i := 0; i < reps; i++ {
		o, err := run(p)
		if err != nil {
			return o, err
		}
		out = o
	}
	out.Execs = reps
	return out, nil
}

func TestContextCond(t *testing.T) {
	theT = t
	vk.Run(t, suite, "cond", 2000, genPlan, runReps)
}
