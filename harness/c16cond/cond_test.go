package c16cond

import (
	"context"
	"fmt"
	"runtime"
	"sync"
	"sync/atomic"
	"testing"
	"testing/synctest"
	"time"

	"github.com/bradenaw/juniper/xsync"
	"pgregory.net/rapid"

	"verif/harness/sk"
	"verif/harness/vk"
)

var suite = vk.NewSuite("C16")
var theT *testing.T

func TestMain(m *testing.M) { suite.Main(m) }

type Step struct {
	Op      string `json:"op"` // signal | broadcast | open | cancel
	W       int    `json:"w,omitempty"`
	Quiesce bool   `json:"q"`
}

type Round struct {
	K      int    `json:"k"`
	Parked []bool `json:"parked"` // per waiter: let through to park, or held between unlock and park
	Steps  []Step `json:"steps"`
	// Pre: per initial waiter, its context has already ended when it calls Wait
	Pre []bool `json:"pre,omitempty"`
	// Late: waiters that enter Wait in the middle of the script (step "enter"), i.e. after Signals that
	// may have left a remembered wakeup behind and while earlier waiters sit between unlock and park
	Late []LateW `json:"late,omitempty"`
	// Detached: the waiters' contexts are of a hand-written type (sk.Detach)
	Detached bool `json:"detached,omitempty"`
	// Timed: the waiters' contexts also carry a deadline (one fake hour away); a context that is cancelled before
	// its Wait has, by the time of the call, seen its deadline pass as well - it was cancelled, and says so
	Timed bool `json:"timed,omitempty"`
}

type LateW struct {
	Parked bool `json:"parked"`
	Pre    bool `json:"pre,omitempty"`
}

// Plan: one or two rounds on the same ContextCond (the second round meets whatever channel state the
// first one left behind, e.g. the channel installed by a Broadcast).
type Plan struct {
	Rounds []Round `json:"rounds"`
	// ByValue: the cond lives inside another struct, stored by value right after construction and before its
	// first use (`q.cond = *xsync.NewContextCond(&q.mu)`), and is used through the address of that field
	ByValue bool `json:"by_value,omitempty"`
	// ReassignL: the cond is constructed with one Locker and given another (the exported field L is assigned)
	// before its first use, as is done with sync.Cond
	ReassignL bool `json:"reassign_l,omitempty"`
}

func genPlan(t *rapid.T) Plan {
	var pl Plan
	for r := rapid.IntRange(1, 2).Draw(t, "rounds"); r > 0; r-- {
		pl.Rounds = append(pl.Rounds, genRound(t))
	}
	pl.ByValue = rapid.IntRange(0, 3).Draw(t, "byvalue") == 0
	pl.ReassignL = rapid.IntRange(0, 3).Draw(t, "reassignl") == 0
	return pl
}

func genRound(t *rapid.T) Round {
	p := Round{K: rapid.IntRange(1, 5).Draw(t, "k")}
	for i := 0; i < p.K; i++ {
		p.Parked = append(p.Parked, rapid.Bool().Draw(t, "parked"))
		p.Pre = append(p.Pre, rapid.IntRange(0, 7).Draw(t, "pre") == 0)
	}
	for nl := rapid.SampledFrom([]int{0, 0, 1, 2, 3}).Draw(t, "nlate"); nl > 0; nl-- {
		p.Late = append(p.Late, LateW{Parked: rapid.Bool().Draw(t, "lparked"), Pre: rapid.IntRange(0, 7).Draw(t, "lpre") == 0})
	}
	ops := []string{"signal", "signal", "signal", "broadcast", "open", "open", "cancel", "cancel", "lock", "unlock"}
	if len(p.Late) > 0 {
		ops = append(ops, "enter", "enter", "enter")
	}
	p.Detached = rapid.IntRange(0, 4).Draw(t, "detached") == 0
	p.Timed = rapid.IntRange(0, 4).Draw(t, "timed") == 0
	racy := rapid.IntRange(0, 3).Draw(t, "racy") == 0
	n := rapid.IntRange(0, 8).Draw(t, "n")
	for i := 0; i < n; i++ {
		s := Step{Op: rapid.SampledFrom(ops).Draw(t, "op"),
			W: rapid.IntRange(0, p.K+len(p.Late)-1).Draw(t, "w"), Quiesce: true}
		if racy {
			s.Quiesce = rapid.Bool().Draw(t, "q")
		}
		p.Steps = append(p.Steps, s)
	}
	return p
}

// gatedLocker: Lock is a plain exclusive lock; Unlock releases it and then, if the caller (known
// because the lock is exclusive) is a waiter whose gate is armed, blocks until the harness opens the
// gate: the waiter is then exactly between c.L.Unlock() and the select inside Wait.
type gatedLocker struct {
	mu     chan struct{} // the lock itself: a one-slot channel, so that waiting for it is durably blocked in a bubble
	st     sync.Mutex    // protects the fields below
	locked bool
	owner  int // waiter that marked itself as holder, -1 if none yet
	armed  map[int]chan struct{}
	bad    []string
}

func (l *gatedLocker) Lock() {
	l.mu <- struct{}{}
	l.st.Lock()
	l.locked, l.owner = true, -1
	l.st.Unlock()
}

func (l *gatedLocker) Unlock() {
	l.st.Lock()
	if !l.locked {
		l.bad = append(l.bad, "Unlock of an unlocked Locker")
		l.st.Unlock()
		return
	}
	owner := l.owner
	gate := l.armed[owner]
	delete(l.armed, owner)
	l.locked, l.owner = false, -1
	l.st.Unlock()
	<-l.mu
	if gate != nil {
		<-gate
	}
}

// mark is called by a goroutine that believes it holds the lock.
func (l *gatedLocker) mark(i int, what string) {
	l.st.Lock()
	defer l.st.Unlock()
	if !l.locked {
		l.bad = append(l.bad, fmt.Sprintf("waiter %d: %s but the lock is not held", i, what))
	} else if l.owner != -1 {
		l.bad = append(l.bad, fmt.Sprintf("waiter %d: %s but waiter %d holds the lock", i, what, l.owner))
	} else {
		l.owner = i
	}
}

type waiter struct {
	ctx      context.Context
	cancel   context.CancelFunc
	gate     chan struct{}
	opened   bool
	done     chan struct{}
	err      error
	returned bool
}

func run(pl Plan) (out vk.Outcome, verr error) {
	for _, p := range pl.Rounds {
		if p.K < 1 || len(p.Parked) != p.K || p.K+len(p.Late) > 8 || (len(p.Pre) != 0 && len(p.Pre) != p.K) {
			return out, fmt.Errorf("bad plan")
		}
	}
	var stuck string
	func() {
		defer func() {
			if r := recover(); r != nil {
				stuck = fmt.Sprint(r)
			}
		}()
		synctest.Test(theT, func(t *testing.T) {
			defer func() {
				if r := recover(); r != nil {
					verr = vk.Violf("panic", "panic inside bubble: %v", r)
				}
			}()
			l := &gatedLocker{owner: -1, armed: map[int]chan struct{}{}, mu: make(chan struct{}, 1)}
			c := xsync.NewContextCond(l)
			if pl.ReassignL {
				c = xsync.NewContextCond(new(sync.Mutex))
				c.L = l
			}
			if pl.ByValue {
				holder := new(struct {
					pad  [3]int
					cond xsync.ContextCond
				})
				holder.cond = *c //nolint:govet // copied before its first use, like a sync.Cond may be
				c = &holder.cond
			}
			everSignalled := false // a Signal without a taker leaves a remembered token behind, also for later rounds
			for ri, p := range pl.Rounds {
				if verr = script(l, c, p, &out, &everSignalled); verr != nil {
					break
				}
				if ri > 0 {
					out.Label("second-round")
				}
			}
		})
	}()
	if stuck != "" && verr == nil {
		verr = vk.Violf("stuck", "bubble did not come to rest: %s", stuck)
	}
	return out, verr
}

func script(l *gatedLocker, c *xsync.ContextCond, p Round, out *vk.Outcome, everSignalled *bool) error {
	ws := make([]*waiter, 0, p.K+len(p.Late))
	var mu sync.Mutex
	cancelled := map[int]bool{}
	pre := func(i int) bool {
		if i < p.K {
			return i < len(p.Pre) && p.Pre[i]
		}
		return p.Late[i-p.K].Pre
	}
	start := func(i int) {
		w := &waiter{gate: make(chan struct{}), done: make(chan struct{})}
		w.ctx, w.cancel = sk.WithCancel(context.Background())
		if p.Timed {
			w.ctx, w.cancel = sk.WithTimeout(context.Background(), time.Hour)
		}
		if p.Detached && i%2 == 0 {
			w.ctx = sk.Detach(w.ctx)
		} else if p.Detached {
			w.ctx = sk.DetachValue(w.ctx) // (a by-value context type that == cannot compare)
		}
		if pre(i) {
			w.cancel()
			cancelled[i] = true
			out.Label("context-ended-before-wait")
			if p.Timed && i == 0 {
				time.Sleep(2 * time.Hour) // ... and its deadline has passed, too
			}
		}
		ws = append(ws, w)
		go func() {
			defer close(w.done)
			l.Lock()
			l.mark(i, "after Lock")
			l.st.Lock()
			l.armed[i] = w.gate
			l.st.Unlock()
			err := c.Wait(w.ctx)
			mu.Lock()
			w.err, w.returned = err, true
			mu.Unlock()
			if err == nil {
				l.mark(i, "Wait returned nil")
				l.Unlock()
			}
		}()
	}
	open := func(i int) {
		if !ws[i].opened {
			ws[i].opened = true
			close(ws[i].gate)
		}
	}
	// phase 1
	for i := 0; i < p.K; i++ {
		start(i)
		synctest.Wait() // waiter i has released the lock and sits at its gate
		if p.Parked[i] {
			open(i)
			synctest.Wait() // now parked in the select
		}
	}
	// Model of a condition variable whose wakeup is ONE buffered slot (what the type documents itself
	// to be), used only to put a signature on a "too few woken" failure: did some Signal arrive while the
	// slot was already full although somebody still needed waking? Which parked waiter takes a token is
	// the runtime's choice, so the model tracks the set of all possible states (deterministically).
	type mstate struct {
		token          bool
		parked, window uint8
	}
	var init mstate
	inWindow := map[int]bool{} // used for labels only
	for i := 0; i < p.K; i++ {
		if p.Parked[i] {
			if !cancelled[i] { // a waiter whose context had already ended has left again
				init.parked |= 1 << uint(i)
			}
		} else {
			init.window |= 1 << uint(i)
			inWindow[i] = true
		}
	}
	states := []mstate{init}
	dedup := func(in []mstate) []mstate {
		seen := map[mstate]bool{}
		var outS []mstate
		for _, st := range in {
			if !seen[st] {
				seen[st] = true
				outS = append(outS, st)
			}
		}
		return outS
	}
	coalesced, uncertain := false, false
	signals, broadcasts := 0, 0
	var enteredAtSignal [][]int // per Signal: the waiters that had entered Wait before it
	enteredBeforeLastBroadcast := map[int]bool{}
	nextLate := 0
	// openModel: waiter w leaves the window between unlock and park
	openModel := func(w int) {
		bit := uint8(1) << uint(w)
		var nx []mstate
		for _, st := range states {
			if st.window&bit == 0 {
				nx = append(nx, st)
				continue
			}
			st.window &^= bit
			if cancelled[w] { // it returns either way; it may or may not take a token with it
				nx = append(nx, st)
				if st.token {
					st.token = false
					nx = append(nx, st)
				}
			} else if st.token {
				st.token = false
				nx = append(nx, st)
			} else {
				st.parked |= bit
				nx = append(nx, st)
			}
		}
		states = dedup(nx)
	}
	held := false // the harness itself holds c.L (a producer may Signal/cancel inside its critical section)
	signalWithWindow := false
	prevQuiesced := true
	for _, s := range p.Steps {
		if s.W >= len(ws) {
			s.W = len(ws) - 1
		}
		if !prevQuiesced {
			uncertain = true
		}
		switch s.Op {
		case "enter":
			if held || nextLate >= len(p.Late) {
				break // (while the harness holds c.L nobody can get as far as Wait)
			}
			i := p.K + nextLate
			lw := p.Late[nextLate]
			nextLate++
			start(i)
			synctest.Wait() // it has released the lock and sits at its gate
			for k := range states {
				states[k].window |= 1 << uint(i)
			}
			inWindow[i] = true
			out.Label("late-entrant")
			if lw.Parked {
				delete(inWindow, i)
				openModel(i)
				open(i)
				synctest.Wait()
			}
		case "signal":
			signals++
			enteredAtSignal = append(enteredAtSignal, func() []int {
				var e []int
				for i := range ws {
					e = append(e, i)
				}
				return e
			}())
			if len(inWindow) > 0 {
				signalWithWindow = true
			}
			var nx []mstate
			for _, st := range states {
				switch {
				case st.token:
					if st.parked|st.window != 0 {
						coalesced = true // this Signal found the slot full while somebody still waits
					}
					nx = append(nx, st)
				case st.parked != 0:
					for b := 0; b < 8; b++ {
						if st.parked&(1<<uint(b)) != 0 {
							n2 := st
							n2.parked &^= 1 << uint(b)
							nx = append(nx, n2)
						}
					}
				default:
					st.token = true
					nx = append(nx, st)
				}
			}
			states = dedup(nx)
			*everSignalled = true
			c.Signal()
		case "broadcast":
			broadcasts++
			enteredBeforeLastBroadcast = map[int]bool{}
			for i := range ws {
				enteredBeforeLastBroadcast[i] = true
			}
			inWindow = map[int]bool{}
			states = []mstate{{}}
			c.Broadcast()
		case "open":
			if inWindow[s.W] {
				delete(inWindow, s.W)
			}
			openModel(s.W)
			open(s.W)
		case "lock":
			if !held {
				l.Lock()
				l.mark(-2, "harness Lock")
				held = true
				out.Label("lock-held-by-producer")
			}
		case "unlock":
			if held {
				l.Unlock()
				held = false
			}
		case "cancel":
			if !cancelled[s.W] {
				cancelled[s.W] = true
				for i := range states { // if it is parked it leaves (by its context); if it sits in the window it is only marked
					states[i].parked &^= 1 << uint(s.W)
				}
				states = dedup(states)
			}
			ws[s.W].cancel()
		}
		if s.Quiesce {
			synctest.Wait()
		}
		prevQuiesced = s.Quiesce
		// a parked waiter whose context was cancelled has returned by the next quiescence
		// (while the harness holds c.L a waiter that was already woken is legitimately queued on the lock, so
		// the promptness of a cancelled Wait is only judged if nobody can have been woken yet)
		if s.Quiesce && !(held && (signals+broadcasts > 0 || *everSignalled)) {
			for i, w := range ws {
				mu.Lock()
				ret := w.returned
				mu.Unlock()
				if cancelled[i] && w.opened && !ret {
					return vk.Violf("cancel-not-prompt", "waiter %d: context cancelled while parked, Wait has not returned at the next quiescence", i)
				}
			}
		}
	}
	// phase 3
	if held {
		l.Unlock()
		held = false
	}
	for i := range ws {
		open(i)
	}
	synctest.Wait()
	nilReturns, errReturns, nc := 0, 0, len(cancelled)
	for i, w := range ws {
		mu.Lock()
		ret, err := w.returned, w.err
		mu.Unlock()
		switch {
		case ret && err == nil:
			nilReturns++
		case ret:
			errReturns++
			_ = errReturns
			if !cancelled[i] || err != context.Canceled {
				return vk.Violf("spurious-error", "waiter %d: Wait returned %v (cancelled=%v)", i, err, cancelled[i])
			}
		case cancelled[i]:
			return vk.Violf("cancel-not-prompt", "waiter %d: context cancelled, Wait still blocked after quiescence", i)
		}
	}
	l.st.Lock()
	bad, stillLocked := append([]string(nil), l.bad...), l.locked
	l.st.Unlock()
	if len(bad) > 0 {
		return vk.Violf("lock-ownership", "%v", bad)
	}
	if stillLocked {
		return vk.Violf("lock-ownership", "the Locker is still held after every waiter returned or is blocked: a Wait that returned an error kept the lock")
	}
	var verr error
	if broadcasts > 0 && signals == 0 {
		// every waiter that had entered Wait before the (last) Broadcast is awake
		for i, w := range ws {
			mu.Lock()
			ret := w.returned
			mu.Unlock()
			if !ret && enteredBeforeLastBroadcast[i] {
				verr = vk.Violf("broadcast-missed", "waiter %d still blocked after Broadcast (k=%d, plan %s)", i, p.K, vk.Short(p))
			}
		}
	} else if broadcasts == 0 {
		// Each Signal wakes one of the waiters that entered before it and are still asleep, if there is one
		// (waiters whose context ends at some point are not counted: they may leave on their own).
		need := 0
		for _, entered := range enteredAtSignal {
			e := 0
			for _, i := range entered {
				if !cancelled[i] {
					e++
				}
			}
			if e > need {
				need++
			}
		}
		if nilReturns < need {
			verr = vk.Violf("too-few-woken", "%d Signals with %d waiters inside Wait (%d of them cancelled) woke only %d, at least %d were owed a wakeup; plan %s", signals, len(ws), nc, nilReturns, need, vk.Short(p)).
				With("coalesced", coalesced || (uncertain && signals >= 2)).With("signals", signals)
		}
	} else {
		// mixed Signal and Broadcast: everybody who entered before the last Broadcast must be awake; all did
		lastB := -1
		for i, s := range p.Steps {
			if s.Op == "broadcast" {
				lastB = i
			}
		}
		_ = lastB
		for i, w := range ws {
			mu.Lock()
			ret := w.returned
			mu.Unlock()
			if !ret && enteredBeforeLastBroadcast[i] {
				verr = vk.Violf("broadcast-missed", "waiter %d still blocked although a Broadcast was issued after it entered Wait; plan %s", i, vk.Short(p))
			}
		}
	}
	// let everything finish so that the bubble can exit
	for _, w := range ws {
		w.cancel()
	}
	synctest.Wait()
	for _, w := range ws {
		<-w.done
	}
	if signalWithWindow {
		out.Label("signal-while-in-window")
	}
	if broadcasts > 0 {
		out.Label("broadcast")
	}
	if nc > 0 {
		out.Label("cancelled-waiter")
	}
	if uncertain {
		out.Label("racing-steps")
	}
	if coalesced {
		out.Label("coalesced-signals")
	}
	if len(ws) >= 2 && (signalWithWindow || (broadcasts > 0 && len(p.Parked) > 0 && hasWindow(p))) {
		out.NonTrivial = true
	}
	return verr
}

func hasWindow(p Round) bool {
	for _, b := range p.Parked {
		if !b {
			return true
		}
	}
	return false
}

func runReps(p Plan) (vk.Outcome, error) {
	reps := vk.Reps(3, 10)
	var out vk.Outcome
	for i := 0; i < reps; i++ {
		o, err := run(p)
		if err != nil {
			return o, err
		}
		out = o
	}
	out.Execs = reps
	return out, nil
}

func TestContextCond(t *testing.T) {
	theT = t
	vk.Run(t, suite, "cond", 2000, genPlan, runReps)
}

// ---------------------------------------------------------------- Broadcast overlapping other calls, real parallelism
//
// The scripted plans start calls one after the other; a Broadcast that runs while another goroutine
// is inside Signal or on its way into Wait needs real parallelism and many tries. Per round: K waiters
// park, then noise goroutines hammer the cond (Waits whose context has already ended, or Signals)
// while the harness calls Broadcast once. Every waiter entered before that Broadcast, so at the next
// quiescence all of them must have returned nil. (Decided inside a bubble: no timeouts.)

type BStormPlan struct {
	K      int    `json:"k"`
	Noise  string `json:"noise"` // ended-waits | signals | both | none
	M      int    `json:"m"`     // noise goroutines
	Rounds int    `json:"rounds"`
	// Shared: c.L is the read side of an RWMutex (as with sync.Cond, any Locker will do), so several
	// goroutines can be between "locked c.L" and "inside Wait" at the same time; the K waiters then enter
	// Wait together, right after a Broadcast that found nobody waiting.
	Shared bool `json:"shared,omitempty"`
	// Burst: before anybody waits, that many goroutines call Signal at the same instant (nobody is there to
	// take the wakeups). Signal never waits for anybody: all of them have returned at the next quiescence.
	Burst int `json:"burst,omitempty"`
}

func genBStorm(t *rapid.T) BStormPlan {
	return BStormPlan{K: rapid.IntRange(2, 4).Draw(t, "k"), Noise: rapid.SampledFrom([]string{"ended-waits", "ended-waits", "signals", "both"}).Draw(t, "noise"),
		M: rapid.IntRange(1, 3).Draw(t, "m"), Rounds: rapid.IntRange(100, 400).Draw(t, "rounds"), Shared: rapid.IntRange(0, 2).Draw(t, "shared") == 0,
		Burst: rapid.SampledFrom([]int{0, 0, 2, 3, 4}).Draw(t, "burst")}
}

type chanLock chan struct{}

func (l chanLock) Lock()   { l <- struct{}{} }
func (l chanLock) Unlock() { <-l }

func runBStorm(p BStormPlan) (out vk.Outcome, verr error) {
	var stuck string
	func() {
		defer func() {
			if r := recover(); r != nil {
				stuck = fmt.Sprint(r)
			}
		}()
		synctest.Test(theT, func(t *testing.T) {
			defer func() {
				if r := recover(); r != nil {
					verr = vk.Violf("panic", "panic inside bubble: %v", r)
				}
			}()
			ended, cancel := sk.WithCancel(context.Background())
			cancel()
			for round := 0; round < p.Rounds && verr == nil; round++ {
				var l sync.Locker = make(chanLock, 1)
				if p.Shared {
					l = new(sync.RWMutex).RLocker() // never blocks here: nobody takes the write side
				}
				c := xsync.NewContextCond(l)
				if p.Burst > 0 {
					start := make(chan struct{})
					var in atomic.Int32
					for b := 0; b < p.Burst; b++ {
						in.Add(1)
						go func() {
							<-start
							c.Signal()
							in.Add(-1)
						}()
					}
					synctest.Wait()
					close(start)
					synctest.Wait()
					if n := in.Load(); n != 0 {
						// (do not touch the cond again: a Signal stuck inside it may hold its internal lock)
						vk.Established(vk.Violf("signal-blocked", "round %d: %d of %d Signal calls issued at the same instant (nobody waiting) have not returned at quiescence", round, n, p.Burst))
						verr = vk.Violf("signal-blocked", "round %d: %d of %d Signal calls issued at the same instant (nobody waiting) have not returned at quiescence", round, n, p.Burst)
						return
					}
				}
				if p.Shared {
					c.Broadcast() // nobody is waiting yet
				}
				live, stopAll := sk.WithCancel(context.Background())
				returned := make([]atomic.Bool, p.K)
				var wg sync.WaitGroup
				gate := make(chan struct{})
				if !p.Shared {
					close(gate)
				}
				for i := 0; i < p.K; i++ {
					wg.Add(1)
					go func(i int) {
						defer wg.Done()
						<-gate
						l.Lock()
						if err := c.Wait(live); err == nil {
							returned[i].Store(true)
							l.Unlock()
						}
					}(i)
				}
				if p.Shared {
					synctest.Wait()
					close(gate) // all K go for c.L and Wait at the same moment
				}
				synctest.Wait() // all K are parked inside Wait
				var stop atomic.Bool
				var noise sync.WaitGroup
				for m := 0; m < p.M; m++ {
					noise.Add(1)
					go func(m int) {
						defer noise.Done()
						for n := 0; !stop.Load() && n < 100000; n++ {
							if p.Noise == "signals" || (p.Noise == "both" && m%2 == 1) {
								c.Signal()
								runtime.Gosched()
								continue
							}
							l.Lock()
							if err := c.Wait(ended); err == nil {
								l.Unlock()
							}
						}
					}(m)
				}
				for k := 0; k < (round%8)*50; k++ {
					runtime.Gosched()
				}
				c.Broadcast()
				stop.Store(true)
				noise.Wait()
				synctest.Wait()
				for i := range returned {
					if !returned[i].Load() {
						verr = vk.Violf("broadcast-missed", "round %d: waiter %d of %d was parked inside Wait before Broadcast was called (which overlapped %d goroutines doing %s) and is still blocked at quiescence", round, i, p.K, p.M, p.Noise)
					}
				}
				stopAll()
				wg.Wait()
			}
		})
	}()
	if stuck != "" && verr == nil {
		verr = vk.Violf("stuck", "%s", stuck)
	}
	out.NonTrivial = true
	out.Execs = p.Rounds
	out.Label("broadcast-storm/" + p.Noise)
	return out, verr
}

func TestBroadcastStorm(t *testing.T) {
	theT = t
	vk.Run(t, suite, "broadcast-storm", 40, genBStorm, runBStorm)
}
