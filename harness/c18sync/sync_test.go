package c18sync

import (
	"context"
	"errors"
	"fmt"
	"reflect"
	"sync"
	"sync/atomic"
	"testing"
	"testing/synctest"
	"time"

	"github.com/bradenaw/juniper/xsync"
	"pgregory.net/rapid"

	"verif/harness/sk"
	"verif/harness/vk"
)

var suite = vk.NewSuite("C18")
var theT *testing.T

func TestMain(m *testing.M) { suite.Main(m) }

// ---------------------------------------------------------------- typed Map vs sync.Map

type MOp struct {
	Op  string `json:"op"` // Load Store LoadOrStore LoadAndDelete Delete Swap CompareAndSwap CompareAndDelete Range
	K   int    `json:"k"`
	V   int    `json:"v,omitempty"`   // value code
	Old int    `json:"old,omitempty"` // value code for the compare argument
}

type MapPlan struct {
	VType string `json:"vtype"`           // int string ptr error any
	KType string `json:"ktype,omitempty"` // "" = int keys; "any" = interface keys, one of them the nil interface
	Ops   []MOp  `json:"ops"`
}

var mapOps = []string{"Load", "Load", "Store", "Store", "LoadOrStore", "LoadAndDelete", "Delete", "Swap", "Swap", "CompareAndSwap", "CompareAndDelete", "Range", "RangeDel"}

func genMapPlan(t *rapid.T) MapPlan {
	p := MapPlan{VType: rapid.SampledFrom([]string{"int", "string", "ptr", "error", "any"}).Draw(t, "vtype")}
	if rapid.IntRange(0, 3).Draw(t, "anykeys") == 0 {
		p.KType = "any"
	}
	n := rapid.IntRange(1, 30).Draw(t, "n")
	for i := 0; i < n; i++ {
		p.Ops = append(p.Ops, MOp{Op: rapid.SampledFrom(mapOps).Draw(t, "op"), K: rapid.IntRange(0, 3).Draw(t, "k"),
			V: rapid.IntRange(0, 4).Draw(t, "v"), Old: rapid.IntRange(0, 4).Draw(t, "old")})
	}
	return p
}

type T struct{ X int }

var ptrPool = []*T{nil, {1}, {2}, {3}, {4}}
var errPool = []error{nil, errors.New("e1"), errors.New("e2"), fmt.Errorf("wrapped: %w", errors.New("e3")), errors.New("e4")}
var anyPool = []any{nil, 1, "two", []int{3}, &T{4}}

func same(a, b any) (eq bool) {
	defer func() {
		if recover() != nil {
			eq = reflect.DeepEqual(a, b)
		}
	}()
	return a == b
}

func catch2(f func()) (panicked bool) {
	defer func() {
		if recover() != nil {
			panicked = true
		}
	}()
	f()
	return false
}

var anyKeys = []any{nil, 1, "k2", 3.5}

func runMapTyped[V any](p MapPlan, mk func(int) V) (vk.Outcome, error) {
	if p.KType == "any" {
		return runMapKV(p, func(i int) any { return anyKeys[i&3] }, mk)
	}
	return runMapKV(p, func(i int) int { return i & 3 }, mk)
}

func runMapKV[K comparable, V any](p MapPlan, mkK func(int) K, mk func(int) V) (vk.Outcome, error) {
	var out vk.Outcome
	var w xsync.Map[K, V]
	var ref sync.Map
	var zero V
	absentLoad, nilPresentLoad := false, false
	poisoned := false
	for i, o := range p.Ops {
		if poisoned {
			break
		}
		what := fmt.Sprintf("step %d %s (V=%s K=%s)", i, vk.Short(o), p.VType, p.KType)
		key := mkK(o.K)
		_, present := ref.Load(any(key))
		rv, _ := ref.Load(any(key))
		holdsNil := present && rv == nil
		// cmp runs the same operation on both maps; each returns (value, flag).
		cmp := func(name string, fw func() (V, bool), fr func() (any, bool)) error {
			var gv V
			var gok bool
			var rvv any
			var rok bool
			wp := catch2(func() { gv, gok = fw() })
			rp := catch2(func() { rvv, rok = fr() })
			if wp != rp {
				return vk.Violf("map-panic", "%s: xsync.Map.%s panicked=%v, sync.Map panicked=%v (key present=%v, holds nil interface=%v)", what, name, wp, rp, present, holdsNil)
			}
			if wp {
				out.Label("both-panic")
				poisoned = true // a panic inside sync.Map may leave its internal lock held: stop using both maps
				return nil
			}
			if gok != rok {
				return vk.Violf("map-flag", "%s: %s flag %v, sync.Map %v", what, name, gok, rok)
			}
			if rvv == nil {
				if !same(any(gv), any(zero)) {
					return vk.Violf("map-value", "%s: %s returned %v where sync.Map has nil (absent or nil value): want the zero value", what, name, gv)
				}
			} else if !same(any(gv), rvv) {
				return vk.Violf("map-value", "%s: %s returned %v, sync.Map %v", what, name, gv, rvv)
			}
			return nil
		}
		v, old := mk(o.V), mk(o.Old)
		var err error
		switch o.Op {
		case "Load":
			if !present {
				absentLoad = true
			}
			if holdsNil {
				nilPresentLoad = true
			}
			err = cmp("Load", func() (V, bool) { return w.Load(key) }, func() (any, bool) { return ref.Load(any(key)) })
		case "Store":
			w.Store(key, v)
			ref.Store(any(key), any(v))
		case "LoadOrStore":
			if holdsNil {
				nilPresentLoad = true
			}
			err = cmp("LoadOrStore", func() (V, bool) { return w.LoadOrStore(key, v) }, func() (any, bool) { return ref.LoadOrStore(any(key), any(v)) })
		case "LoadAndDelete":
			if !present {
				absentLoad = true
			}
			if holdsNil {
				nilPresentLoad = true
			}
			err = cmp("LoadAndDelete", func() (V, bool) { return w.LoadAndDelete(key) }, func() (any, bool) { return ref.LoadAndDelete(any(key)) })
		case "Delete":
			w.Delete(key)
			ref.Delete(any(key))
		case "Swap":
			if !present {
				absentLoad = true
			}
			if holdsNil {
				nilPresentLoad = true
			}
			err = cmp("Swap", func() (V, bool) { return w.Swap(key, v) }, func() (any, bool) { return ref.Swap(any(key), any(v)) })
		case "CompareAndSwap":
			err = cmp("CompareAndSwap", func() (V, bool) { return zero, w.CompareAndSwap(key, old, v) },
				func() (any, bool) { return nil, ref.CompareAndSwap(any(key), any(old), any(v)) })
		case "CompareAndDelete":
			err = cmp("CompareAndDelete", func() (V, bool) { return zero, w.CompareAndDelete(key, old) },
				func() (any, bool) { return nil, ref.CompareAndDelete(any(key), any(old)) })
		case "RangeDel":
			// f deletes every other key while the Range is under way. sync.Map: "Range may reflect any mapping for
			// that key from any point during the Range call" - so a key deleted by f is either skipped or shown
			// with the value it had; it is never shown with a value it did not hold.
			before := map[any]any{}
			ref.Range(func(k, v any) bool { before[k] = v; return true })
			var keep any
			first := true
			seen := map[any]bool{}
			var rerr error
			wp := catch2(func() {
				w.Range(func(k K, v V) bool {
					b, ok := before[any(k)]
					switch {
					case !ok:
						rerr = vk.Violf("map-range", "%s: Range showed f the key %v, which the map did not hold", what, k)
					case seen[any(k)]:
						rerr = vk.Violf("map-range", "%s: Range showed f the key %v twice", what, k)
					case b == nil && !same(any(v), any(zero)), b != nil && !same(any(v), b):
						rerr = vk.Violf("map-range", "%s: Range showed f (%v, %v) after f had deleted that key; the key held %v during the call, never that value", what, k, v, b)
					}
					seen[any(k)] = true
					if first {
						first, keep = false, any(k)
						for j := 0; j < 4; j++ {
							if kj := mkK(j); any(kj) != keep {
								w.Delete(kj)
							}
						}
					}
					return true
				})
			})
			if wp {
				return out, vk.Violf("map-panic", "%s: xsync.Map.Range with a deleting callback panicked", what)
			}
			if rerr != nil {
				return out, rerr
			}
			if !first {
				for j := 0; j < 4; j++ {
					if kj := mkK(j); any(kj) != keep {
						ref.Delete(any(kj))
					}
				}
				out.Label("range-with-deleting-callback")
			}
		case "Range":
			got := map[any]any{}
			wp := catch2(func() {
				w.Range(func(k K, v V) bool { got[any(k)] = any(v); return true })
			})
			if wp {
				return out, vk.Violf("map-panic", "%s: xsync.Map.Range panicked (sync.Map.Range does not)", what)
			}
			n := 0
			var rerr error
			ref.Range(func(k, v any) bool {
				n++
				g, ok := got[k]
				if !ok {
					rerr = vk.Violf("map-range", "%s: Range misses key %v", what, k)
				} else if v == nil {
					if !same(g, any(zero)) {
						rerr = vk.Violf("map-range", "%s: Range yields %v for key %v holding nil", what, g, k)
					}
				} else if !same(g, v) {
					rerr = vk.Violf("map-range", "%s: Range yields %v for key %v, sync.Map %v", what, g, k, v)
				}
				return true
			})
			if rerr != nil {
				return out, rerr
			}
			if n != len(got) {
				return out, vk.Violf("map-range", "%s: Range yields %d keys, sync.Map %d", what, len(got), n)
			}
			// early stop
			cnt := 0
			w.Range(func(K, V) bool { cnt++; return false })
			if cnt > 1 {
				return out, vk.Violf("map-range", "%s: Range continued after f returned false", what)
			}
		}
		if err != nil {
			return out, err
		}
		if poisoned {
			break
		}
		// the two maps agree on every key after every step
		for k := 0; k < 4; k++ {
			kk := mkK(k)
			if e := cmp("Load(after)", func() (V, bool) { return w.Load(kk) }, func() (any, bool) { return ref.Load(any(kk)) }); e != nil {
				return out, e
			}
		}
	}
	out.Label("vtype:" + p.VType)
	if p.KType == "any" {
		out.Label("interface-keys-incl-nil")
	}
	if nilPresentLoad {
		out.Label("load-of-present-nil-interface")
	}
	if absentLoad {
		out.Label("load-of-absent-key")
	}
	out.NonTrivial = absentLoad && (nilPresentLoad || (p.VType != "error" && p.VType != "any"))
	return out, nil
}

func runMap(p MapPlan) (vk.Outcome, error) {
	code := func(i int) int {
		if i < 0 || i > 4 {
			return 0
		}
		return i
	}
	switch p.VType {
	case "int":
		return runMapTyped(p, func(i int) int { return code(i) })
	case "string":
		return runMapTyped(p, func(i int) string { return []string{"", "a", "b", "c", "d"}[code(i)] })
	case "ptr":
		return runMapTyped(p, func(i int) *T { return ptrPool[code(i)] })
	case "error":
		return runMapTyped(p, func(i int) error { return errPool[code(i)] })
	case "any":
		return runMapTyped(p, func(i int) any { return anyPool[code(i)] })
	}
	return vk.Outcome{}, fmt.Errorf("bad vtype")
}

func TestMap(t *testing.T) { vk.Run(t, suite, "map", 4000, genMapPlan, runMap) }

// ---------------------------------------------------------------- Watchable, sequential

type WPlan struct {
	Ops []int `json:"ops"` // 0 = Value, v>0 = Set(v)
	// VType: "" = Watchable[int]; "any" = Watchable[any] where the zero value is the nil interface;
	// "error" = Watchable[error] (nil error / distinct error values)
	VType string `json:"vtype,omitempty"`
}

func genWPlan(t *rapid.T) WPlan {
	return WPlan{Ops: rapid.SliceOfN(rapid.SampledFrom([]int{0, 0, 0, 1, 2, 3, 9}), 1, 25).Draw(t, "ops"), // 9 = Set(zero value)
		VType: rapid.SampledFrom([]string{"", "", "any", "error"}).Draw(t, "vtype")}
}

func closed(c chan struct{}) bool {
	select {
	case <-c:
		return true
	default:
		return false
	}
}

type numErr int

func (e numErr) Error() string { return fmt.Sprint("numErr ", int(e)) }

func runW(p WPlan) (vk.Outcome, error) {
	switch p.VType {
	case "any":
		return runWT[any](p, func(v int) any {
			if v == 0 {
				return nil
			}
			return v
		})
	case "error":
		return runWT[error](p, func(v int) error {
			if v == 0 {
				return nil
			}
			return numErr(v)
		})
	}
	return runWT[int](p, func(v int) int { return v })
}

func runWT[T comparable](p WPlan, conv func(int) T) (vk.Outcome, error) {
	var out vk.Outcome
	var w xsync.Watchable[T]
	var cur T
	sets := 0
	type got struct {
		c      chan struct{}
		atSets int
	}
	var chans []got
	valueBeforeSet, setSetValue := false, false
	lastWasSet := 0
	for i, o := range p.Ops {
		if o == 0 {
			v, c := w.Value()
			if v != cur {
				return out, vk.Violf("watchable-value", "step %d: Value() = %v after %d Sets, want %v", i, v, sets, cur)
			}
			if c == nil {
				return out, vk.Violf("watchable-chan", "step %d: Value() returned a nil channel", i)
			}
			chans = append(chans, got{c, sets})
			if sets == 0 {
				valueBeforeSet = true
			}
			if lastWasSet >= 2 {
				setSetValue = true
			}
			lastWasSet = 0
		} else {
			sets++
			cur = conv(o*100 + sets)
			if o == 9 {
				cur = conv(0) // setting the zero value is a Set like any other
			}
			w.Set(cur)
			lastWasSet++
		}
		for j, g := range chans {
			if want := sets > g.atSets; closed(g.c) != want {
				return out, vk.Violf("watchable-chan", "step %d: channel #%d (obtained after %d Sets, now %d Sets) closed=%v, want %v", i, j, g.atSets, sets, closed(g.c), want)
			}
		}
	}
	out.NonTrivial = valueBeforeSet && setSetValue
	return out, nil
}

func TestWatchableSequential(t *testing.T) { vk.Run(t, suite, "watchable-seq", 2000, genWPlan, runW) }

// ---------------------------------------------------------------- concurrent scripts (bubbles)

func bubble(f func() error) (verr error) {
	var stuck string
	func() {
		defer func() {
			if r := recover(); r != nil {
				stuck = fmt.Sprint(r)
			}
		}()
		synctest.Test(theT, func(t *testing.T) {
			defer func() {
				if r := recover(); r != nil {
					verr = vk.Violf("panic", "panic inside bubble: %v", r)
				}
			}()
			verr = f()
		})
	}()
	if stuck != "" && verr == nil {
		verr = vk.Violf("stuck", "deadlock or leaked goroutine: %s", stuck)
	}
	return verr
}

type WCPlan struct {
	Setters   [][]int `json:"setters"`   // per setter: gaps (ms) before each of its Sets
	Observers []int   `json:"observers"` // per observer: start delay (ms)
}

func genWC(t *rapid.T) WCPlan {
	var p WCPlan
	for s := rapid.IntRange(1, 3).Draw(t, "setters"); s > 0; s-- {
		p.Setters = append(p.Setters, rapid.SliceOfN(rapid.SampledFrom([]int{0, 0, 0, 1, 5}), 0, 6).Draw(t, "gaps"))
	}
	for o := rapid.IntRange(1, 3).Draw(t, "observers"); o > 0; o-- {
		p.Observers = append(p.Observers, rapid.SampledFrom([]int{0, 0, 1, 3}).Draw(t, "delay"))
	}
	return p
}

func runWC(p WCPlan) (vk.Outcome, error) {
	var out vk.Outcome
	racesFirstSet, multiSetBetween := false, false
	err := bubble(func() error {
		var w xsync.Watchable[int]
		stop := make(chan struct{})
		var wg, setWg sync.WaitGroup
		type obs struct {
			mu     sync.Mutex
			seen   []int
			parked bool
		}
		observers := make([]*obs, len(p.Observers))
		for i, d := range p.Observers {
			o := &obs{}
			observers[i] = o
			wg.Add(1)
			go func(d int) {
				defer wg.Done()
				time.Sleep(time.Duration(d) * time.Millisecond)
				for {
					v, ch := w.Value()
					o.mu.Lock()
					o.seen = append(o.seen, v)
					o.mu.Unlock()
					select {
					case <-ch:
					case <-stop:
						return
					}
				}
			}(d)
		}
		for s, gaps := range p.Setters {
			setWg.Add(1)
			go func(s int, gaps []int) {
				defer setWg.Done()
				for k, g := range gaps {
					time.Sleep(time.Duration(g) * time.Millisecond)
					w.Set((s+1)*1000 + k + 1)
				}
			}(s, gaps)
		}
		setWg.Wait()
		time.Sleep(20 * time.Millisecond) // every observer has started by now (largest start delay is 3 ms)
		synctest.Wait()
		final, fch := w.Value()
		if closed(fch) {
			return vk.Violf("watchable-chan", "all Sets are done, Value()'s channel is already closed")
		}
		// the final value is the last Set of some setter (or zero if nobody set anything)
		okFinal := final == 0
		total := 0
		for s, gaps := range p.Setters {
			total += len(gaps)
			if len(gaps) > 0 && final == (s+1)*1000+len(gaps) {
				okFinal = true
			}
		}
		if total > 0 && (final == 0 || !okFinal) {
			return vk.Violf("watchable-value", "after all Sets Value() = %d, which is not the last value of any setter", final)
		}
		for i, o := range observers {
			o.mu.Lock()
			seen := append([]int(nil), o.seen...)
			o.mu.Unlock()
			if len(seen) == 0 || seen[len(seen)-1] != final {
				return vk.Violf("watchable-stale", "observer %d is parked after seeing %v, the final value is %d", i, seen, final)
			}
			last := map[int]int{}
			for j, v := range seen {
				if v == 0 {
					if j > 0 && seen[j-1] != 0 {
						return vk.Violf("watchable-order", "observer %d saw the zero value after %d", i, seen[j-1])
					}
					racesFirstSet = true
					continue
				}
				s := v / 1000
				if v <= last[s] {
					return vk.Violf("watchable-order", "observer %d saw setter %d's values out of order: %v", i, s, seen)
				}
				if last[s] != 0 && v > last[s]+1 {
					multiSetBetween = true
				}
				last[s] = v
			}
			if len(seen) < total+1 {
				multiSetBetween = multiSetBetween || total > len(seen)
			}
		}
		close(stop)
		wg.Wait()
		return nil
	})
	out.NonTrivial = racesFirstSet || multiSetBetween
	if racesFirstSet {
		out.Label("value-before-first-set")
	}
	if multiSetBetween {
		out.Label("sets-coalesced-for-an-observer")
	}
	return out, err
}

type FPlan struct {
	Waiters []FW `json:"waiters"`
	FillAt  int  `json:"fill_at"` // ms; -1 = never
	// VType: the Future's type parameter and the value it is filled with: "" = int 4242, "int0" = int 0,
	// "any-nil" = any(nil), "error-nil" = error(nil), "ptr-nil" = (*int)(nil), "any-int" = any(7)
	VType string `json:"vtype,omitempty"`
}
type FW struct {
	StartMs    int  `json:"start"`
	Timeout    int  `json:"timeout"` // 0 = Wait (or WaitContext without deadline), else WaitContext whose context ends that much later
	Plain      bool `json:"plain,omitempty"`
	CancelOnly bool `json:"cancel_only,omitempty"` // the context has no deadline: it is cancelled explicitly after Timeout
	// Late: the context (with its deadline) is made first and WaitContext is only called at the very instant the
	// deadline passes - when the clock says "past the deadline" but the context may not have noticed yet
	Late bool `json:"late,omitempty"`
	// Detached: the context is of a hand-written type (sk.Detach)
	Detached bool `json:"detached,omitempty"`
	// CancelFirst (with Late): the context is cancelled as soon as it is made; by the time of the call its deadline
	// has passed as well. It was cancelled, and that is what it says.
	CancelFirst bool `json:"cancel_first,omitempty"`
}

func genF(t *rapid.T) FPlan {
	p := FPlan{FillAt: rapid.SampledFrom([]int{0, 5, 10, 10, 20}).Draw(t, "fillat"),
		VType: rapid.SampledFrom([]string{"", "", "int0", "any-nil", "error-nil", "ptr-nil", "any-int"}).Draw(t, "vtype")}
	for n := rapid.IntRange(1, 6).Draw(t, "n"); n > 0; n-- {
		p.Waiters = append(p.Waiters, FW{StartMs: rapid.SampledFrom([]int{0, 5, 10, 15, 30}).Draw(t, "start"),
			Timeout: rapid.SampledFrom([]int{0, 0, 3, 10, 50}).Draw(t, "timeout"), Plain: rapid.Bool().Draw(t, "plain"), CancelOnly: rapid.Bool().Draw(t, "cancelonly"), Late: rapid.IntRange(0, 3).Draw(t, "late") == 0, Detached: rapid.IntRange(0, 4).Draw(t, "detached") == 0, CancelFirst: rapid.IntRange(0, 2).Draw(t, "cancelfirst") == 0})
	}
	return p
}

func runF(p FPlan) (vk.Outcome, error) {
	switch p.VType {
	case "int0":
		return runFT[int](p, 0)
	case "any-nil":
		return runFT[any](p, nil)
	case "error-nil":
		return runFT[error](p, nil)
	case "ptr-nil":
		return runFT[*int](p, nil)
	case "any-int":
		return runFT[any](p, 7)
	}
	return runFT[int](p, 4242)
}

func runFT[T comparable](p FPlan, val T) (vk.Outcome, error) {
	var out vk.Outcome
	nt := false
	err := bubble(func() error {
		f := xsync.NewFuture[T]()
		start := time.Now()
		var wg sync.WaitGroup
		errs := make([]error, len(p.Waiters))
		for i, wt := range p.Waiters {
			wg.Add(1)
			go func(i int, wt FW) {
				defer wg.Done()
				time.Sleep(time.Duration(wt.StartMs) * time.Millisecond)
				var v T
				var err error
				if wt.Timeout == 0 && wt.Plain {
					v = f.Wait()
				} else {
					ctx := context.Background()
					cancel := func() {}
					if wt.Timeout > 0 && !wt.CancelOnly {
						ctx, cancel = sk.WithTimeout(ctx, time.Duration(wt.Timeout)*time.Millisecond)
						if wt.Late && wt.CancelFirst {
							cancel()
						}
						if wt.Late {
							time.Sleep(time.Duration(wt.Timeout) * time.Millisecond)
						}
					} else if wt.Timeout > 0 {
						var c context.CancelFunc
						ctx, c = sk.WithCancel(ctx)
						tm := time.AfterFunc(time.Duration(wt.Timeout)*time.Millisecond, c)
						cancel = func() { tm.Stop(); c() }
					}
					if wt.Detached && i%2 == 0 {
						ctx = sk.Detach(ctx)
					} else if wt.Detached {
						ctx = sk.DetachValue(ctx)
					}
					v, err = f.WaitContext(ctx)
					cancel()
				}
				at := int(time.Since(start) / time.Millisecond)
				deadline := wt.StartMs + wt.Timeout
				callAt := wt.StartMs
				late := wt.Late && wt.Timeout > 0 && !wt.CancelOnly && !(wt.Timeout == 0 && wt.Plain)
				if late {
					callAt = deadline // (then both the value and the ended context may be ready at the call: either answer is right)
				}
				switch {
				case err == nil:
					if wt.Timeout > 0 && deadline < p.FillAt {
						errs[i] = vk.Violf("future-ctx", "waiter %d: its context ended at %dms, before Fill at %dms, yet WaitContext returned the value (at %dms)", i, deadline, p.FillAt, at)
					} else if v != val {
						errs[i] = vk.Violf("future-value", "waiter %d got %v, filled with %v", i, v, val)
					} else if at < p.FillAt {
						errs[i] = vk.Violf("future-early", "waiter %d returned at %dms, Fill is at %dms", i, at, p.FillAt)
					} else if want := max(callAt, p.FillAt); at != want {
						errs[i] = vk.Violf("future-late", "waiter %d returned at %dms, want %dms", i, at, want)
					}
				case late && wt.CancelFirst:
					if err != context.Canceled || at != callAt {
						errs[i] = vk.Violf("future-error", "waiter %d: its context had been cancelled (and its deadline had passed since) when it called WaitContext at %dms: returned %v at %dms, want context.Canceled at once", i, callAt, err, at)
					}
				case wt.Timeout > 0 && (errors.Is(err, context.DeadlineExceeded) || (wt.CancelOnly && errors.Is(err, context.Canceled))):
					if at != deadline || deadline > p.FillAt && wt.StartMs >= p.FillAt && !late {
						errs[i] = vk.Violf("future-ctx", "waiter %d gave up at %dms (deadline %dms, Fill at %dms)", i, at, deadline, p.FillAt)
					}
					if deadline > p.FillAt && !late {
						errs[i] = vk.Violf("future-ctx", "waiter %d returned the context error although the future was filled at %dms before its deadline %dms", i, p.FillAt, deadline)
					}
				default:
					errs[i] = vk.Violf("future-error", "waiter %d: unexpected error %v", i, err)
				}
				// a second look shows the same value once filled
				if err == nil && f.Wait() != val {
					errs[i] = vk.Violf("future-value", "waiter %d: value changed on a second Wait", i)
				}
			}(i, wt)
			if wt.StartMs < p.FillAt && (wt.Timeout == 0 || wt.StartMs+wt.Timeout > p.FillAt) {
				nt = true
			}
		}
		time.Sleep(time.Duration(p.FillAt) * time.Millisecond)
		f.Fill(val)
		wg.Wait()
		for _, e := range errs {
			if e != nil {
				return e
			}
		}
		// A second Fill is documented to panic; that it does is all that is asserted about this misuse.
		if !catch2(func() { f.Fill(val) }) {
			return vk.Violf("future-refill", "a second Fill did not panic")
		}
		return nil
	})
	out.NonTrivial = nt && len(p.Waiters) >= 2
	return out, err
}

type LPlan struct {
	N      int   `json:"n"`
	FLatMs int   `json:"flat"`
	Delays []int `json:"delays"`
	// PanicFirst: the first run of f panics (every caller recovers). What callers then get differs between the
	// two shipped implementations (re-panic / zero value) and is not judged; that f is not run again is.
	PanicFirst bool `json:"panic_first,omitempty"`
}

func genL(t *rapid.T) LPlan {
	p := LPlan{N: rapid.IntRange(1, 8).Draw(t, "n"), FLatMs: rapid.SampledFrom([]int{0, 1, 10}).Draw(t, "flat")}
	for i := 0; i < p.N; i++ {
		p.Delays = append(p.Delays, rapid.SampledFrom([]int{0, 0, 0, 1, 5, 20}).Draw(t, "delay"))
	}
	p.PanicFirst = rapid.IntRange(0, 3).Draw(t, "panicfirst") == 0
	return p
}

// runL uses real goroutines: sync.OnceValue parks the losing callers on a mutex, which a synctest
// bubble does not count as durably blocked, so a fake-time sleep inside f could never elapse there.
func runL(p LPlan) (vk.Outcome, error) {
	var out vk.Outcome
	var runs atomic.Int32
	lazy := xsync.Lazy(func() int {
		n := runs.Add(1)
		time.Sleep(time.Duration(p.FLatMs) * 20 * time.Microsecond)
		if p.PanicFirst && n == 1 {
			panic("f: first run fails")
		}
		return 1000 + int(n)
	})
	var wg sync.WaitGroup
	gate := make(chan struct{})
	res := make([]int, p.N)
	for i := 0; i < p.N; i++ {
		wg.Add(1)
		go func(i int) {
			defer wg.Done()
			<-gate
			if p.Delays[i] > 0 {
				time.Sleep(time.Duration(p.Delays[i]) * 10 * time.Microsecond)
			}
			catch2(func() { res[i] = lazy() })
		}(i)
	}
	close(gate)
	wg.Wait()
	if runs.Load() != 1 {
		return out, vk.Violf("lazy-runs", "f ran %d times for %d callers (its first run panicked: %v)", runs.Load(), p.N, p.PanicFirst)
	}
	if p.PanicFirst {
		catch2(func() { lazy() })
		if runs.Load() != 1 {
			return out, vk.Violf("lazy-runs", "f's only run panicked; a later call ran it again (%d runs)", runs.Load())
		}
		out.Label("lazy-panicking-f")
		out.NonTrivial = p.N >= 2
		return out, nil
	}
	for i, r := range res {
		if r != 1001 {
			return out, vk.Violf("lazy-value", "caller %d got %d, f returned 1001", i, r)
		}
	}
	if lazy() != 1001 || runs.Load() != 1 {
		return out, vk.Violf("lazy-value", "a later call re-ran f or got another value")
	}
	out.NonTrivial = p.N >= 2
	return out, nil
}

func reps[P any](f func(P) (vk.Outcome, error)) func(P) (vk.Outcome, error) {
	return func(p P) (vk.Outcome, error) {
		n := vk.Reps(3, 10)
		var out vk.Outcome
		for i := 0; i < n; i++ {
			o, err := f(p)
			if err != nil {
				return o, err
			}
			for _, l := range o.Labels {
				out.Label(l)
			}
			out.NonTrivial = out.NonTrivial || o.NonTrivial
		}
		out.Execs = n
		return out, nil
	}
}

func TestWatchableConcurrent(t *testing.T) {
	theT = t
	vk.Run(t, suite, "watchable-conc", 800, genWC, reps(runWC))
}
func TestFuture(t *testing.T) {
	theT = t
	vk.Run(t, suite, "future", 600, genF, reps(runF))
}
func TestLazy(t *testing.T) {
	theT = t
	vk.Run(t, suite, "lazy", 300, genL, reps(runL))
}

// TestFutureRace: real goroutines under the race detector (the job is built with -race): waiters
// read the value while Fill publishes it.
func TestFutureRace(t *testing.T) {
	suite.Crashy = true
	vk.Run(t, suite, "future-race", 300, genL, func(p LPlan) (vk.Outcome, error) {
		var out vk.Outcome
		f := xsync.NewFuture[[]int]()
		var wg sync.WaitGroup
		bad := make([]bool, p.N)
		for i := 0; i < p.N; i++ {
			wg.Add(1)
			go func(i int) {
				defer wg.Done()
				if p.Delays[i] > 0 {
					time.Sleep(time.Duration(p.Delays[i]) * 5 * time.Microsecond)
				}
				var v []int
				if i%2 == 0 {
					v = f.Wait()
				} else {
					v, _ = f.WaitContext(context.Background())
				}
				bad[i] = len(v) != 3 || v[2] != 42
			}(i)
		}
		time.Sleep(time.Duration(p.FLatMs) * 10 * time.Microsecond)
		f.Fill([]int{1, 2, 42})
		wg.Wait()
		for i, b := range bad {
			if b {
				return out, vk.Violf("future-value", "waiter %d did not see the filled value", i)
			}
		}
		out.NonTrivial = p.N >= 2
		return out, nil
	})
	suite.Crashy = false
}

// ---------------------------------------------------------------- Value racing the first Set, many times per case

type WFPlan struct {
	Instances int `json:"instances"`
	Observers int `json:"observers"`
	Sets      int `json:"sets"`
}

func genWF(t *rapid.T) WFPlan {
	return WFPlan{Instances: rapid.IntRange(4, 40).Draw(t, "instances"), Observers: rapid.IntRange(1, 3).Draw(t, "observers"), Sets: rapid.IntRange(1, 3).Draw(t, "sets")}
}

// runWF: for each of many fresh Watchables, observers and one setter start at the same instant, so
// that Value() races the very first Set; afterwards every observer must sit on the final value.
func runWF(p WFPlan) (vk.Outcome, error) {
	var out vk.Outcome
	sawZero := false
	err := bubble(func() error {
		type inst struct {
			w    xsync.Watchable[int]
			seen [][]int
			mu   sync.Mutex
		}
		insts := make([]*inst, p.Instances)
		stop := make(chan struct{})
		var wg, setWg sync.WaitGroup
		for i := range insts {
			in := &inst{seen: make([][]int, p.Observers)}
			insts[i] = in
			for o := 0; o < p.Observers; o++ {
				wg.Add(1)
				go func(o int) {
					defer wg.Done()
					for {
						v, ch := in.w.Value()
						in.mu.Lock()
						in.seen[o] = append(in.seen[o], v)
						in.mu.Unlock()
						select {
						case <-ch:
						case <-stop:
							return
						}
					}
				}(o)
			}
			setWg.Add(1)
			go func() {
				defer setWg.Done()
				for k := 1; k <= p.Sets; k++ {
					in.w.Set(k)
				}
			}()
		}
		setWg.Wait()
		synctest.Wait()
		var verr error
		for i, in := range insts {
			final, _ := in.w.Value()
			if final != p.Sets {
				verr = vk.Violf("watchable-value", "instance %d: Value() = %d after Set(1..%d)", i, final, p.Sets)
			}
			in.mu.Lock()
			for o, seen := range in.seen {
				if len(seen) == 0 || seen[len(seen)-1] != p.Sets {
					verr = vk.Violf("watchable-stale", "instance %d observer %d is parked after seeing %v; the final value is %d (a Value() that raced the first Set returned a channel that is never closed?)", i, o, seen, p.Sets)
				}
				for j := 1; j < len(seen); j++ {
					if seen[j] <= seen[j-1] {
						verr = vk.Violf("watchable-order", "instance %d observer %d saw %v", i, o, seen)
					}
				}
				if len(seen) > 0 && seen[0] == 0 {
					sawZero = true
				}
			}
			in.mu.Unlock()
		}
		close(stop)
		wg.Wait()
		return verr
	})
	out.NonTrivial = sawZero
	if sawZero {
		out.Label("value-before-first-set")
	}
	out.Execs = p.Instances
	return out, err
}

func TestWatchableFirstSet(t *testing.T) {
	theT = t
	vk.Run(t, suite, "watchable-first-set", 600, genWF, reps(runWF))
}

// ---------------------------------------------------------------- storms: many tries at calls that overlap in real time

type SyncStormPlan struct {
	Mode    string `json:"mode"` // loadorstore | watchable
	Parties int    `json:"parties"`
	Rounds  int    `json:"rounds"`
	Sets    int    `json:"sets,omitempty"`
	Setters int    `json:"setters,omitempty"` // watchable: goroutines calling Set concurrently (0 = 1)
}

func genSyncStorm(t *rapid.T) SyncStormPlan {
	p := SyncStormPlan{Mode: rapid.SampledFrom([]string{"loadorstore", "loadanddelete", "nomatch", "watchable", "watchable", "future", "future"}).Draw(t, "mode")}
	p.Setters = 1
	if p.Mode == "future" {
		p.Parties, p.Rounds = rapid.IntRange(1, 3).Draw(t, "waiters"), rapid.IntRange(20000, 60000).Draw(t, "frounds")
		p.Sets = rapid.SampledFrom([]int{1, 8, 32, 128}).Draw(t, "spinmax")
		return p
	}
	if p.Mode == "watchable" {
		p.Setters = rapid.SampledFrom([]int{1, 2, 2, 3, 4}).Draw(t, "setters")
	}
	if p.Mode == "loadorstore" || p.Mode == "loadanddelete" || p.Mode == "nomatch" {
		p.Parties, p.Rounds = rapid.IntRange(3, 6).Draw(t, "parties"), rapid.IntRange(500, 2000).Draw(t, "rounds")
	} else {
		p.Parties, p.Rounds, p.Sets = rapid.IntRange(1, 3).Draw(t, "observers"), rapid.IntRange(2, 6).Draw(t, "rounds"), rapid.IntRange(300, 2000).Draw(t, "sets")
	}
	return p
}

// runLoadOrStoreStorm: several goroutines LoadOrStore the same absent key at once. Exactly one of them
// stored (loaded == false, actual == its own value); everybody else loaded that value.
func runLoadOrStoreStorm(p SyncStormPlan) (vk.Outcome, error) {
	var out vk.Outcome
	type res struct {
		actual int
		loaded bool
	}
	for round := 0; round < p.Rounds; round++ {
		var m xsync.Map[int, int]
		gate := make(chan struct{})
		rs := make([]res, p.Parties)
		var wg sync.WaitGroup
		for g := 0; g < p.Parties; g++ {
			wg.Add(1)
			go func(g int) {
				defer wg.Done()
				<-gate
				a, l := m.LoadOrStore(7, 100+g)
				rs[g] = res{a, l}
			}(g)
		}
		close(gate)
		wg.Wait()
		winner := -1
		for g, r := range rs {
			if !r.loaded {
				if winner >= 0 {
					return out, vk.Violf("map-flag", "round %d: LoadOrStore of one absent key from %d goroutines reported loaded=false to two of them (%d and %d): %v", round, p.Parties, winner, g, rs)
				}
				winner = g
			}
		}
		if winner < 0 {
			return out, vk.Violf("map-flag", "round %d: every LoadOrStore of an absent key reported loaded=true: %v", round, rs)
		}
		for g, r := range rs {
			if r.actual != 100+winner {
				return out, vk.Violf("map-value", "round %d: goroutine %d got actual=%d, the stored value is %d: %v", round, g, r.actual, 100+winner, rs)
			}
		}
		if v, ok := m.Load(7); !ok || v != 100+winner {
			return out, vk.Violf("map-value", "round %d: the map holds (%d,%v), stored was %d", round, v, ok, 100+winner)
		}
	}
	out.NonTrivial, out.Execs = true, p.Rounds
	out.Label("storm:loadorstore")
	return out, nil
}

// runLoadAndDeleteStorm: several goroutines LoadAndDelete one present key at once while another stores a new
// value under it. Every value that was ever stored is accounted for exactly once (returned with loaded=true, or
// still in the map at the end), and loaded=false comes with the zero value.
func runLoadAndDeleteStorm(p SyncStormPlan) (vk.Outcome, error) {
	var out vk.Outcome
	type res struct {
		v      int
		loaded bool
	}
	for round := 0; round < p.Rounds; round++ {
		var m xsync.Map[int, int]
		m.Store(7, 1000)
		gate := make(chan struct{})
		rs := make([]res, p.Parties)
		var wg sync.WaitGroup
		for g := 0; g < p.Parties; g++ {
			wg.Add(1)
			go func(g int) {
				defer wg.Done()
				<-gate
				if g == 0 && round%2 == 1 {
					m.Store(7, 2000) // a new value under the same key, racing the claims
					rs[g] = res{0, false}
					return
				}
				v, l := m.LoadAndDelete(7)
				rs[g] = res{v, l}
			}(g)
		}
		close(gate)
		wg.Wait()
		stored := map[int]int{1000: 1}
		if round%2 == 1 {
			stored[2000] = 1
		}
		for g, r := range rs {
			if !r.loaded {
				if r.v != 0 {
					return out, vk.Violf("map-value", "round %d: goroutine %d: LoadAndDelete returned (%d, false): absent is reported with the zero value; results %v", round, g, r.v, rs)
				}
				continue
			}
			if stored[r.v] == 0 {
				return out, vk.Violf("map-value", "round %d: goroutine %d: LoadAndDelete returned (%d, true), a value that was never stored or was already handed to another caller; results %v", round, g, r.v, rs)
			}
			stored[r.v]--
		}
		if v, ok := m.Load(7); ok {
			if stored[v] == 0 {
				return out, vk.Violf("map-value", "round %d: the map still holds %d, which was already handed out; results %v", round, v, rs)
			}
			stored[v]--
		}
		for v, n := range stored {
			// (the racing Store may overwrite 1000 before anybody claims it; nothing ever overwrites the last value stored)
			if n != 0 && (round%2 == 0 || v == 2000) {
				return out, vk.Violf("map-value", "round %d: the value %d vanished: removed from the map but returned to nobody; results %v", round, v, rs)
			}
		}
	}
	out.NonTrivial, out.Execs = true, p.Rounds
	out.Label("storm:loadanddelete")
	return out, nil
}

// runNoMatchStorm: goroutines hammer one present key with operations that must leave it alone because their
// `old` argument does not match (CompareAndDelete, CompareAndSwap) while others read it. A reader never sees
// the key absent or holding anything but the one value it has had all along.
func runNoMatchStorm(p SyncStormPlan) (vk.Outcome, error) {
	var out vk.Outcome
	var m xsync.Map[int, int]
	m.Store(7, 1000)
	var stop atomic.Bool
	var wg sync.WaitGroup
	errs := make([]error, p.Parties)
	for g := 0; g < p.Parties; g++ {
		wg.Add(1)
		go func(g int) {
			defer wg.Done()
			for i := 0; !stop.Load() && i < p.Rounds*40; i++ {
				switch {
				case g == 0:
					if m.CompareAndDelete(7, 999) {
						errs[g] = vk.Violf("map-flag", "CompareAndDelete(7, 999) reported a deletion although the key holds 1000")
						return
					}
				case g == 1:
					if m.CompareAndSwap(7, 999, 5) {
						errs[g] = vk.Violf("map-flag", "CompareAndSwap(7, 999, 5) reported a swap although the key holds 1000")
						return
					}
				default:
					if v, ok := m.Load(7); !ok || v != 1000 {
						errs[g] = vk.Violf("map-value", "a reader saw (%d, %v) for a key that holds 1000 throughout: the only writers are CompareAndDelete / CompareAndSwap calls whose old value does not match", v, ok)
						return
					}
				}
			}
		}(g)
	}
	wg.Wait()
	stop.Store(true)
	for _, e := range errs {
		if e != nil {
			return out, e
		}
	}
	out.NonTrivial, out.Execs = true, p.Rounds*40
	out.Label("storm:nomatch")
	return out, nil
}

// runWatchableStorm: one setter issues Sets back to back while observers run the documented loop
// (Value; wait for the channel; Value; ...). Values never go backwards for an observer, a channel is
// always paired with the same value, and once the setter is done every observer arrives at the final
// value - decided at quiescence inside a bubble.
func runWatchableStorm(p SyncStormPlan) (vk.Outcome, error) {
	var out vk.Outcome
	err := bubble(func() error {
		for round := 0; round < p.Rounds; round++ {
			var w xsync.Watchable[int]
			var mu sync.Mutex
			paired := map[chan struct{}]int{}
			var verr error
			fail := func(e error) {
				mu.Lock()
				if verr == nil {
					verr = e
				}
				mu.Unlock()
			}
			done := make([]atomic.Bool, p.Parties)
			lastSeen := make([]atomic.Int64, p.Parties)
			quit := make(chan struct{})
			var wg sync.WaitGroup
			for o := 0; o < p.Parties; o++ {
				wg.Add(1)
				go func(o int) {
					defer wg.Done()
					last := map[int]int{} // per setter: its values are increasing
					for {
						v, ch := w.Value()
						if st, i := v/1000000, v%1000000; i < last[st] {
							fail(vk.Violf("watchable-order", "round %d: observer %d saw setter %d's value %d after its value %d", round, o, st, i, last[st]))
							return
						} else {
							last[st] = i
						}
						lastSeen[o].Store(int64(v))
						mu.Lock()
						if pv, ok := paired[ch]; ok && pv != v {
							mu.Unlock()
							fail(vk.Violf("watchable-chan", "round %d: one channel was handed out with the values %d and %d", round, pv, v))
							return
						}
						paired[ch] = v
						mu.Unlock()
						select {
						case <-ch:
						case <-quit:
							done[o].Store(true)
							return
						}
					}
				}(o)
			}
			setters := p.Setters
			if setters < 1 {
				setters = 1
			}
			var sw sync.WaitGroup
			for st := 0; st < setters; st++ {
				sw.Add(1)
				go func(st int) {
					defer sw.Done()
					for i := 1; i <= p.Sets; i++ {
						w.Set(st*1000000 + i)
					}
				}(st)
			}
			sw.Wait()
			synctest.Wait()
			// everything is at rest: whatever value Value reports now is the final one, and every observer sits on
			// the channel that came with it (an observer parked on an older value's channel would never wake up)
			final, _ := w.Value()
			for o := range lastSeen {
				if got := int(lastSeen[o].Load()); got != final && verr == nil {
					verr = vk.Violf("watchable-stuck", "round %d: after %d setter(s) x %d back-to-back Sets the value is %d, but observer %d is parked on the channel it got together with %d: no later Set will ever close it", round, setters, p.Sets, final, o, got)
				}
			}
			close(quit)
			wg.Wait()
			if verr != nil {
				return verr
			}
		}
		return nil
	})
	out.NonTrivial, out.Execs = true, p.Rounds
	out.Label("storm:watchable")
	return out, err
}

func TestSyncStorm(t *testing.T) {
	theT = t
	vk.Run(t, suite, "sync-storm", 40, genSyncStorm, func(p SyncStormPlan) (vk.Outcome, error) {
		if p.Mode == "loadorstore" {
			return runLoadOrStoreStorm(p)
		}
		if p.Mode == "loadanddelete" {
			return runLoadAndDeleteStorm(p)
		}
		if p.Mode == "nomatch" {
			return runNoMatchStorm(p)
		}
		if p.Mode == "future" {
			return runFutureStorm(p)
		}
		return runWatchableStorm(p)
	})
}

// runFutureStorm: a fresh Future, 1-3 goroutines that start to wait and one Fill, all leaving a common
// starting line (the Fill after a swept number of spins): every waiter gets the value, within 10 s of active
// time - whether it began to wait before, during or after the Fill. (Sets = the sweep's period.)
var futureSink atomic.Int64

func runFutureStorm(p SyncStormPlan) (vk.Outcome, error) {
	var out vk.Outcome
	for round := 0; round < p.Rounds; round++ {
		f := xsync.NewFuture[int]()
		var goFlag atomic.Int32
		res := make(chan int, p.Parties)
		for w := 0; w < p.Parties; w++ {
			go func(w int) {
				for goFlag.Load() == 0 {
				}
				if w%2 == 0 {
					res <- f.Wait()
				} else {
					v, err := f.WaitContext(context.Background())
					if err != nil {
						v = -1
					}
					res <- v
				}
			}(w)
		}
		go func() {
			for goFlag.Load() == 0 {
			}
			for k := round % p.Sets; k > 0; k-- {
				futureSink.Add(1)
			}
			f.Fill(round + 1)
		}()
		goFlag.Store(1)
		limit := vk.After(10 * time.Second)
		for w := 0; w < p.Parties; w++ {
			select {
			case v := <-res:
				if v != round+1 {
					return out, vk.Violf("future-value", "round %d: a waiter that began to wait around the time of Fill(%d) got %d", round, round+1, v)
				}
			case <-limit:
				return out, vk.Violf("future-stuck", "round %d: the Future was filled (by a Fill that raced %d goroutines beginning to wait); 10 s later a waiter has still not returned", round, p.Parties)
			}
		}
	}
	out.NonTrivial, out.Execs = true, p.Rounds
	out.Label("storm:future")
	return out, nil
}
