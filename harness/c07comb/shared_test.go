package c07comb

import (
	"context"
	"fmt"
	"runtime/debug"
	"testing"

	"github.com/bradenaw/juniper/iterator"
	"github.com/bradenaw/juniper/stream"
	"pgregory.net/rapid"

	"verif/harness/sk"
	"verif/harness/vk"
)

// shared-upstream: a combinator is a view of the iterator it was given, not a copy, and the caller may keep
// that iterator: outer = G(inner), inner = F(src), and the script pulls now from outer, now from inner
// (and now and then from src itself). Every pull is answered from the one shared source position, and every
// stage keeps its own state (First's remaining count, Compact's last item) whoever it is pulled through.
// Also: long stretches of items that a stage drops (a run of a million duplicates for Compact, a million
// rejected items for Filter) - a stage that handles a dropped item by calling itself runs out of stack.

type SharedPlan struct {
	Inner Stage2 `json:"inner"`
	Outer Stage2 `json:"outer"`
	N     int    `json:"n"`     // source: 0..N-1
	Pulls []int  `json:"pulls"` // 0 = outer, 1 = inner, 2 = source
	Long  int    `json:"long,omitempty"`
}

type Stage2 struct {
	Op string `json:"op"` // First | Filter | Map | Compact
	A  int    `json:"a"`
}

func genStage2(t *rapid.T, label string) Stage2 {
	return Stage2{Op: rapid.SampledFrom([]string{"First", "First", "Filter", "Map", "Compact"}).Draw(t, label), A: rapid.IntRange(0, 9).Draw(t, label+"a")}
}

func genShared(t *rapid.T) SharedPlan {
	p := SharedPlan{Inner: genStage2(t, "inner"), Outer: genStage2(t, "outer"), N: rapid.IntRange(0, 14).Draw(t, "n")}
	p.Pulls = rapid.SliceOfN(rapid.SampledFrom([]int{0, 0, 0, 1, 1, 2}), 1, 24).Draw(t, "pulls")
	if rapid.IntRange(0, 24).Draw(t, "long") == 0 {
		p.Long = rapid.SampledFrom([]int{1 << 20, 3 << 20}).Draw(t, "longn")
	}
	return p
}

// model stage: pull() answers from below
type mstage struct {
	s        Stage2
	below    func() (int, bool)
	left     int
	havePrev bool
	prev     int
}

func (m *mstage) pull() (int, bool) {
	for {
		if m.s.Op == "First" && m.left <= 0 {
			return 0, false
		}
		x, ok := m.below()
		if !ok {
			return 0, false
		}
		switch m.s.Op {
		case "First":
			m.left--
			return x, true
		case "Filter":
			if x%(m.s.A+2) != 0 {
				return x, true
			}
		case "Map":
			return x + 100*(m.s.A+1), true
		default: // Compact on x/(A+1): equal neighbours collapse
			if !m.havePrev || m.prev/(m.s.A+1) != x/(m.s.A+1) {
				m.havePrev, m.prev = true, x
				return x, true
			}
		}
	}
}

func iterStage2(s Stage2, in iterator.Iterator[int]) iterator.Iterator[int] {
	switch s.Op {
	case "First":
		return iterator.First(in, s.A)
	case "Filter":
		return iterator.Filter(in, func(x int) bool { return x%(s.A+2) != 0 })
	case "Map":
		return iterator.Map(in, func(x int) int { return x + 100*(s.A+1) })
	}
	return iterator.CompactFunc(in, func(a, b int) bool { return a/(s.A+1) == b/(s.A+1) })
}

func streamStage2(s Stage2, in stream.Stream[int]) stream.Stream[int] {
	switch s.Op {
	case "First":
		return stream.First(in, s.A)
	case "Filter":
		return stream.Filter(in, func(_ context.Context, x int) (bool, error) { return x%(s.A+2) != 0, nil })
	case "Map":
		return stream.Map(in, func(_ context.Context, x int) (int, error) { return x + 100*(s.A+1), nil })
	}
	return stream.CompactFunc(in, func(a, b int) bool { return a/(s.A+1) == b/(s.A+1) })
}

func runShared(p SharedPlan) (vk.Outcome, error) {
	var out vk.Outcome
	if p.Long > 0 {
		// one long stretch of dropped items: a million equal items for Compact, a million rejected ones for Filter
		out.Label("long-dropped-stretch")
		out.NonTrivial = true
		n := p.Long
		// (a goroutine stack may grow to 1 GB by default, which hides a frame per dropped item until the stretch
		// is tens of millions long; 64 MB is still far more than any of this needs)
		debug.SetMaxStack(64 << 20)
		c := iterator.Compact(iterator.Join(iterator.Repeat(7, n), iterator.Slice([]int{8})))
		if a, ok := c.Next(); !ok || a != 7 {
			return out, vk.Violf("wrong-output", "Compact over %d sevens and an 8: first item (%d,%v)", n, a, ok)
		}
		if b, ok := c.Next(); !ok || b != 8 {
			return out, vk.Violf("wrong-output", "Compact over %d sevens and an 8: second item (%d,%v)", n, b, ok)
		}
		f := iterator.Filter(iterator.Counter(n+1), func(x int) bool { return x == n })
		if a, ok := f.Next(); !ok || a != n {
			return out, vk.Violf("wrong-output", "Filter keeping only the last of %d items: (%d,%v)", n+1, a, ok)
		}
		sc := stream.Compact(stream.FromIterator(iterator.Join(iterator.Repeat(7, n), iterator.Slice([]int{8}))))
		defer sc.Close()
		if a, err := sc.Next(bg); err != nil || a != 7 {
			return out, vk.Violf("wrong-output", "stream.Compact over %d sevens and an 8: first item (%d,%v)", n, a, err)
		}
		if b, err := sc.Next(bg); err != nil || b != 8 {
			return out, vk.Violf("wrong-output", "stream.Compact over %d sevens and an 8: second item (%d,%v)", n, b, err)
		}
		return out, nil
	}
	items := make([]int, p.N)
	for i := range items {
		items[i] = i
	}
	for _, kind := range []string{"iterator", "stream"} {
		pos := 0
		msrc := func() (int, bool) {
			if pos >= p.N {
				return 0, false
			}
			pos++
			return pos - 1, true
		}
		mi := &mstage{s: p.Inner, below: msrc, left: p.Inner.A}
		mo := &mstage{s: p.Outer, below: mi.pull, left: p.Outer.A}
		var pullReal [3]func() (int, bool)
		if kind == "iterator" {
			src := sk.NewRecIter(items)
			inner := iterStage2(p.Inner, src)
			outer := iterStage2(p.Outer, inner)
			pullReal = [3]func() (int, bool){outer.Next, inner.Next, src.Next}
		} else {
			src := sk.NewRecStream("src", items)
			inner := streamStage2(p.Inner, src)
			outer := streamStage2(p.Outer, inner)
			defer outer.Close()
			mk := func(s stream.Stream[int]) func() (int, bool) {
				return func() (int, bool) {
					x, err := s.Next(bg)
					return x, err == nil
				}
			}
			pullReal = [3]func() (int, bool){mk(outer), mk(inner), mk(src)}
		}
		pullModel := [3]func() (int, bool){mo.pull, mi.pull, msrc}
		var hist []string
		for i, which := range p.Pulls {
			wx, wok := pullModel[which]()
			gx, gok := pullReal[which]()
			hist = append(hist, fmt.Sprintf("%s:%d,%v", []string{"outer", "inner", "src"}[which], gx, gok))
			if gok != wok || (gok && gx != wx) {
				return out, vk.Violf("wrong-output", "%s %s(%d) over %s(%d) over 0..%d: pull #%d answered (%d,%v), expected (%d,%v); pulls so far %v",
					kind, p.Outer.Op, p.Outer.A, p.Inner.Op, p.Inner.A, p.N-1, i, gx, gok, wx, wok, hist)
			}
		}
	}
	mixed := false
	for _, w := range p.Pulls {
		if w != p.Pulls[0] {
			mixed = true
		}
	}
	out.NonTrivial = mixed && p.N >= 2
	return out, nil
}

func TestSharedUpstream(t *testing.T) {
	vk.Run(t, suite, "shared-upstream", 3000, genShared, runShared)
}
