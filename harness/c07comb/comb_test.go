package c07comb

import (
	"context"
	"fmt"
	"math"
	"reflect"
	"testing"
	"time"

	"github.com/bradenaw/juniper/iterator"
	"github.com/bradenaw/juniper/stream"
	"github.com/bradenaw/juniper/xslices"
	"pgregory.net/rapid"

	"verif/harness/sk"
	"verif/harness/vk"
)

var suite = vk.NewSuite("C07")

func TestMain(m *testing.M) { suite.HangLimit = 60 * time.Second; suite.Main(m) }

const U = 8 // value universe 0..U-1

// Single is one combinator applied to one generated input with one consumer behaviour.
type Single struct {
	Comb    string  `json:"comb"`
	Input   []int   `json:"in"`
	N       int     `json:"n,omitempty"`
	Mask    int     `json:"mask,omitempty"`
	Classes []int   `json:"classes,omitempty"`
	Nest    [][]int `json:"nest,omitempty"`
	Pulls   int     `json:"pulls"` // responses requested; -1 = until the end
	Extra   int     `json:"extra"` // pulls after the end
	Peeks   []bool  `json:"peeks,omitempty"`
	Drain   []int   `json:"drain,omitempty"` // Runs: per run -1 = full, k>=0 = k items
	Other   []int   `json:"other,omitempty"`
}

var streaming = []string{"Map", "Filter", "First", "While", "Compact", "CompactFunc", "Chunk", "Flatten", "FlattenSlices", "Join", "Runs", "WithPeek"}
var reducers = []string{"Collect", "Last", "One", "Reduce", "Equal"}

func genInput(t *rapid.T, label string, maxLen int) []int {
	switch rapid.IntRange(0, 8).Draw(t, label+"class") {
	case 0:
		return nil
	case 1:
		return []int{rapid.IntRange(0, U-1).Draw(t, label+"v")}
	case 2: // all equal
		return xslices.Repeat(rapid.IntRange(0, U-1).Draw(t, label+"v"), rapid.IntRange(2, 8).Draw(t, label+"n"))
	case 3: // alternating
		a, b := rapid.IntRange(0, U-1).Draw(t, label+"a"), rapid.IntRange(0, U-1).Draw(t, label+"b")
		n := rapid.IntRange(2, 9).Draw(t, label+"n")
		out := make([]int, n)
		for i := range out {
			out[i] = a
			if i%2 == 1 {
				out[i] = b
			}
		}
		return out
	case 4: // run of length one at the very start, long runs after
		return append([]int{rapid.IntRange(0, 3).Draw(t, label+"a")}, xslices.Repeat(rapid.IntRange(4, 7).Draw(t, label+"b"), rapid.IntRange(1, 5).Draw(t, label+"n"))...)
	case 5: // run of length one at the very end
		return append(xslices.Repeat(rapid.IntRange(4, 7).Draw(t, label+"b"), rapid.IntRange(1, 5).Draw(t, label+"n")), rapid.IntRange(0, 3).Draw(t, label+"a"))
	case 6: // long runs
		var out []int
		for r := rapid.IntRange(1, 5).Draw(t, label+"runs"); r > 0; r-- {
			out = append(out, xslices.Repeat(rapid.IntRange(0, U-1).Draw(t, label+"rv"), rapid.IntRange(1, 6).Draw(t, label+"rl"))...)
		}
		return out
	}
	return rapid.SliceOfN(rapid.IntRange(0, U-1), 0, maxLen).Draw(t, label+"s")
}

func genParam(t *rapid.T, label string, n int, min int) int {
	// (the huge values stand for "no limit": everything in one chunk, the first / last "all of them")
	cands := []int{0, 1, n - 1, n, n + 1, rapid.IntRange(0, 12).Draw(t, label+"rnd"), -1, -3, math.MaxInt, math.MaxInt - 2, 1 << 62}
	v := rapid.SampledFrom(cands).Draw(t, label)
	if v < min {
		v = min
	}
	return v
}

func genClasses(t *rapid.T) []int {
	k := rapid.IntRange(1, 3).Draw(t, "nclasses")
	out := make([]int, U)
	for i := range out {
		out[i] = rapid.IntRange(0, k-1).Draw(t, "cls")
	}
	return out
}

func genNest(t *rapid.T) [][]int {
	n := rapid.IntRange(0, 5).Draw(t, "ninner")
	var out [][]int
	for i := 0; i < n; i++ {
		if rapid.IntRange(0, 2).Draw(t, "emptyinner") == 0 {
			out = append(out, nil)
		} else {
			out = append(out, rapid.SliceOfN(rapid.IntRange(0, U-1), 0, 5).Draw(t, "inner"))
		}
	}
	return out
}

func genSingle(t *rapid.T) Single {
	all := append(append([]string{}, streaming...), reducers...)
	c := Single{Comb: rapid.SampledFrom(all).Draw(t, "comb")}
	c.Input = genInput(t, "in", 40)
	n := len(c.Input)
	c.Mask = rapid.IntRange(0, 255).Draw(t, "mask")
	c.Classes = genClasses(t)
	switch c.Comb {
	case "First":
		c.N = genParam(t, "n", n, -3) // a negative count means "none", in the iterator and the stream version alike
	case "Last":
		c.N = genParam(t, "n", n, 0)
		if rapid.IntRange(0, 7).Draw(t, "biglast") == 0 {
			big := rapid.IntRange(1025, 2600).Draw(t, "biglen")
			c.Input = make([]int, big)
			for i := range c.Input {
				c.Input[i] = (i * 7) % U
			}
			c.N = rapid.SampledFrom([]int{1023, 1024, 1025, 2000, big - 1, big, big + 1, 70000}).Draw(t, "bigsize")
		}
	case "Chunk":
		c.N = genParam(t, "chunk", n, 1)
		if rapid.IntRange(0, 5).Draw(t, "bigchunks") == 0 {
			// chunks of more than a thousand items (sizes around 2^10, where implementations like to switch strategy)
			big := rapid.IntRange(1025, 2600).Draw(t, "biglen")
			c.Input = make([]int, big)
			for i := range c.Input {
				c.Input[i] = (i * 7) % U
			}
			c.N = rapid.SampledFrom([]int{1023, 1024, 1025, 2000, big - 1, big}).Draw(t, "bigsize")
		}
	case "Flatten", "FlattenSlices", "Join":
		c.Nest = genNest(t)
		c.Input = nil
	case "WithPeek":
		c.Peeks = rapid.SliceOfN(rapid.Bool(), 1, 2*n+6).Draw(t, "peeks")
	case "Runs":
		c.Drain = rapid.SliceOfN(rapid.SampledFrom([]int{-1, -1, 0, 1, 2}), 0, 8).Draw(t, "drain")
	case "Equal":
		switch rapid.IntRange(0, 3).Draw(t, "otherclass") {
		case 0:
			c.Other = append([]int(nil), c.Input...)
		case 1:
			c.Other = append(append([]int(nil), c.Input...), 1)
		case 2:
			if n > 0 {
				c.Other = append([]int(nil), c.Input...)
				c.Other[rapid.IntRange(0, n-1).Draw(t, "flip")] ^= 1
			}
		default:
			c.Other = genInput(t, "other", 10)
		}
	}
	if rapid.IntRange(0, 2).Draw(t, "toend") > 0 {
		c.Pulls = -1
	} else {
		c.Pulls = rapid.IntRange(0, n+2).Draw(t, "pulls")
	}
	c.Extra = rapid.IntRange(1, 3).Draw(t, "extra")
	return c
}

// ---------------------------------------------------------------------------------------------
// helpers shared by the three implementations

// cbCalls counts invocations of the user callbacks (tests in this package run sequentially).
var cbCalls int

func mapf(x int) int { cbCalls++; return (x*3 + 1) % 11 }

func (c Single) keep(x int) bool    { cbCalls++; return c.Mask&(1<<uint(x%U)) != 0 }
func (c Single) same(a, b int) bool { cbCalls++; return c.Classes[a%U] == c.Classes[b%U] }

func total(nest [][]int) int {
	n := 0
	for _, x := range nest {
		n += len(x)
	}
	return n
}

// ref is the independent interpreter: the full list of responses of a streaming combinator (each
// response as a slice: scalars are length-1) and need(j), the shortest input prefix that
// determines the first j responses (-1 = not modelled).
func ref(c Single) (outs [][]int, need func(j int) int) {
	in := c.Input
	n := len(in)
	pos := []int{} // pos[i] = number of input items consumed when response i is determined
	one := func(x int) []int { return []int{x} }
	switch c.Comb {
	case "Map":
		for i, x := range in {
			outs = append(outs, one(mapf(x)))
			pos = append(pos, i+1)
		}
	case "Filter":
		for i, x := range in {
			if c.keep(x) {
				outs = append(outs, one(x))
				pos = append(pos, i+1)
			}
		}
	case "First":
		for i, x := range in {
			if i >= c.N {
				break
			}
			outs = append(outs, one(x))
			pos = append(pos, i+1)
		}
		lim := n
		if c.N < lim {
			lim = c.N
		}
		if lim < 0 {
			lim = 0
		}
		return outs, func(j int) int {
			if j > lim {
				return lim
			}
			return j
		}
	case "While":
		stop := n
		for i, x := range in {
			if !c.keep(x) {
				stop = i + 1 // the failing item itself must be looked at
				break
			}
			outs = append(outs, one(x))
			pos = append(pos, i+1)
		}
		return outs, func(j int) int {
			if j <= len(pos) {
				return pos[j-1]
			}
			return stop
		}
	case "Compact", "CompactFunc":
		for i, x := range in {
			dup := false
			if i > 0 {
				if c.Comb == "Compact" {
					dup = in[i-1] == x
				} else {
					dup = c.same(in[i-1], x)
				}
			}
			if !dup {
				outs = append(outs, one(x))
				pos = append(pos, i+1)
			}
		}
	case "Chunk":
		for i := 0; i < n; i += c.N {
			end := i + c.N
			if end > n {
				end = n
			}
			outs = append(outs, append([]int(nil), in[i:end]...))
			pos = append(pos, end)
		}
	case "Flatten", "FlattenSlices", "Join":
		k := 0
		for _, inner := range c.Nest {
			for _, x := range inner {
				k++
				outs = append(outs, one(x))
				pos = append(pos, k)
			}
		}
		tot := total(c.Nest)
		return outs, func(j int) int {
			if j <= len(pos) {
				return pos[j-1]
			}
			return tot
		}
	case "Runs":
		for i := 0; i < n; {
			j := i + 1
			for j < n && c.same(in[i], in[j]) {
				j++
			}
			outs = append(outs, append([]int(nil), in[i:j]...))
			i = j
		}
		return outs, nil
	case "WithPeek":
		for _, x := range in {
			outs = append(outs, one(x))
		}
		return outs, nil
	}
	return outs, func(j int) int {
		if j <= len(pos) {
			return pos[j-1]
		}
		return n
	}
}

type trace struct {
	outs   [][]int
	handed []int // items handed out by the source(s) after each response (incl. end responses)
	ends   int   // number of end responses observed
}

// drive pulls responses as the consumer script says.
func drive(c Single, next func() ([]int, bool), handed func() int) (trace, error) {
	var tr trace
	if h := handed(); h != 0 {
		return tr, vk.Violf("eager", "%s pulled %d source items before the first Next call", c.Comb, h)
	}
	cbCalls = 0
	perItem := c.Comb == "Map" || c.Comb == "Filter" || c.Comb == "While" || c.Comb == "CompactFunc"
	for c.Pulls < 0 || len(tr.outs) < c.Pulls {
		o, ok := next()
		tr.handed = append(tr.handed, handed())
		if perItem && cbCalls > handed() {
			// the user's function is only ever shown items the source yielded (never, say, a zero value at the end)
			return tr, vk.Violf("callback-on-phantom-item", "%s: the user function has been called %d times although the source has yielded only %d items", c.Comb, cbCalls, handed())
		}
		if !ok {
			tr.ends++
			for i := 0; i < c.Extra; i++ {
				o2, ok2 := next()
				tr.handed = append(tr.handed, handed())
				if ok2 {
					return tr, vk.Violf("end-not-sticky", "%s yielded %v after reporting the end", c.Comb, o2)
				}
				tr.ends++
			}
			return tr, nil
		}
		if c.Comb == "Chunk" {
			// every chunk handed out so far belongs to the consumer, spare capacity included
			for _, e := range tr.outs {
				full := e[:cap(e)]
				for i := len(e); i < len(full); i++ {
					full[i] = -99
				}
			}
		}
		tr.outs = append(tr.outs, o)
		if len(tr.outs) > 500 {
			return tr, vk.Violf("endless", "%s yields more than 500 responses", c.Comb)
		}
	}
	return tr, nil
}

func compareTrace(c Single, impl string, tr trace, want [][]int, need func(int) int) error {
	if len(tr.outs) > len(want) {
		return vk.Violf("wrong-output", "%s %s: yields %d responses %v, reference has %d %v", impl, c.Comb, len(tr.outs), tr.outs, len(want), want)
	}
	for i := range tr.outs {
		if !reflect.DeepEqual(norm(tr.outs[i]), norm(want[i])) {
			return vk.Violf("wrong-output", "%s %s: response %d is %v, reference %v (all got %v, want %v)", impl, c.Comb, i, tr.outs[i], want[i], tr.outs, want)
		}
	}
	if tr.ends > 0 && len(tr.outs) != len(want) {
		return vk.Violf("early-end", "%s %s: reported the end after %d of %d responses", impl, c.Comb, len(tr.outs), len(want))
	}
	if need != nil {
		for j, h := range tr.handed {
			if nj := need(j + 1); h > nj {
				return vk.Violf("not-lazy", "%s %s: after %d responses the source had handed out %d items, only %d are needed (input %v)", impl, c.Comb, j+1, h, nj, c.Input)
			}
		}
	}
	return nil
}

func norm(x []int) []int {
	if x == nil {
		return []int{}
	}
	return x
}

// ---------------------------------------------------------------------------------------------
// iterator side

func iterNest(nest [][]int) ([]*sk.RecIter[int], []iterator.Iterator[int]) {
	var recs []*sk.RecIter[int]
	var its []iterator.Iterator[int]
	for _, x := range nest {
		r := sk.NewRecIter(x)
		recs = append(recs, r)
		its = append(its, r)
	}
	return recs, its
}

func runIter(c Single) (trace, error) {
	src := sk.NewRecIter(c.Input)
	handed := func() int { return src.Handed }
	wrap := func(it iterator.Iterator[int]) func() ([]int, bool) {
		return func() ([]int, bool) {
			x, ok := it.Next()
			if !ok {
				return nil, false
			}
			return []int{x}, true
		}
	}
	var next func() ([]int, bool)
	switch c.Comb {
	case "Map":
		next = wrap(iterator.Map[int, int](src, mapf))
	case "Filter":
		next = wrap(iterator.Filter[int](src, c.keep))
	case "First":
		next = wrap(iterator.First[int](src, c.N))
	case "While":
		next = wrap(iterator.While[int](src, c.keep))
	case "Compact":
		next = wrap(iterator.Compact[int](src))
	case "CompactFunc":
		next = wrap(iterator.CompactFunc[int](src, c.same))
	case "Chunk":
		it := iterator.Chunk[int](src, c.N)
		next = func() ([]int, bool) { return it.Next() }
	case "Flatten":
		recs, its := iterNest(c.Nest)
		outer := sk.NewRecIter(its)
		handed = func() int {
			n := 0
			for _, r := range recs {
				n += r.Handed
			}
			return n
		}
		next = wrap(iterator.Flatten[int](outer))
	case "FlattenSlices": // iterator has no FlattenSlices: Flatten over Slice iterators
		recs, its := iterNest(c.Nest)
		handed = func() int {
			n := 0
			for _, r := range recs {
				n += r.Handed
			}
			return n
		}
		next = wrap(iterator.Flatten[int](iterator.Slice(its)))
	case "Join":
		recs, its := iterNest(c.Nest)
		handed = func() int {
			n := 0
			for _, r := range recs {
				n += r.Handed
			}
			return n
		}
		// (the variadic arguments are the caller's own slice: Join may read it, not write to it)
		orig := append([]iterator.Iterator[int]{}, its...)
		inner := wrap(iterator.Join(its...))
		next = func() ([]int, bool) {
			r, ok := inner()
			for i := range its {
				if its[i] != orig[i] {
					return []int{-996}, true // Join modified the slice it was given
				}
			}
			return r, ok
		}
	case "Runs":
		outer := iterator.Runs[int](src, c.same)
		run := 0
		var ended []iterator.Iterator[int] // inner iterators that have reported their end
		next = func() ([]int, bool) {
			inner, ok := outer.Next()
			// sticky end also holds for the inner iterators: one that has reported its end keeps doing so,
			// whatever the outer iterator has moved on to meanwhile
			for _, e := range ended {
				if x, again := e.Next(); again {
					return []int{-998, x}, true
				}
			}
			if !ok {
				return nil, false
			}
			mode := -1
			if run < len(c.Drain) {
				mode = c.Drain[run]
			}
			run++
			got := []int{}
			for (mode < 0 || len(got) < mode) && len(got) < 300 {
				x, ok := inner.Next()
				if !ok {
					if _, again := inner.Next(); again {
						got = append(got, -999) // inner end not sticky
					}
					ended = append(ended, inner)
					break
				}
				got = append(got, x)
			}
			return got, true
		}
	case "WithPeek":
		return runPeekIter(c)
	default:
		return trace{}, fmt.Errorf("bad comb %q", c.Comb)
	}
	return drive(c, next, handed)
}

// runPeekIter follows the Peek/Next script; every Peek must show what the next Next returns.
func runPeekIter(c Single) (trace, error) {
	src := sk.NewRecIter(c.Input)
	p := iterator.WithPeek[int](src)
	var tr trace
	consumed := 0
	for i, isPeek := range c.Peeks {
		if isPeek {
			x, ok := p.Peek()
			wantOK := consumed < len(c.Input)
			if ok != wantOK || (ok && x != c.Input[consumed]) {
				return tr, vk.Violf("peek", "iterator WithPeek: script step %d Peek=(%d,%v), want item %d of %v", i, x, ok, consumed, c.Input)
			}
			if src.Handed > consumed+1 {
				return tr, vk.Violf("not-lazy", "iterator WithPeek: %d items pulled, only %d consumed", src.Handed, consumed)
			}
			continue
		}
		x, ok := p.Next()
		if consumed < len(c.Input) {
			if !ok || x != c.Input[consumed] {
				return tr, vk.Violf("wrong-output", "iterator WithPeek: step %d Next=(%d,%v), want %d", i, x, ok, c.Input[consumed])
			}
			consumed++
			tr.outs = append(tr.outs, []int{x})
		} else if ok {
			return tr, vk.Violf("end-not-sticky", "iterator WithPeek: Next yields %d past the end", x)
		}
		if src.Handed > consumed+1 {
			return tr, vk.Violf("not-lazy", "iterator WithPeek: %d items pulled, only %d consumed", src.Handed, consumed)
		}
	}
	// the Peekable is an iterator like any other: handed on - possibly with a peeked item pending - the rest of the
	// sequence comes out of whatever is built on it
	if mode, pend := peekHandover(c); mode != 0 {
		// (once over the recording source, once over one of the library's own iterators, brought to the same position)
		p2 := iterator.WithPeek(iterator.Slice(append([]int{}, c.Input...)))
		for i := 0; i < consumed; i++ {
			p2.Next()
		}
		for round, p := range []iterator.Peekable[int]{p, p2} {
			if pend {
				p.Peek()
			}
			var rest []int
			switch mode {
			case 1:
				rest = iterator.Collect[int](p)
			case 2:
				rest = iterator.Collect(iterator.Map[int, int](p, func(x int) int { return x }))
			default:
				for _, ch := range iterator.Collect(iterator.Chunk[int](p, 3)) {
					rest = append(rest, ch...)
				}
			}
			if !reflect.DeepEqual(append([]int{}, rest...), append([]int{}, c.Input[consumed:]...)) {
				return tr, vk.Violf("wrong-output", "iterator WithPeek over %v (source %d): after %d items were taken (a Peek pending: %v) the Peekable was handed on (mode %d) and yielded %v", c.Input, round, consumed, pend, mode, rest)
			}
			if round == 0 {
				for _, x := range rest {
					tr.outs = append(tr.outs, []int{x})
				}
			}
		}
	}
	return tr, nil
}

// peekHandover: what happens to a Peekable after its Peek/Next script: 0 nothing, 1 Collect, 2 Map+Collect,
// 3 Chunk+Collect; pend = one more Peek first.
func peekHandover(c Single) (mode int, pend bool) {
	return (len(c.Peeks) + len(c.Input)) % 4, len(c.Peeks)%2 == 0
}

// ---------------------------------------------------------------------------------------------
// stream side

var bg = context.Background()

func streamNest(nest [][]int) ([]*sk.RecStream[int], []stream.Stream[int]) {
	var recs []*sk.RecStream[int]
	var ss []stream.Stream[int]
	for i, x := range nest {
		r := sk.NewRecStream(fmt.Sprintf("inner%d", i), x)
		recs = append(recs, r)
		ss = append(ss, r)
	}
	return recs, ss
}

func runStream(c Single) (trace, error) {
	src := sk.NewRecStream("src", c.Input)
	handed := func() int { return src.Handed() }
	var bad error
	wrap := func(s stream.Stream[int]) func() ([]int, bool) {
		return func() ([]int, bool) {
			x, err := s.Next(bg)
			if err == stream.End {
				return nil, false
			}
			if err != nil {
				bad = err
				return nil, false
			}
			return []int{x}, true
		}
	}
	keepE := func(_ context.Context, x int) (bool, error) { return c.keep(x), nil }
	var next func() ([]int, bool)
	var closer func()
	switch c.Comb {
	case "Map":
		s := stream.Map[int, int](src, func(_ context.Context, x int) (int, error) { return mapf(x), nil })
		next, closer = wrap(s), s.Close
	case "Filter":
		s := stream.Filter[int](src, keepE)
		next, closer = wrap(s), s.Close
	case "First":
		s := stream.First[int](src, c.N)
		next, closer = wrap(s), s.Close
	case "While":
		s := stream.While[int](src, keepE)
		next, closer = wrap(s), s.Close
	case "Compact":
		s := stream.Compact[int](src)
		next, closer = wrap(s), s.Close
	case "CompactFunc":
		s := stream.CompactFunc[int](src, c.same)
		next, closer = wrap(s), s.Close
	case "Chunk":
		s := stream.Chunk[int](src, c.N)
		closer = s.Close
		next = func() ([]int, bool) {
			x, err := s.Next(bg)
			if err == stream.End {
				return nil, false
			}
			if err != nil {
				bad = err
				return nil, false
			}
			return x, true
		}
	case "Flatten":
		recs, ss := streamNest(c.Nest)
		outer := sk.NewRecStream("outer", ss)
		handed = func() int {
			n := 0
			for _, r := range recs {
				n += r.Handed()
			}
			return n
		}
		s := stream.Flatten[int](outer)
		next, closer = wrap(s), s.Close
	case "FlattenSlices":
		// stream.FlattenSlices zeroes consumed entries of the slices it is handed: give it copies.
		nestCopy := make([][]int, len(c.Nest))
		for i, x := range c.Nest {
			nestCopy[i] = append([]int(nil), x...)
		}
		outer := sk.NewRecStream("outer", nestCopy)
		// laziness is counted in slices handed out: response j needs the slices up to the one holding item j
		handed = func() int {
			n := 0
			for i := 0; i < outer.Handed(); i++ {
				n += len(c.Nest[i])
			}
			return n
		}
		s := stream.FlattenSlices[int](outer)
		next, closer = wrap(s), s.Close
	case "Join":
		recs, ss := streamNest(c.Nest)
		handed = func() int {
			n := 0
			for _, r := range recs {
				n += r.Handed()
			}
			return n
		}
		origS := append([]stream.Stream[int]{}, ss...)
		s := stream.Join(ss...)
		innerS := wrap(s)
		next, closer = func() ([]int, bool) {
			r, ok := innerS()
			for i := range ss {
				if ss[i] != origS[i] {
					return []int{-996}, true // Join modified the slice it was given
				}
			}
			return r, ok
		}, s.Close
	case "Runs":
		outer := stream.Runs[int](src, c.same)
		closer = outer.Close
		run := 0
		var ended []stream.Stream[int]
		next = func() ([]int, bool) {
			inner, err := outer.Next(bg)
			for _, e := range ended {
				if x, err2 := e.Next(bg); err2 != stream.End {
					return []int{-998, x}, true
				}
			}
			if err == stream.End {
				return nil, false
			}
			if err != nil {
				bad = err
				return nil, false
			}
			mode := -1
			if run < len(c.Drain) {
				mode = c.Drain[run]
			}
			run++
			got := []int{}
			for (mode < 0 || len(got) < mode) && len(got) < 300 {
				x, err := inner.Next(bg)
				if err == stream.End {
					if _, err2 := inner.Next(bg); err2 != stream.End {
						got = append(got, -999)
					}
					ended = append(ended, inner)
					break
				}
				if err != nil {
					bad = err
					break
				}
				got = append(got, x)
			}
			return got, true
		}
	case "WithPeek":
		return runPeekStream(c)
	default:
		return trace{}, fmt.Errorf("bad comb %q", c.Comb)
	}
	tr, err := drive(c, next, handed)
	closer()
	if err == nil && bad != nil {
		err = vk.Violf("spurious-error", "stream %s returned error %v on a fault-free source", c.Comb, bad)
	}
	return tr, err
}

func runPeekStream(c Single) (trace, error) {
	src := sk.NewRecStream("src", c.Input)
	p := stream.WithPeek[int](src)
	handedOn := false
	defer func() {
		if !handedOn {
			p.Close()
		}
	}()
	var tr trace
	consumed := 0
	for i, isPeek := range c.Peeks {
		if isPeek {
			x, err := p.Peek(bg)
			wantOK := consumed < len(c.Input)
			if (err == nil) != wantOK || (err != nil && err != stream.End) || (err == nil && x != c.Input[consumed]) {
				return tr, vk.Violf("peek", "stream WithPeek: script step %d Peek=(%d,%v), want item %d of %v", i, x, err, consumed, c.Input)
			}
		} else {
			x, err := p.Next(bg)
			if consumed < len(c.Input) {
				if err != nil || x != c.Input[consumed] {
					return tr, vk.Violf("wrong-output", "stream WithPeek: step %d Next=(%d,%v), want %d", i, x, err, c.Input[consumed])
				}
				consumed++
				tr.outs = append(tr.outs, []int{x})
			} else if err != stream.End {
				return tr, vk.Violf("end-not-sticky", "stream WithPeek: Next=(%d,%v) past the end", x, err)
			}
		}
		if src.Handed() > consumed+1 {
			return tr, vk.Violf("not-lazy", "stream WithPeek: %d items pulled, only %d consumed", src.Handed(), consumed)
		}
	}
	if mode, pend := peekHandover(c); mode != 0 {
		if pend {
			p.Peek(bg)
		}
		handedOn = true
		var rest []int
		var err error
		switch mode {
		case 1:
			rest, err = stream.Collect[int](bg, p)
		case 2:
			rest, err = stream.Collect(bg, stream.Map[int, int](p, func(_ context.Context, x int) (int, error) { return x, nil }))
		default:
			var chunks [][]int
			chunks, err = stream.Collect(bg, stream.Chunk[int](p, 3))
			for _, ch := range chunks {
				rest = append(rest, ch...)
			}
		}
		if err != nil || !reflect.DeepEqual(append([]int{}, rest...), append([]int{}, c.Input[consumed:]...)) {
			return tr, vk.Violf("wrong-output", "stream WithPeek over %v: after %d items were taken (a Peek pending: %v) the Peekable was handed on (mode %d) and yielded (%v, %v)", c.Input, consumed, pend, mode, rest, err)
		}
		for _, x := range rest {
			tr.outs = append(tr.outs, []int{x})
		}
	}
	return tr, nil
}

// ---------------------------------------------------------------------------------------------
// xslices side (where a counterpart exists): full output only

func runSlices(c Single) ([][]int, bool) {
	one := func(xs []int) [][]int {
		out := make([][]int, len(xs))
		for i, x := range xs {
			out[i] = []int{x}
		}
		return out
	}
	in := append([]int(nil), c.Input...)
	switch c.Comb {
	case "Map":
		return one(xslices.Map(in, mapf)), true
	case "Filter", "Compact", "CompactFunc":
		// These have ...InPlace twins that reuse the input's storage; the plain versions return a slice of
		// their own: writing all over the result (spare capacity included) leaves the input as it was.
		src := append(make([]int, 0, len(in)+3), in...)
		var got []int
		switch c.Comb {
		case "Filter":
			got = xslices.Filter(src, c.keep)
		case "Compact":
			got = xslices.Compact(src)
		default:
			got = xslices.CompactFunc(src, c.same)
		}
		res := append([]int{}, got...)
		full := got[:cap(got)]
		for i := range full {
			full[i] = -99
		}
		if !reflect.DeepEqual(norm(src), norm(in)) {
			return [][]int{{-996}}, true // the result shares storage with the input
		}
		return one(res), true
	case "Chunk":
		return xslices.Chunk(in, c.N), true
	case "Join", "Flatten", "FlattenSlices":
		// inputs with spare capacity behind their length (marked): Join returns a new slice
		ins := make([][]int, len(c.Nest))
		for i, x := range c.Nest {
			b := make([]int, len(x)+3)
			copy(b, x)
			b[len(x)], b[len(x)+1], b[len(x)+2] = -7, -7, -7
			ins[i] = b[:len(x)]
		}
		got := xslices.Join(ins...)
		res := append([]int(nil), got...)
		for i := range got {
			got[i] = -99
		}
		for i, x := range c.Nest {
			full := ins[i][:len(x)+3]
			if !reflect.DeepEqual(norm(full[:len(x)]), norm(x)) || full[len(x)] != -7 || full[len(x)+1] != -7 || full[len(x)+2] != -7 {
				return [][]int{{-996}}, true // the result aliases an input / Join wrote behind an input's length
			}
		}
		return one(res), true
	case "Runs":
		return xslices.Runs(in, c.same), true
	}
	return nil, false
}

func truncateRuns(c Single, want [][]int) [][]int {
	out := make([][]int, len(want))
	for i, r := range want {
		mode := -1
		if i < len(c.Drain) {
			mode = c.Drain[i]
		}
		if mode >= 0 && mode < len(r) {
			r = r[:mode]
		}
		out[i] = r
	}
	return out
}

func sum31(acc, x int) int { return (acc*31 + x + 7) % 1000003 }

func refLast(in []int, n int) []int {
	if n > len(in) {
		n = len(in)
	}
	return append([]int{}, in[len(in)-n:]...)
}

func runReducer(c Single) (vk.Outcome, error) {
	var out vk.Outcome
	in := c.Input
	switch c.Comb {
	case "Collect":
		gi := iterator.Collect[int](sk.NewRecIter(in))
		gs, err := stream.Collect[int](bg, sk.NewRecStream("src", in))
		if err != nil || !reflect.DeepEqual(norm(gi), norm(in)) || !reflect.DeepEqual(norm(gs), norm(in)) {
			return out, vk.Violf("wrong-output", "Collect(%v): iterator %v stream %v err %v", in, gi, gs, err)
		}
	case "Last":
		want := refLast(in, c.N)
		gi := iterator.Last[int](sk.NewRecIter(in), c.N)
		if !reflect.DeepEqual(norm(gi), want) {
			return out, vk.Violf("wrong-output", "iterator.Last(%v, %d) = %v want %v", in, c.N, gi, want)
		}
		gs, err := stream.Last[int](bg, sk.NewRecStream("src", in), c.N)
		if err != nil || !reflect.DeepEqual(norm(gs), want) {
			return out, vk.Violf("wrong-output", "stream.Last(%v, %d) = %v, %v want %v", in, c.N, gs, err, want)
		}
	case "One":
		src := sk.NewRecIter(in)
		x, ok := iterator.One[int](src)
		if ok != (len(in) == 1) || (ok && x != in[0]) || (!ok && x != 0) {
			return out, vk.Violf("wrong-output", "iterator.One(%v) = %d,%v", in, x, ok)
		}
		if src.Handed > 2 {
			return out, vk.Violf("not-lazy", "iterator.One pulled %d items", src.Handed)
		}
		ss := sk.NewRecStream("src", in)
		sx, err := stream.One[int](bg, ss)
		switch {
		case len(in) == 0 && err != stream.ErrEmpty, len(in) == 1 && (err != nil || sx != in[0]), len(in) > 1 && err != stream.ErrMoreThanOne:
			return out, vk.Violf("wrong-output", "stream.One(%v) = %d,%v", in, sx, err)
		}
		if ss.Handed() > 2 {
			return out, vk.Violf("not-lazy", "stream.One pulled %d items", ss.Handed())
		}
	case "Reduce":
		want := 0
		for _, x := range in {
			want = sum31(want, x)
		}
		gi := iterator.Reduce[int, int](sk.NewRecIter(in), 0, sum31)
		gx := xslices.Reduce(in, 0, sum31)
		gs, err := stream.Reduce[int, int](bg, sk.NewRecStream("src", in), 0, func(a, x int) (int, error) { return sum31(a, x), nil })
		if gi != want || gx != want || gs != want || err != nil {
			return out, vk.Violf("wrong-output", "Reduce(%v): iterator %d xslices %d stream %d,%v want %d", in, gi, gx, gs, err, want)
		}
	case "Equal":
		want := reflect.DeepEqual(norm(in), norm(c.Other))
		gi := iterator.Equal[int](sk.NewRecIter(in), sk.NewRecIter(c.Other))
		gx := xslices.Equal(in, c.Other)
		g3 := iterator.Equal[int](sk.NewRecIter(in), sk.NewRecIter(in), sk.NewRecIter(c.Other))
		g1 := iterator.Equal[int](sk.NewRecIter(in))
		g0 := iterator.Equal[int]()
		if gi != want || gx != want || g3 != want || !g1 || !g0 {
			return out, vk.Violf("wrong-output", "Equal(%v,%v): iterator %v xslices %v 3-way %v 1-way %v 0-way %v want %v", in, c.Other, gi, gx, g3, g1, g0, want)
		}
		// an element type whose == is not reflexive: sequences holding a NaN are equal to nothing, not even
		// to themselves - also when both operands are the very same slice
		fl := make([]float64, len(in))
		for i, x := range in {
			fl[i] = float64(x)
			if x == c.Mask%U {
				fl[i] = math.NaN()
			}
		}
		hasNaN := false
		for _, x := range fl {
			hasNaN = hasNaN || x != x
		}
		if sx, si := xslices.Equal(fl, fl), iterator.Equal[float64](iterator.Slice(fl), iterator.Slice(fl)); sx != !hasNaN || si != !hasNaN {
			return out, vk.Violf("wrong-output", "Equal of a float sequence with itself (holds NaN: %v): xslices %v iterator %v, want %v", hasNaN, sx, si, !hasNaN)
		}
		if cl := append([]float64{}, fl...); xslices.Equal(fl, cl) != !hasNaN {
			return out, vk.Violf("wrong-output", "Equal of a float sequence and its copy (holds NaN: %v) = %v", hasNaN, !(!hasNaN))
		}
	}
	out.NonTrivial = len(in) >= 2 && (c.Comb != "Last" || c.N == 0 || c.N >= len(in)-1)
	if c.Comb == "Last" && c.N == 0 {
		out.Label("Last:n=0")
	}
	return out, nil
}

func runSingle(c Single) (vk.Outcome, error) {
	var out vk.Outcome
	out.Label("comb:" + c.Comb)
	for _, r := range reducers {
		if c.Comb == r {
			return runReducer(c)
		}
	}
	if len(c.Classes) != U {
		return out, fmt.Errorf("bad classes")
	}
	want, need := ref(c)
	wantCmp := want
	if c.Comb == "Runs" {
		wantCmp = truncateRuns(c, want)
	}
	ti, err := runIter(c)
	if err != nil {
		return out, err
	}
	if c.Comb != "WithPeek" {
		if err := compareTrace(c, "iterator", ti, wantCmp, need); err != nil {
			return out, err
		}
	}
	ts, err := runStream(c)
	if err != nil {
		return out, err
	}
	if c.Comb != "WithPeek" {
		sneed := need
		if c.Comb == "FlattenSlices" {
			sneed = nil // the stream source hands out whole slices; item-level laziness is not defined
		}
		if err := compareTrace(c, "stream", ts, wantCmp, sneed); err != nil {
			return out, err
		}
	}
	if got, ok := runSlices(c); ok {
		if len(got) != len(want) {
			return out, vk.Violf("wrong-output", "xslices %s(%v): %v, reference %v", c.Comb, c.Input, got, want)
		}
		for i := range got {
			if !reflect.DeepEqual(norm(got[i]), norm(want[i])) {
				return out, vk.Violf("wrong-output", "xslices %s(%v): %v, reference %v", c.Comb, c.Input, got, want)
			}
		}
		out.Label("3-way")
	}
	n := len(c.Input)
	if c.Nest != nil {
		n = total(c.Nest)
	}
	boundary := c.N == 0 || c.N == n-1 || c.N == n || c.N == n+1
	if c.Comb == "Chunk" && n > 0 && n%c.N == 0 {
		boundary = true
		out.Label("chunk-boundary-end")
	}
	if len(want) > 0 && c.Comb == "Runs" && (len(want[0]) == 1 || len(want[len(want)-1]) == 1) {
		boundary = true
		out.Label("runs-singleton-at-edge")
	}
	if ti.ends > 1 || ts.ends > 1 {
		boundary = true
		out.Label("pull-after-end")
	}
	out.NonTrivial = n >= 2 && boundary
	return out, nil
}

func TestSingle(t *testing.T) {
	vk.Run(t, suite, "single", 6000, genSingle, runSingle)
}
