package c07comb

import (
	"context"
	"fmt"
	"reflect"
	"testing"

	"github.com/bradenaw/juniper/iterator"
	"github.com/bradenaw/juniper/stream"
	"github.com/bradenaw/juniper/xslices"
	"pgregory.net/rapid"

	"verif/harness/sk"
	"verif/harness/vk"
)

type Stage struct {
	Op      string `json:"op"`
	K       int    `json:"k,omitempty"`
	N       int    `json:"n,omitempty"`
	Mask    int    `json:"mask,omitempty"`
	Classes []int  `json:"classes,omitempty"`
	Extra   []int  `json:"extra,omitempty"`
	Before  bool   `json:"before,omitempty"`
}

type Pipeline struct {
	Input   []int   `json:"in"`
	Stages  []Stage `json:"stages"`
	Reducer string  `json:"reducer"`
	N       int     `json:"n,omitempty"`
	// LibSrc: the pipeline is built on the library's own constructors (iterator.Slice, stream.FromIterator over
	// it) instead of the recording doubles - implementations may know more about their own types than about a
	// stranger's (a size hint, a fast path)
	LibSrc bool `json:"lib_src,omitempty"`
}

var stageOps = []string{"Map", "Filter", "First", "While", "Compact", "ChunkFlatten", "Join", "RunsFlatten", "WithPeek"}

func genPipeline(t *rapid.T) Pipeline {
	p := Pipeline{Input: genInput(t, "in", 30), LibSrc: rapid.IntRange(0, 2).Draw(t, "libsrc") == 0}
	depth := rapid.IntRange(1, 4).Draw(t, "depth")
	for i := 0; i < depth; i++ {
		s := Stage{Op: rapid.SampledFrom(stageOps).Draw(t, "stage")}
		switch s.Op {
		case "Map":
			s.K = rapid.IntRange(1, 5).Draw(t, "k")
		case "Filter", "While":
			s.Mask = rapid.IntRange(0, 255).Draw(t, "mask") | rapid.SampledFrom([]int{0, 0, 255}).Draw(t, "bias")
		case "First":
			s.N = genParam(t, "first", len(p.Input), -3)
		case "ChunkFlatten":
			s.N = genParam(t, "chunk", len(p.Input), 1)
		case "Join":
			s.Extra = rapid.SliceOfN(rapid.IntRange(0, U-1), 0, 4).Draw(t, "extra")
			s.Before = rapid.Bool().Draw(t, "before")
		case "RunsFlatten":
			s.Classes = genClasses(t)
		}
		p.Stages = append(p.Stages, s)
	}
	p.Reducer = rapid.SampledFrom(reducers).Draw(t, "reducer")
	if p.Reducer == "Last" {
		p.N = genParam(t, "last", len(p.Input), 0)
	}
	return p
}

func (s Stage) mapf(x int) int     { return (x*s.K + 1) % U }
func (s Stage) keep(x int) bool    { return s.Mask&(1<<uint(x%U)) != 0 }
func (s Stage) same(a, b int) bool { return s.Classes[a%U] == s.Classes[b%U] }

// refStage: the obvious slice semantics of one stage.
func refStage(s Stage, in []int) []int {
	out := []int{}
	switch s.Op {
	case "Map":
		for _, x := range in {
			out = append(out, s.mapf(x))
		}
	case "Filter":
		for _, x := range in {
			if s.keep(x) {
				out = append(out, x)
			}
		}
	case "First":
		for i, x := range in {
			if i < s.N {
				out = append(out, x)
			}
		}
	case "While":
		for _, x := range in {
			if !s.keep(x) {
				break
			}
			out = append(out, x)
		}
	case "Compact":
		for i, x := range in {
			if i == 0 || in[i-1] != x {
				out = append(out, x)
			}
		}
	case "Join":
		if s.Before {
			out = append(append(out, s.Extra...), in...)
		} else {
			out = append(append(out, in...), s.Extra...)
		}
	default: // ChunkFlatten, RunsFlatten, WithPeek are identities
		out = append(out, in...)
	}
	return out
}

func iterStage(s Stage, in iterator.Iterator[int]) iterator.Iterator[int] {
	switch s.Op {
	case "Map":
		return iterator.Map(in, s.mapf)
	case "Filter":
		return iterator.Filter(in, s.keep)
	case "First":
		return iterator.First(in, s.N)
	case "While":
		return iterator.While(in, s.keep)
	case "Compact":
		return iterator.Compact(in)
	case "ChunkFlatten":
		return iterator.Flatten(iterator.Map(iterator.Chunk(in, s.N), func(c []int) iterator.Iterator[int] { return iterator.Slice(c) }))
	case "Join":
		if s.Before {
			return iterator.Join(iterator.Slice(s.Extra), in)
		}
		return iterator.Join(in, iterator.Slice(s.Extra))
	case "RunsFlatten":
		return iterator.Flatten(iterator.Runs(in, s.same))
	case "WithPeek":
		p := iterator.WithPeek(in)
		return peekEach{p}
	}
	panic("bad stage " + s.Op)
}

type peekEach struct{ p iterator.Peekable[int] }

func (pe peekEach) Next() (int, bool) {
	px, pok := pe.p.Peek()
	x, ok := pe.p.Next()
	if px != x || pok != ok {
		return -777, true
	}
	return x, ok
}

type peekEachS struct{ p stream.Peekable[int] }

func (pe peekEachS) Next(ctx context.Context) (int, error) {
	px, perr := pe.p.Peek(ctx)
	x, err := pe.p.Next(ctx)
	if px != x || perr != err {
		return -777, nil
	}
	return x, err
}
func (pe peekEachS) Close() { pe.p.Close() }

func streamStage(s Stage, in stream.Stream[int]) stream.Stream[int] {
	switch s.Op {
	case "Map":
		return stream.Map(in, func(_ context.Context, x int) (int, error) { return s.mapf(x), nil })
	case "Filter":
		return stream.Filter(in, func(_ context.Context, x int) (bool, error) { return s.keep(x), nil })
	case "First":
		return stream.First(in, s.N)
	case "While":
		return stream.While(in, func(_ context.Context, x int) (bool, error) { return s.keep(x), nil })
	case "Compact":
		return stream.Compact(in)
	case "ChunkFlatten":
		return stream.FlattenSlices(stream.Chunk(in, s.N))
	case "Join":
		if s.Before {
			return stream.Join(stream.FromIterator(iterator.Slice(s.Extra)), in)
		}
		return stream.Join(in, stream.FromIterator(iterator.Slice(s.Extra)))
	case "RunsFlatten":
		return stream.Flatten(stream.Runs(in, s.same))
	case "WithPeek":
		return peekEachS{stream.WithPeek(in)}
	}
	panic("bad stage " + s.Op)
}

// slicesStage returns false when xslices has no counterpart for the stage.
func slicesStage(s Stage, in []int) ([]int, bool) {
	switch s.Op {
	case "Map":
		return xslices.Map(in, s.mapf), true
	case "Filter":
		return xslices.Filter(in, s.keep), true
	case "Compact":
		return xslices.Compact(in), true
	case "ChunkFlatten":
		return xslices.Join(xslices.Chunk(in, s.N)...), true
	case "Join":
		if s.Before {
			return xslices.Join(s.Extra, in), true
		}
		return xslices.Join(in, s.Extra), true
	case "RunsFlatten":
		return xslices.Join(xslices.Runs(in, s.same)...), true
	}
	return nil, false
}

func runPipeline(p Pipeline) (vk.Outcome, error) {
	var out vk.Outcome
	for _, s := range p.Stages {
		if s.Op == "RunsFlatten" && len(s.Classes) != U || s.Op == "ChunkFlatten" && s.N < 1 {
			return out, fmt.Errorf("bad stage")
		}
	}
	want := append([]int{}, p.Input...)
	for _, s := range p.Stages {
		want = refStage(s, want)
	}
	src := sk.NewRecIter(p.Input)
	var it iterator.Iterator[int] = src
	if p.LibSrc {
		it = iterator.Slice(append([]int{}, p.Input...))
	}
	for _, s := range p.Stages {
		it = iterStage(s, it)
	}
	ssrc := sk.NewRecStream("src", p.Input)
	var st stream.Stream[int] = ssrc
	if p.LibSrc {
		st = stream.FromIterator(iterator.Slice(append([]int{}, p.Input...)))
	}
	for _, s := range p.Stages {
		st = streamStage(s, st)
	}
	if src.Handed != 0 || ssrc.Handed() != 0 {
		return out, vk.Violf("eager", "pipeline %s pulled source items (%d iterator, %d stream) before the first Next", vk.Short(p.Stages), src.Handed, ssrc.Handed())
	}
	xs, xok := append([]int{}, p.Input...), true
	for _, s := range p.Stages {
		if xok {
			xs, xok = slicesStage(s, xs)
		}
	}
	if xok && !reflect.DeepEqual(norm(xs), want) {
		return out, vk.Violf("wrong-output", "xslices pipeline %s on %v = %v, reference %v", vk.Short(p.Stages), p.Input, xs, want)
	}
	desc := fmt.Sprintf("pipeline %s | %s on %v", vk.Short(p.Stages), p.Reducer, p.Input)
	switch p.Reducer {
	case "Collect":
		gi := iterator.Collect(it)
		gs, err := stream.Collect(bg, st)
		if err != nil || !reflect.DeepEqual(norm(gi), want) || !reflect.DeepEqual(norm(gs), want) {
			return out, vk.Violf("wrong-output", "%s: iterator %v, stream %v (%v), reference %v", desc, gi, gs, err, want)
		}
		if _, ok := it.Next(); ok {
			return out, vk.Violf("end-not-sticky", "%s: iterator yields after Collect saw the end", desc)
		}
	case "Last":
		w := refLast(want, p.N)
		gi := iterator.Last(it, p.N)
		gs, err := stream.Last(bg, st, p.N)
		if err != nil || !reflect.DeepEqual(norm(gi), w) || !reflect.DeepEqual(norm(gs), w) {
			return out, vk.Violf("wrong-output", "%s Last(%d): iterator %v, stream %v (%v), reference %v", desc, p.N, gi, gs, err, w)
		}
	case "One":
		x, ok := iterator.One(it)
		sx, err := stream.One(bg, st)
		st.Close()
		okWant := len(want) == 1
		if ok != okWant || (ok && x != want[0]) {
			return out, vk.Violf("wrong-output", "%s: iterator.One = %d,%v reference %v", desc, x, ok, want)
		}
		switch {
		case len(want) == 0 && err != stream.ErrEmpty, len(want) == 1 && (err != nil || sx != want[0]), len(want) > 1 && err != stream.ErrMoreThanOne:
			return out, vk.Violf("wrong-output", "%s: stream.One = %d,%v reference %v", desc, sx, err, want)
		}
	case "Reduce":
		w := 0
		for _, x := range want {
			w = sum31(w, x)
		}
		gi := iterator.Reduce(it, 0, sum31)
		gs, err := stream.Reduce(bg, st, 0, func(a, x int) (int, error) { return sum31(a, x), nil })
		if gi != w || gs != w || err != nil {
			return out, vk.Violf("wrong-output", "%s: iterator %d stream %d (%v) reference %d", desc, gi, gs, err, w)
		}
	case "Equal":
		st.Close()
		if !iterator.Equal(it, iterator.Slice(want)) {
			return out, vk.Violf("wrong-output", "%s: iterator.Equal(pipeline, reference %v) = false", desc, want)
		}
		// and a perturbed expectation must compare unequal
		src2 := sk.NewRecIter(p.Input)
		var it2 iterator.Iterator[int] = src2
		for _, s := range p.Stages {
			it2 = iterStage(s, it2)
		}
		if iterator.Equal(it2, iterator.Slice(append(append([]int{}, want...), 3))) {
			return out, vk.Violf("wrong-output", "%s: iterator.Equal(pipeline, reference+[3]) = true", desc)
		}
	}
	out.Label(fmt.Sprintf("depth=%d", len(p.Stages)))
	out.Label("reducer:" + p.Reducer)
	if xok {
		out.Label("3-way")
	}
	out.NonTrivial = len(p.Input) >= 2 && len(p.Stages) >= 2
	return out, nil
}

func TestPipeline(t *testing.T) {
	vk.Run(t, suite, "pipeline", 4000, genPipeline, runPipeline)
}

// ---------------------------------------------------------------------------------------------
// constructors

type Ctor struct {
	Kind  string `json:"kind"` // Counter Repeat Slice Chan Empty FromIterator
	N     int    `json:"n,omitempty"`
	X     int    `json:"x,omitempty"`
	Items []int  `json:"items,omitempty"`
	Extra int    `json:"extra"`
}

func genCtor(t *rapid.T) Ctor {
	c := Ctor{Kind: rapid.SampledFrom([]string{"Counter", "Repeat", "Slice", "Chan", "Empty", "FromIterator"}).Draw(t, "kind"),
		Extra: rapid.IntRange(1, 3).Draw(t, "extra")}
	switch c.Kind {
	case "Counter", "Repeat":
		c.N = rapid.IntRange(-3, 12).Draw(t, "n")
		c.X = rapid.IntRange(0, U-1).Draw(t, "x")
	default:
		c.Items = genInput(t, "items", 12)
	}
	return c
}

type iterFunc func() (int, bool)

func (f iterFunc) Next() (int, bool) { return f() }

func drainIter(it iterator.Iterator[int], extra int) ([]int, error) {
	out := []int{}
	for {
		x, ok := it.Next()
		if !ok {
			break
		}
		out = append(out, x)
		if len(out) > 200 {
			return out, vk.Violf("endless", "constructor yields more than 200 items")
		}
	}
	for i := 0; i < extra; i++ {
		if x, ok := it.Next(); ok {
			return out, vk.Violf("end-not-sticky", "constructor yielded %d after the end", x)
		}
	}
	return out, nil
}

func drainStream(s stream.Stream[int], extra int) ([]int, error) {
	defer s.Close()
	out := []int{}
	for {
		x, err := s.Next(bg)
		if err == stream.End {
			break
		}
		if err != nil {
			return out, vk.Violf("spurious-error", "constructor stream returned %v", err)
		}
		out = append(out, x)
		if len(out) > 200 {
			return out, vk.Violf("endless", "constructor yields more than 200 items")
		}
	}
	for i := 0; i < extra; i++ {
		if x, err := s.Next(bg); err != stream.End {
			return out, vk.Violf("end-not-sticky", "constructor stream returned %d,%v after the end", x, err)
		}
	}
	return out, nil
}

func closedChan(items []int) chan int {
	c := make(chan int, len(items)+1)
	for _, x := range items {
		c <- x
	}
	close(c)
	return c
}

func runCtor(c Ctor) (vk.Outcome, error) {
	var out vk.Outcome
	out.Label("ctor:" + c.Kind)
	want := []int{}
	var its []iterator.Iterator[int]
	var sts []stream.Stream[int]
	switch c.Kind {
	case "Counter":
		for i := 0; i < c.N; i++ {
			want = append(want, i)
		}
		its = append(its, iterator.Counter(c.N))
	case "Repeat":
		for i := 0; i < c.N; i++ {
			want = append(want, c.X)
		}
		its = append(its, iterator.Repeat(c.X, c.N))
		if c.N >= 0 {
			if got := xslices.Repeat(c.X, c.N); !reflect.DeepEqual(norm(got), want) {
				return out, vk.Violf("wrong-output", "xslices.Repeat(%d,%d) = %v", c.X, c.N, got)
			}
		}
	case "Slice":
		want = append(want, c.Items...)
		its = append(its, iterator.Slice(c.Items))
	case "Chan":
		want = append(want, c.Items...)
		its = append(its, iterator.Chan[int](closedChan(c.Items)))
		sts = append(sts, stream.Chan[int](closedChan(c.Items)))
	case "Empty":
		its = append(its, iterator.Empty[int]())
		sts = append(sts, stream.Empty[int]())
	case "FromIterator":
		want = append(want, c.Items...)
		sts = append(sts, stream.FromIterator[int](sk.NewRecIter(c.Items)))
	}
	// stream constructors under an already-cancelled context: the call fails with that context's error and
	// costs nothing (the items are still all there afterwards); stream.Error reports its error forever.
	if c.Kind == "Chan" || c.Kind == "FromIterator" {
		cctx, cancel := sk.WithCancel(context.Background())
		cancel()
		var s stream.Stream[int]
		if c.Kind == "Chan" {
			s = stream.Chan[int](closedChan(c.Items))
		} else {
			s = stream.FromIterator[int](sk.NewRecIter(c.Items))
		}
		if c.Kind == "Chan" {
			// a consumer that mixes calls under an ended context with live ones: a call either hands out the
			// next value or fails with the context's error and costs nothing - no value may fall between them
			got := []int{}
			// (the contexts are of hand-written types when Extra is odd: pointer-free / by-value and not comparable)
			live, dead := context.Context(bg), context.Context(cctx)
			if c.Extra%2 == 1 {
				live, dead = sk.DetachValue(bg), sk.DetachValue(cctx)
			}
			for i := 0; i < 4*len(c.Items)+8; i++ {
				ctx, ended := live, false
				if i%3 != 2 {
					ctx, ended = dead, true
				}
				v, err := s.Next(ctx)
				if err == nil {
					got = append(got, v)
				} else if err == stream.End {
					break
				} else if !ended || err != context.Canceled {
					return out, vk.Violf("wrong-output", "stream.Chan: Next returned %v (context ended: %v)", err, ended)
				}
			}
			if !reflect.DeepEqual(got, append([]int{}, c.Items...)) {
				return out, vk.Violf("lost-on-expired-call", "stream.Chan over %v read with a mix of ended-context and live calls yielded %v", c.Items, got)
			}
			s.Close()
		} else if _, err := s.Next(cctx); err == nil {
			return out, vk.Violf("ctx-ignored", "stream.FromIterator: Next with a cancelled context returned an item")
		}
		if c.Kind == "FromIterator" {
			sts = append(sts, s) // nothing was consumed by the failed call
			// the context ends WHILE a reducer is running over the stream (here: as a side effect of the k-th
			// item being produced): the stream notices on its next call, so the reducer fails with the context's
			// error and no more than one further item is pulled
			if k := c.Extra; len(c.Items) > k+1 {
				ctx2, cancel2 := sk.WithCancel(bg)
				pulled := 0
				it := iterFunc(func() (int, bool) {
					if pulled >= len(c.Items) {
						return 0, false
					}
					pulled++
					if pulled == k {
						cancel2()
					}
					return c.Items[pulled-1], true
				})
				got, err := stream.Collect(ctx2, stream.FromIterator[int](it))
				cancel2()
				if err != context.Canceled || got != nil {
					return out, vk.Violf("ctx-ignored", "stream.Collect over FromIterator: the context was cancelled while item %d of %d was produced, Collect returned (%v, %v)", k, len(c.Items), got, err)
				}
				if pulled > k+1 {
					return out, vk.Violf("not-lazy", "stream.Collect over FromIterator pulled %d items although its context ended at item %d", pulled, k)
				}
				// the same read by hand: calls with the ended context fail, and carrying on with a live one
				// continues exactly where the stream was - whatever the iterator handed over is delivered
				ctx3, cancel3 := sk.WithCancel(bg)
				pulled = 0
				it3 := iterFunc(func() (int, bool) {
					if pulled >= len(c.Items) {
						return 0, false
					}
					pulled++
					if pulled == k {
						cancel3()
					}
					return c.Items[pulled-1], true
				})
				s3 := stream.FromIterator[int](it3)
				var seq []int
				cur := ctx3
				for n := 0; n < 2*len(c.Items)+4; n++ {
					x, err := s3.Next(cur)
					if err == stream.End {
						break
					}
					if err != nil {
						if cur == bg || err != context.Canceled {
							return out, vk.Violf("wrong-error", "stream.FromIterator: Next returned %v", err)
						}
						cur = bg
						continue
					}
					seq = append(seq, x)
				}
				cancel3()
				s3.Close()
				if !reflect.DeepEqual(seq, append([]int{}, c.Items...)) {
					return out, vk.Violf("lost-on-expired-call", "stream.FromIterator over %v, context cancelled while item %d was being produced, then read on with a live context: yielded %v", c.Items, k, seq)
				}
			}
		}
		E := sk.NewSentinel("E")
		es := stream.Error[int](E)
		for i := 0; i < 3; i++ {
			if _, err := es.Next(bg); err != E {
				return out, vk.Violf("wrong-output", "stream.Error: Next #%d returned %v", i, err)
			}
		}
		es.Close()
	}
	for _, it := range its {
		got, err := drainIter(it, c.Extra)
		if err != nil {
			return out, err
		}
		if !reflect.DeepEqual(got, want) {
			return out, vk.Violf("wrong-output", "iterator.%s(%s) yields %v want %v", c.Kind, vk.Short(c), got, want)
		}
	}
	for _, s := range sts {
		got, err := drainStream(s, c.Extra)
		if err != nil {
			return out, err
		}
		if !reflect.DeepEqual(got, want) {
			return out, vk.Violf("wrong-output", "stream.%s(%s) yields %v want %v", c.Kind, vk.Short(c), got, want)
		}
	}
	out.NonTrivial = c.N < 0 || c.N >= 2 || len(c.Items) >= 2
	return out, nil
}

func TestCtor(t *testing.T) {
	vk.Run(t, suite, "ctor", 1000, genCtor, runCtor)
}
