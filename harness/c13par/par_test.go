package c13par

import (
	"context"
	"errors"
	"fmt"
	"runtime"
	"sync"
	"sync/atomic"
	"testing"
	"testing/synctest"
	"time"

	"github.com/bradenaw/juniper/parallel"
	"pgregory.net/rapid"

	"verif/harness/sk"
	"verif/harness/vk"
)

var suite = vk.NewSuite("C13")
var theT *testing.T

func TestMain(m *testing.M) { suite.Main(m) }

type Plan struct {
	Fn       string `json:"fn"` // Do | DoContext | Map | MapContext
	N        int    `json:"n"`
	Par      int    `json:"par"`
	Lat      string `json:"lat"` // zero | inc | dec | straggler | random
	LatSeed  int    `json:"latseed,omitempty"`
	Fail     []int  `json:"fail,omitempty"`
	Nested   bool   `json:"nested,omitempty"`
	ErrKind  string `json:"errkind,omitempty"` // "" plain sentinel | deadline | canceled: the calls' errors also wrap that context error
	Ctx      string `json:"ctx"`               // live | cancelled | cancel-at
	CancelMs int    `json:"cancel_ms,omitempty"`
}

func genPlan(t *rapid.T) Plan {
	p := Plan{Fn: rapid.SampledFrom([]string{"Do", "DoContext", "DoContext", "Map", "MapContext", "MapContext"}).Draw(t, "fn")}
	par := rapid.SampledFrom([]int{-1, 0, 1, 2, 3, 5, -1, 0, 1, 2, 3, 5, 65, 130, 1000}).Draw(t, "par") // (dozens and more: workers may be started in groups)
	eff := par
	if eff <= 0 {
		eff = runtime.GOMAXPROCS(-1)
	}
	p.N = rapid.SampledFrom([]int{0, 1, 2, eff - 1, eff, eff + 1, 50, 300, 50, 300, 4096, 4160, 8192, 4097, 5003, 8191}).Draw(t, "n") // thousands: hand-out strategies change with size
	if p.N < 0 {
		p.N = 0
	}
	p.Par = par
	if rapid.IntRange(0, 5).Draw(t, "parbig") == 0 {
		p.Par = p.N + 5
	}
	p.Lat = rapid.SampledFrom([]string{"zero", "inc", "dec", "straggler", "random"}).Draw(t, "lat")
	if p.N > 1000 {
		p.Lat = "zero"
	}
	if par > 60 { // enough calls, all of them slow, so that as many run at once as the package lets run
		p.N, p.Lat = 2*par+3, "flat"
	}
	// Nested: every call of f runs a small parallel.Do / Map of its own with the same parallelism argument
	// (re-entrant use of the package: whatever the package shares between calls must not be exhausted by it)
	p.Nested = rapid.IntRange(0, 5).Draw(t, "nested") == 0 && p.N <= 300
	p.LatSeed = rapid.IntRange(1, 1000).Draw(t, "latseed")
	p.Ctx = "live"
	if p.Fn == "DoContext" || p.Fn == "MapContext" {
		switch rapid.IntRange(0, 4).Draw(t, "failclass") {
		case 0:
		case 1:
			if p.N > 0 {
				p.Fail = []int{rapid.IntRange(0, (p.N-1)/4).Draw(t, "early")}
			}
		case 2:
			if p.N > 0 {
				p.Fail = []int{p.N - 1 - rapid.IntRange(0, (p.N-1)/4).Draw(t, "late")}
			}
		case 3:
			for i := 0; i < p.N; i++ {
				if rapid.IntRange(0, 9).Draw(t, "f") == 0 {
					p.Fail = append(p.Fail, i)
				}
			}
		default:
			for i := 0; i < p.N; i++ {
				p.Fail = append(p.Fail, i)
			}
		}
		p.ErrKind = rapid.SampledFrom([]string{"", "", "deadline", "canceled", "mixed"}).Draw(t, "errkind")
		p.Ctx = rapid.SampledFrom([]string{"live", "live", "live", "cancelled", "cancel-at"}).Draw(t, "ctx")
		p.CancelMs = rapid.SampledFrom([]int{0, 1, 5, 50, 500}).Draw(t, "cancelms")
	}
	return p
}

func (p Plan) latency(i int) time.Duration {
	switch p.Lat {
	case "flat":
		return 5 * time.Millisecond
	case "inc":
		return time.Duration(i+1) * time.Millisecond
	case "dec":
		return time.Duration(p.N-i) * time.Millisecond
	case "straggler":
		if i == p.LatSeed%(p.N+1) {
			return time.Second
		}
		return time.Millisecond
	case "random":
		return time.Duration((i*7919+p.LatSeed*104729)%17) * time.Millisecond
	}
	return 0
}

type probe struct {
	p              Plan
	calls          []atomic.Int32
	cells          []int // written non-atomically by the calls, read by the caller afterwards
	cur, max       atomic.Int32
	started        atomic.Int32
	beganCancelled atomic.Int32
	mu             sync.Mutex
	firstFailAt    time.Time
	failed         bool
	sentinels      []error
	problems       []string
	fake           bool
}

func newProbe(p Plan, fake bool) *probe {
	pr := &probe{p: p, calls: make([]atomic.Int32, p.N), cells: make([]int, p.N), sentinels: make([]error, p.N), fake: fake}
	for _, i := range p.Fail {
		if i >= 0 && i < p.N {
			kind := p.ErrKind
			if kind == "mixed" { // every failing call fails with an error of another concrete type
				kind = []string{"", "deadline", "struct"}[i%3]
			}
			pr.sentinels[i] = callError(kind, fmt.Sprintf("fail-%d", i))
		}
	}
	return pr
}

// ctxWrap is a call's own error that also wraps a context error (a per-call timeout, say): it is
// still "an error that one of the calls returned" and has to come back as such.
type ctxWrap struct{ own, ctxErr error }

func (e *ctxWrap) Error() string   { return e.own.Error() + ": " + e.ctxErr.Error() }
func (e *ctxWrap) Unwrap() []error { return []error{e.own, e.ctxErr} }

// valueErr is an error of a non-pointer concrete type.
type valueErr struct{ inner error }

func (e valueErr) Error() string { return "value error: " + e.inner.Error() }
func (e valueErr) Unwrap() error { return e.inner }

func callError(kind, name string) error {
	s := sk.NewSentinel(name)
	switch kind {
	case "deadline":
		return &ctxWrap{s, context.DeadlineExceeded}
	case "canceled":
		return &ctxWrap{s, context.Canceled}
	case "struct":
		return valueErr{s}
	}
	return s
}

func (pr *probe) problem(format string, args ...any) {
	pr.mu.Lock()
	pr.problems = append(pr.problems, fmt.Sprintf(format, args...))
	pr.mu.Unlock()
}

func (pr *probe) call(ctx context.Context, callerCtx context.Context, i int) error {
	if i < 0 || i >= pr.p.N {
		pr.problem("f called with index %d outside [0,%d)", i, pr.p.N)
		return nil
	}
	pr.started.Add(1)
	if pr.calls[i].Add(1) != 1 {
		pr.problem("index %d called more than once", i)
	}
	c := pr.cur.Add(1)
	for {
		m := pr.max.Load()
		if c <= m || pr.max.CompareAndSwap(m, c) {
			break
		}
	}
	if ctx != nil && ctx.Err() != nil && (callerCtx == nil || callerCtx.Err() == nil) {
		pr.beganCancelled.Add(1)
	}
	if pr.fake {
		if d := pr.p.latency(i); d > 0 {
			time.Sleep(d)
		}
	} else {
		runtime.Gosched()
	}
	if pr.p.Nested {
		var inner atomic.Int32
		parallel.Do(pr.p.Par, 3, func(int) { inner.Add(1) })
		got := parallel.Map(pr.p.Par, []int{1, 2, 3}, func(x int) int { return x * 2 })
		if inner.Load() != 3 || len(got) != 3 || got[0] != 2 || got[1] != 4 || got[2] != 6 {
			pr.problem("a parallel.Do / Map nested inside call %d ran %d of 3 calls and returned %v", i, inner.Load(), got)
		}
	}
	pr.cells[i] = i*7 + 1
	if ctx != nil && pr.fake {
		pr.mu.Lock()
		failedBefore := pr.failed && time.Now().After(pr.firstFailAt)
		pr.mu.Unlock()
		if failedBefore && ctx.Err() == nil {
			pr.problem("call %d finished at a later instant than the first failure, its context is still not cancelled", i)
		}
	}
	pr.cur.Add(-1)
	if err := pr.sentinels[i]; err != nil {
		pr.mu.Lock()
		if !pr.failed {
			pr.failed, pr.firstFailAt = true, time.Now()
		}
		pr.mu.Unlock()
		return err
	}
	return nil
}

// execute runs the plan's function with the probe and judges the result.
func execute(p Plan, fake bool) (out vk.Outcome, verr error) {
	if p.N < 0 || p.N > 20000 {
		return out, fmt.Errorf("bad plan")
	}
	pr := newProbe(p, fake)
	ctx := context.Background()
	var cancel context.CancelFunc = func() {}
	switch p.Ctx {
	case "cancelled":
		ctx, cancel = sk.WithCancel(ctx)
		cancel()
	case "cancel-at":
		ctx, cancel = sk.WithCancel(ctx)
		if fake {
			stop := make(chan struct{})
			var wg sync.WaitGroup
			wg.Add(1)
			defer func() { close(stop); wg.Wait() }()
			go func() {
				defer wg.Done()
				tm := time.NewTimer(time.Duration(p.CancelMs) * time.Millisecond)
				defer tm.Stop()
				select {
				case <-tm.C:
					cancel()
				case <-stop:
				}
			}()
		} else {
			go func() { runtime.Gosched(); cancel() }()
		}
	}
	defer cancel()
	var err error
	var mapped []int
	in := make([]int, p.N)
	for i := range in {
		in[i] = i
	}
	switch p.Fn {
	case "Do":
		parallel.Do(p.Par, p.N, func(i int) { pr.call(nil, nil, i) })
	case "DoContext":
		err = parallel.DoContext(ctx, p.Par, p.N, func(c context.Context, i int) error { return pr.call(c, ctx, i) })
	case "Map":
		mapped = parallel.Map(p.Par, in, func(i int) int { pr.call(nil, nil, i); return i*3 + 2 })
	case "MapContext":
		mapped, err = parallel.MapContext(ctx, p.Par, in, func(c context.Context, i int) (int, error) {
			return i*3 + 2, pr.call(c, ctx, i)
		})
	default:
		return out, fmt.Errorf("bad fn")
	}
	// barrier: nothing is running when the function has returned ...
	if c := pr.cur.Load(); c != 0 {
		return out, vk.Violf("barrier", "%s returned while %d calls were still running", p.Fn, c)
	}
	startedAtReturn := pr.started.Load()
	if fake {
		// ... and nothing starts afterwards
		time.Sleep(5 * time.Second)
		synctest.Wait()
		if s := pr.started.Load(); s != startedAtReturn {
			return out, vk.Violf("barrier", "%d calls started after %s had returned", s-startedAtReturn, p.Fn)
		}
	}
	pr.mu.Lock()
	problems := append([]string(nil), pr.problems...)
	pr.mu.Unlock()
	if len(problems) > 0 {
		return out, vk.Violf("call-discipline", "%v", problems)
	}
	eff := p.Par
	if eff <= 0 {
		eff = runtime.GOMAXPROCS(-1)
	}
	if m := int(pr.max.Load()); m > eff {
		return out, vk.Violf("too-parallel", "%d calls ran at the same time, parallelism is %d", m, eff)
	}
	callerDone := p.Ctx != "live" && ctx.Err() != nil
	if err == nil {
		// exactly once, effects visible, results in place
		for i := range pr.calls {
			if pr.calls[i].Load() != 1 {
				return out, vk.Violf("not-exactly-once", "%s returned nil but index %d was called %d times", p.Fn, i, pr.calls[i].Load())
			}
			if pr.cells[i] != i*7+1 {
				return out, vk.Violf("effects-invisible", "the write made by call %d is not visible after %s returned", i, p.Fn)
			}
			if pr.sentinels[i] != nil {
				return out, vk.Violf("error-swallowed", "call %d failed but %s returned nil", i, p.Fn)
			}
		}
		if p.Fn == "Map" || p.Fn == "MapContext" {
			if len(mapped) != p.N {
				return out, vk.Violf("map-result", "result has %d entries for %d inputs", len(mapped), p.N)
			}
			for i, v := range mapped {
				if v != i*3+2 {
					return out, vk.Violf("map-result", "result[%d] = %d, want %d", i, v, i*3+2)
				}
			}
		}
	} else {
		isSentinel := false
		for i, s := range pr.sentinels {
			if s != nil && err == s { // the very error value the call returned (all of them are comparable), not something built around it
				if pr.calls[i].Load() == 0 {
					return out, vk.Violf("wrong-error", "returned the error of call %d, which never ran", i)
				}
				isSentinel = true
			}
		}
		isCallerErr := p.Ctx != "live" && errors.Is(err, context.Canceled) && callerDone
		if !isSentinel && !isCallerErr {
			return out, vk.Violf("wrong-error", "%s returned %v: neither an error one of the calls returned nor the caller's context error (caller cancelled: %v)", p.Fn, err, callerDone)
		}
		if (p.Fn == "MapContext") && mapped != nil {
			return out, vk.Violf("map-result", "MapContext returned both a result and an error")
		}
	}
	if len(p.Fail) == 0 && err != nil {
		// no call fails (the calls here ignore their context and return nil): if every one of them has been made,
		// there is nothing left to report - also when the caller's context ended while the last ones were running
		all := true
		for i := range pr.calls {
			all = all && pr.calls[i].Load() == 1
		}
		if all && p.N > 0 {
			return out, vk.Violf("spurious-error", "%s returned %v although all %d calls were made and every one of them returned nil (the caller's context ended while the last of them were running)", p.Fn, err, p.N)
		}
	}
	if len(p.Fail) == 0 && p.Ctx == "live" && err != nil {
		return out, vk.Violf("spurious-error", "%s returned %v although no call fails and the context stays live", p.Fn, err)
	}
	if bc := int(pr.beganCancelled.Load()); bc > eff-1 && bc > 0 {
		return out, vk.Violf("began-cancelled", "%d calls began with an already-cancelled context while the caller's context was live (parallelism %d)", bc, eff)
	}
	out.Label("fn:" + p.Fn)
	out.Label("lat:" + p.Lat)
	if len(p.Fail) > 0 {
		out.Label("failing-calls")
	}
	if p.Ctx != "live" {
		out.Label("ctx:" + p.Ctx)
	}
	out.NonTrivial = p.N > eff && eff >= 2 && (p.Lat != "zero" || len(p.Fail) > 0)
	return out, nil
}

func runBubble(p Plan) (out vk.Outcome, verr error) {
	var stuck string
	func() {
		defer func() {
			if r := recover(); r != nil {
				stuck = fmt.Sprint(r)
			}
		}()
		synctest.Test(theT, func(t *testing.T) {
			defer func() {
				if r := recover(); r != nil {
					verr = vk.Violf("panic", "panic inside bubble: %v", r)
				}
			}()
			out, verr = execute(p, true)
		})
	}()
	if stuck != "" && verr == nil {
		verr = vk.Violf("stuck", "%s never returned or left goroutines behind: %s", p.Fn, stuck)
	}
	return out, verr
}

func runReps(p Plan) (vk.Outcome, error) {
	n := vk.Reps(3, 8)
	var out vk.Outcome
	for i := 0; i < n; i++ {
		o, err := runBubble(p)
		if err != nil {
			return o, err
		}
		out = o
	}
	out.Execs = n
	return out, nil
}

func TestParallelBubble(t *testing.T) {
	theT = t
	vk.Run(t, suite, "parallel", 2500, genPlan, runReps)
}

// TestParallelRace runs the same plans on real goroutines under the race detector (the job is
// built with -race): the non-atomic per-index cells are written by the calls and read by the caller.
func TestParallelRace(t *testing.T) {
	suite.Crashy = true
	vk.Run(t, suite, "parallel-race", 400, genPlan, func(p Plan) (vk.Outcome, error) { return execute(p, false) })
	suite.Crashy = false
}

// ---------------------------------------------------------------------------------------------
// first-error storm: many quick DoContext/MapContext runs with zero latency and failing calls, real goroutines

type StormPlan struct {
	Fn      string `json:"fn"` // DoContext | MapContext
	N       int    `json:"n"`
	Par     int    `json:"par"`
	Fail    []int  `json:"fail"`
	ErrKind string `json:"errkind,omitempty"`
	Rounds  int    `json:"rounds"`
}

func genStorm(t *rapid.T) StormPlan {
	p := StormPlan{Fn: rapid.SampledFrom([]string{"DoContext", "MapContext"}).Draw(t, "fn"),
		N: rapid.IntRange(8, 200).Draw(t, "n"), Par: rapid.IntRange(2, 16).Draw(t, "par"), Rounds: rapid.IntRange(50, 300).Draw(t, "rounds")}
	switch rapid.IntRange(0, 3).Draw(t, "failshape") {
	case 0: // neighbours: handed to different workers at the same moment
		base := rapid.IntRange(0, p.N-1).Draw(t, "fail")
		for k := rapid.IntRange(2, 4).Draw(t, "nfail"); k > 0 && base < p.N; k, base = k-1, base+1 {
			p.Fail = append(p.Fail, base)
		}
	case 1: // every call fails
		for i := 0; i < p.N; i++ {
			p.Fail = append(p.Fail, i)
		}
	default:
		for k := rapid.IntRange(1, 3).Draw(t, "nfail"); k > 0; k-- {
			p.Fail = append(p.Fail, rapid.IntRange(0, p.N-1).Draw(t, "fail"))
		}
	}
	p.ErrKind = rapid.SampledFrom([]string{"", "", "deadline", "canceled", "mixed", "mixed"}).Draw(t, "errkind")
	return p
}

func runStorm(p StormPlan) (vk.Outcome, error) {
	var out vk.Outcome
	failing := map[int]error{}
	for _, i := range p.Fail {
		kind := p.ErrKind
		if kind == "mixed" { // every failing call fails with an error of another concrete type
			kind = []string{"", "deadline", "struct"}[len(failing)%3]
		}
		failing[i] = callError(kind, fmt.Sprintf("fail-%d", i))
	}
	in := make([]int, p.N)
	for i := range in {
		in[i] = i
	}
	for round := 0; round < p.Rounds; round++ {
		calls := make([]atomic.Int32, p.N)
		var beganCancelled atomic.Int32
		f := func(ctx context.Context, i int) error {
			calls[i].Add(1)
			if ctx.Err() != nil {
				beganCancelled.Add(1)
			}
			return failing[i]
		}
		var err error
		if p.Fn == "DoContext" {
			err = parallel.DoContext(context.Background(), p.Par, p.N, f)
		} else {
			_, err = parallel.MapContext(context.Background(), p.Par, in, func(ctx context.Context, i int) (int, error) { return i, f(ctx, i) })
		}
		if err == nil {
			return out, vk.Violf("error-swallowed", "round %d: %s returned nil although calls %v fail", round, p.Fn, p.Fail)
		}
		ok := false
		for i, e := range failing {
			if err == e && calls[i].Load() > 0 {
				ok = true
			}
		}
		if !ok {
			return out, vk.Violf("wrong-error", "round %d: %s returned %v: not an error one of the calls returned (the caller's context is live)", round, p.Fn, err)
		}
		for i := range calls {
			if calls[i].Load() > 1 {
				return out, vk.Violf("call-discipline", "round %d: index %d called %d times", round, i, calls[i].Load())
			}
		}
		if bc := int(beganCancelled.Load()); bc > p.Par-1 {
			return out, vk.Violf("began-cancelled", "round %d: %d calls began with an already-cancelled context (parallelism %d)", round, bc, p.Par)
		}
	}
	out.NonTrivial = p.N > p.Par
	out.Execs = p.Rounds
	return out, nil
}

func TestFirstErrorStorm(t *testing.T) {
	vk.Run(t, suite, "first-error-storm", 300, genStorm, runStorm)
}

// ---------------------------------------------------------------------------------------------
// parallelism <= 0 means "GOMAXPROCS" - the value in force when the call is made

type GmpPlan struct {
	Fn  string `json:"fn"`
	G   int    `json:"gomaxprocs"`
	Par int    `json:"par"` // <= 0
	N   int    `json:"n"`
}

func genGmp(t *rapid.T) GmpPlan {
	return GmpPlan{Fn: rapid.SampledFrom([]string{"Do", "DoContext", "Map", "MapContext"}).Draw(t, "fn"),
		G: rapid.SampledFrom([]int{1, 2, 3, 5, 8}).Draw(t, "g"), Par: rapid.SampledFrom([]int{0, -1, -7}).Draw(t, "par"),
		N: rapid.SampledFrom([]int{1, 4, 40, 100}).Draw(t, "n")}
}

func runGmp(p GmpPlan) (vk.Outcome, error) {
	old := runtime.GOMAXPROCS(p.G)
	defer runtime.GOMAXPROCS(old)
	out, err := runBubble(Plan{Fn: p.Fn, N: p.N, Par: p.Par, Lat: "inc", Ctx: "live"})
	out.NonTrivial = p.N > p.G && p.G < old
	out.Labels = []string{fmt.Sprintf("gomaxprocs=%d", p.G)}
	return out, err
}

func TestGomaxprocs(t *testing.T) {
	theT = t
	vk.Run(t, suite, "gomaxprocs", 150, genGmp, runGmp)
}

// ---------------------------------------------------------------------------------------------
// cancel-at-entry storm: the caller's context is cancelled around the instant DoContext / MapContext is
// entered (swept offset, real goroutines). Whatever the package makes of it, it tells the truth: nil means
// every call was made (and MapContext's results are complete), anything else is the context's error.

type EntryStormPlan struct {
	Fn      string `json:"fn"`
	N       int    `json:"n"`
	Par     int    `json:"par"`
	Rounds  int    `json:"rounds"`
	SpinMax int    `json:"spin_max"`
}

func genEntryStorm(t *rapid.T) EntryStormPlan {
	return EntryStormPlan{Fn: rapid.SampledFrom([]string{"DoContext", "MapContext"}).Draw(t, "fn"), N: rapid.IntRange(2, 40).Draw(t, "n"),
		Par: rapid.SampledFrom([]int{2, 3, 8, 0}).Draw(t, "par"), Rounds: rapid.IntRange(2000, 8000).Draw(t, "rounds"), SpinMax: rapid.SampledFrom([]int{1, 16, 64, 400}).Draw(t, "spinmax")}
}

var entrySink atomic.Int64

func runEntryStorm(p EntryStormPlan) (vk.Outcome, error) {
	var out vk.Outcome
	in := make([]int, p.N)
	for i := range in {
		in[i] = i
	}
	hitNil, hitErr := 0, 0
	for round := 0; round < p.Rounds; round++ {
		ctx, cancel := sk.WithCancel(context.Background())
		var goFlag atomic.Int32
		cancelled := make(chan struct{})
		go func() {
			for goFlag.Load() == 0 {
			}
			for k := round % p.SpinMax; k > 0; k-- {
				entrySink.Add(1)
			}
			cancel()
			close(cancelled)
		}()
		calls := make([]atomic.Int32, p.N)
		var err error
		var mapped []int
		goFlag.Store(1)
		if p.Fn == "DoContext" {
			err = parallel.DoContext(ctx, p.Par, p.N, func(_ context.Context, i int) error { calls[i].Add(1); return nil })
		} else {
			mapped, err = parallel.MapContext(ctx, p.Par, in, func(_ context.Context, i int) (int, error) { calls[i].Add(1); return 3*i + 2, nil })
		}
		<-cancelled
		if err == nil {
			hitNil++
			for i := range calls {
				if c := calls[i].Load(); c != 1 {
					return out, vk.Violf("not-exactly-once", "round %d: %s returned nil (the caller's context was cancelled around the time of the call) but index %d was called %d times", round, p.Fn, i, c)
				}
			}
			if p.Fn == "MapContext" {
				if len(mapped) != p.N {
					return out, vk.Violf("map-result", "round %d: MapContext returned nil and %d results for %d inputs", round, len(mapped), p.N)
				}
				for i, v := range mapped {
					if v != 3*i+2 {
						return out, vk.Violf("map-result", "round %d: MapContext returned nil, result[%d] = %d, want %d", round, i, v, 3*i+2)
					}
				}
			}
		} else {
			hitErr++
			if err != context.Canceled {
				return out, vk.Violf("wrong-error", "round %d: %s returned %v; no call fails, the caller's context was cancelled", round, p.Fn, err)
			}
			for i := range calls {
				if c := calls[i].Load(); c > 1 {
					return out, vk.Violf("not-exactly-once", "round %d: index %d was called %d times", round, i, c)
				}
			}
		}
	}
	out.NonTrivial = hitNil > 0 && hitErr > 0
	out.Execs = p.Rounds
	return out, nil
}

func TestCancelAtEntryStorm(t *testing.T) {
	vk.Run(t, suite, "cancel-at-entry-storm", 60, genEntryStorm, runEntryStorm)
}
