package c08fault

import (
	"context"
	"errors"
	"fmt"
	"math"
	"reflect"
	"testing"

	"github.com/bradenaw/juniper/stream"
	"pgregory.net/rapid"

	fk "verif/harness/faultkit"
	"verif/harness/vk"
)

var suite = vk.NewSuite("C08")

func TestMain(m *testing.M) { suite.Main(m) }

func genBase(combs []string) func(t *rapid.T) fk.Case {
	return func(t *rapid.T) fk.Case {
		c := fk.Case{Comb: rapid.SampledFrom(combs).Draw(t, "comb"), Stop: -1}
		c.Input = rapid.SliceOfN(rapid.IntRange(0, fk.U-1), 0, 12).Draw(t, "in")
		if rapid.IntRange(0, 3).Draw(t, "runs") == 0 { // long runs make Compact/Runs/While interesting
			for i := range c.Input {
				c.Input[i] = c.Input[i] / 3
			}
		}
		n := len(c.Input)
		c.N = rapid.SampledFrom([]int{1, 2, 3, n, n + 1, 0, math.MaxInt}).Draw(t, "n")
		if c.N == math.MaxInt && c.Comb == "SampleStream" {
			c.N = n + 1 // the Sample functions are documented to use O(k) space
		}
		c.EWraps = rapid.SampledFrom([]int{0, 0, 0, 1, 2, 3}).Draw(t, "ewraps")
		c.LaxSources = rapid.IntRange(0, 3).Draw(t, "lax") == 0
		if c.N < 1 && (c.Comb == "Chunk" || c.Comb == "Batch") {
			c.N = 1
		}
		c.Mask = rapid.IntRange(0, 255).Draw(t, "mask") | rapid.SampledFrom([]int{0, 255, 0x55}).Draw(t, "bias")
		k := rapid.IntRange(1, 3).Draw(t, "k")
		c.Classes = make([]int, fk.U)
		for i := range c.Classes {
			c.Classes[i] = rapid.IntRange(0, k-1).Draw(t, "cls")
		}
		switch c.Comb {
		case "Flatten", "Join", "FlattenSlices":
			c.Split = rapid.SliceOfN(rapid.IntRange(0, n), 0, 4).Draw(t, "split")
			for i := 1; i < len(c.Split); i++ {
				if c.Split[i] < c.Split[i-1] {
					c.Split[i] = c.Split[i-1]
				}
			}
		}
		if !fk.IsBackground(c.Comb) && c.Comb != "Flatten" && c.Comb != "Join" && c.Comb != "FlattenSlices" {
			c.Pre = rapid.SliceOfN(rapid.SampledFrom(fk.PreStages), 0, 2).Draw(t, "pre")
			if rapid.IntRange(0, 1).Draw(t, "nopre") == 0 {
				c.Pre = nil
			}
		}
		if fk.IsBackground(c.Comb) {
			c.SrcGapMs = rapid.SampledFrom([]int{0, 0, 300, 1000, 3000}).Draw(t, "srcgap")
			c.PaceMs = rapid.SampledFrom([]int{0, 0, 500, 2500}).Draw(t, "pace")
			c.EndGapMs = rapid.SampledFrom([]int{0, 0, 5000}).Draw(t, "endgap")
			c.CloseMs = rapid.SampledFrom([]int{0, 0, 2}).Draw(t, "closems")
			c.Par = rapid.SampledFrom([]int{1, 2, 3}).Draw(t, "par")
			c.Buf = rapid.SampledFrom([]int{0, 1, 2, 5}).Draw(t, "buf")
			c.Latency = rapid.SampledFrom([]string{"", "desc", "head"}).Draw(t, "lat")
		}
		return c
	}
}

// enumerate lists every fault position x kind for the base case.
func enumerate(base fk.Case) []fk.Case {
	n := len(base.Input)
	caller := !fk.IsBackground(base.Comb)
	var out []fk.Case
	add := func(f fk.Fault) {
		c := base
		c.Fault = f
		out = append(out, c)
	}
	add(fk.Fault{Kind: "none"})
	outerN := len(base.Split) + 1
	for p := 0; p <= n; p++ {
		add(fk.Fault{Kind: "final", P: p})
		if caller {
			add(fk.Fault{Kind: "transient", P: p})
		}
		add(fk.Fault{Kind: "ctx", P: p})
	}
	add(fk.Fault{Kind: "ctx", P: n + 1})
	if !caller {
		for p := 0; p <= n+1; p++ {
			for _, ms := range []int{100, 1000, 1700} {
				add(fk.Fault{Kind: "ctxt", P: p, P2: ms})
			}
		}
	}
	if base.Comb == "Flatten" {
		for p := 0; p <= outerN; p++ {
			add(fk.Fault{Kind: "final", P: p, Outer: true})
			add(fk.Fault{Kind: "transient", P: p, Outer: true})
		}
	}
	if fk.HasCallback(base.Comb) {
		for p := 0; p < n; p++ {
			add(fk.Fault{Kind: "callback", P: p})
		}
	}
	if caller && !fk.IsReducer(base.Comb) {
		for p := 0; p <= n; p++ {
			for p2 := p; p2 <= n; p2++ {
				add(fk.Fault{Kind: "transient2", P: p, P2: p2})
				add(fk.Fault{Kind: "transient-final", P: p, P2: p2})
			}
		}
	}
	return out
}

func isPrefix(a, b []int) bool {
	if len(a) > len(b) {
		return false
	}
	return reflect.DeepEqual(append([]int{}, a...), append([]int{}, b[:len(a)]...))
}

func isTransient(res *fk.Result, err error) bool {
	return errors.Is(err, res.Transients[0]) || errors.Is(err, res.Transients[1])
}

// judge is the C08 oracle.
func judge(res *fk.Result) error {
	c := res.Case
	desc := func() string { return vk.Short(c) }
	refFlat, refGroups := fk.Ref(c)
	if res.Reducer {
		r := res.Responses[0]
		if r.Err == nil {
			// success: only legitimate if no fault was produced (or it never needed the source)
			if res.FirstFault != nil {
				return vk.Violf("fault-swallowed", "%s: reducer returned %v without error although the source/callback failed with %v", desc(), r.Items, res.FirstFault)
			}
			if c.Comb == "SampleStream" {
				want := c.N
				if pre := fk.RefPre(c, c.Input); len(pre) < want {
					want = len(pre)
				}
				if len(r.Items) != want {
					return vk.Violf("wrong-output", "%s: sample of %d items, want %d", desc(), len(r.Items), want)
				}
				return nil
			}
			if !reflect.DeepEqual(append([]int{}, r.Items...), append([]int{}, refFlat...)) {
				return vk.Violf("wrong-output", "%s: reducer returned %v, reference %v", desc(), r.Items, refFlat)
			}
			return nil
		}
		switch {
		case res.FirstFault != nil:
			if r.Err != res.FirstFault {
				return vk.Violf("wrong-error", "%s: reducer returned %v, but the failure was %v", desc(), r.Err, res.FirstFault)
			}
		case c.Fault.Kind == "ctx" && c.Fault.P == 0:
			if !errors.Is(r.Err, context.Canceled) {
				return vk.Violf("wrong-error", "%s: reducer called with a cancelled context returned %v", desc(), r.Err)
			}
		default:
			return vk.Violf("spurious-error", "%s: reducer returned %v although nothing failed", desc(), r.Err)
		}
		return nil
	}
	// streaming combinators
	if !isPrefix(res.Delivered, refFlat) {
		return vk.Violf("not-a-prefix", "%s: delivered %v, which is not a prefix of the fault-free output %v", desc(), res.Delivered, refFlat)
	}
	if refGroups != nil {
		if len(res.Groups) > len(refGroups) {
			return vk.Violf("wrong-groups", "%s: delivered groups %v, reference %v", desc(), res.Groups, refGroups)
		}
		for i, g := range res.Groups {
			if !reflect.DeepEqual(append([]int{}, g...), append([]int{}, refGroups[i]...)) && !(c.Comb == "Runs") {
				return vk.Violf("wrong-groups", "%s: delivered group %d = %v, reference %v (all %v)", desc(), i, g, refGroups[i], res.Groups)
			}
		}
	}
	// every failing call the consumer recovered from returned exactly the injected error (by construction of
	// Consume); a terminal error must be the injected final error.
	terminalExpected := c.Fault.Kind == "final" || c.Fault.Kind == "callback" || c.Fault.Kind == "transient-final"
	switch {
	case res.Final == nil:
		return vk.Violf("harness", "%s: consumer stopped without End or error", desc())
	case res.Final == stream.End:
		if res.Reached && terminalExpected {
			return vk.Violf("fault-swallowed", "%s: the stream reported the normal end although the source/callback had failed with E (delivered %v)", desc(), res.Delivered)
		}
		if !reflect.DeepEqual(append([]int{}, res.Delivered...), append([]int{}, refFlat...)) {
			return vk.Violf("lost-or-duplicated", "%s: read to the end (recovering from %d failed calls) but got %v, reference %v", desc(), res.Resumed, res.Delivered, refFlat)
		}
		if c.Comb == "Runs" && refGroups != nil {
			// run boundaries: the concatenation is right; completed runs interrupted by a transient error are
			// delivered in pieces, so compare the boundaries of the pieces with the reference boundaries.
			if err := runBoundaries(res, refGroups); err != nil {
				return vk.Violf("wrong-groups", "%s: %v", desc(), err)
			}
		}
	default:
		if !terminalExpected {
			if isTransient(res, res.Final) || errors.Is(res.Final, context.Canceled) || errors.Is(res.Final, context.DeadlineExceeded) {
				return vk.Violf("not-resumable", "%s: more than 10 failing calls in a row (%v)", desc(), res.Final)
			}
			return vk.Violf("spurious-error", "%s: terminal error %v although no terminal fault was injected", desc(), res.Final)
		}
		if res.Final != res.E {
			return vk.Violf("wrong-error", "%s: failed with %v instead of the injected error E", desc(), res.Final)
		}
		if fk.IsBackground(c.Comb) && c.Fault.Kind == "final" && res.AfterFinal != res.E {
			return vk.Violf("error-not-sticky", "%s: after reporting E the next call returned %v", desc(), res.AfterFinal)
		}
	}
	return nil
}

func runBoundaries(res *fk.Result, ref [][]int) error {
	// a reference boundary exists after each reference run; every Complete response must end on one.
	pos := 0
	bound := map[int]bool{}
	for _, g := range ref {
		pos += len(g)
		bound[pos] = true
	}
	pos = 0
	for _, r := range res.Responses {
		pos += len(r.Items)
		if r.Err == nil && r.Complete && !bound[pos] {
			return fmt.Errorf("a run ended after %d items, reference runs %v", pos, ref)
		}
	}
	return nil
}

var statefulCombs = map[string]bool{"RunsSkip": true, "Chunk": true, "WithPeek": true, "While": true, "Flatten": true, "Runs": true, "MapStream": true,
	"Batch": true, "Join": true, "FlattenSlices": true, "Compact": true, "CompactFunc": true, "PipeChain": true}

func nontrivial(c fk.Case) bool {
	return c.Fault.Kind != "none" && c.Fault.P > 0 && c.Fault.P < len(c.Input) && statefulCombs[c.Comb]
}

func runOne(c fk.Case) (vk.Outcome, error) {
	var out vk.Outcome
	res, err := fk.Run(c)
	if err != nil {
		return out, err
	}
	out.NonTrivial = nontrivial(c)
	out.Label("comb:" + c.Comb)
	out.Label("fault:" + c.Fault.Kind)
	return out, judge(res)
}

func runEnum(base fk.Case) (vk.Outcome, error) {
	var out vk.Outcome
	cases := enumerate(base)
	for _, c := range cases {
		o, err := runOne(c)
		if err != nil {
			return out, &vk.SubFailure{Kind: "fault-case", Plan: c, Err: err}
		}
		suite.Sub("fault-case", c, o)
	}
	out.Execs = 0
	out.Label("comb:" + base.Comb)
	return out, nil
}

func TestFaultsCaller(t *testing.T) {
	combs := append(append([]string{}, fk.Streaming...), fk.Reducers...)
	vk.Run(t, suite, "fault-enum", 500, genBase(combs), runEnum)
}

func TestFaultCaseReplay(t *testing.T) {
	vk.ReplayOnly(t, suite, "fault-case", runOne)
}

// ---------------------------------------------------------------------------------------------
// goroutine-backed combinators, on the fake clock

var bubbleT *testing.T

func runOneBg(c fk.Case) (vk.Outcome, error) {
	var out vk.Outcome
	reps := vk.Reps(3, 8)
	out.Execs = reps
	out.NonTrivial = nontrivial(c)
	out.Label("comb:" + c.Comb)
	out.Label("fault:" + c.Fault.Kind)
	for i := 0; i < reps; i++ {
		res, stuck, err := fk.RunBubble(bubbleT, c)
		if err != nil {
			return out, err
		}
		if stuck != "" {
			return out, vk.Violf("stuck", "%s: %s", vk.Short(c), stuck).With("comb", c.Comb)
		}
		if err := judge(res); err != nil {
			return out, err
		}
	}
	return out, nil
}

func runEnumBg(base fk.Case) (vk.Outcome, error) {
	var out vk.Outcome
	for _, c := range enumerate(base) {
		o, err := runOneBg(c)
		if err != nil {
			return out, &vk.SubFailure{Kind: "fault-case-bg", Plan: c, Err: err}
		}
		suite.Sub("fault-case-bg", c, o)
	}
	out.Label("comb:" + base.Comb)
	return out, nil
}

func TestFaultsBackground(t *testing.T) {
	bubbleT = t
	vk.Run(t, suite, "fault-enum-bg", 60, genBase(fk.Background), runEnumBg)
}

func TestFaultCaseBgReplay(t *testing.T) {
	bubbleT = t
	vk.ReplayOnly(t, suite, "fault-case-bg", runOneBg)
}
