//go:debug asynctimerchan=1

// Package c20old runs xtime.SleepContext under the pre-Go-1.23 timer-channel semantics
// (asynctimerchan=1), which is what the library gets when its user's main module says go < 1.23: a
// stopped timer may then still hold a tick, and code that reuses timers must drain it. testing/synctest
// refuses that setting, so this test uses the real clock with oracles that are sound on it: a nil
// return needs at least d of measured time (measured time over-estimates the real one), errors must be
// the documented ones, and the deadline rule is only judged far away from its boundary.
package c20old

import (
	"context"
	"errors"
	"runtime"
	"sync"
	"sync/atomic"
	"testing"
	"time"

	"github.com/bradenaw/juniper/xtime"
	"pgregory.net/rapid"

	"verif/harness/sk"
	"verif/harness/vk"
)

var suite = vk.NewSuite("C20")

func TestMain(m *testing.M) { suite.Main(m) }

type Call struct {
	DUs      int `json:"d_us"`
	CancelUs int `json:"cancel_us,omitempty"` // the context is cancelled this long after the call started; 0 = never
	DeadUs   int `json:"dead_us,omitempty"`   // the context carries a deadline this far ahead; 0 = none
}

type Plan struct {
	Calls []Call `json:"calls"`
}

func genPlan(t *rapid.T) Plan {
	var p Plan
	for n := rapid.IntRange(2, 30).Draw(t, "n"); n > 0; n-- {
		c := Call{DUs: rapid.SampledFrom([]int{0, 100, 300, 300, 1000, 3000}).Draw(t, "d")}
		switch rapid.IntRange(0, 5).Draw(t, "kind") {
		case 0, 1: // cancelled right around the moment its own timer fires
			if c.DUs > 0 {
				c.CancelUs = c.DUs + rapid.IntRange(-100, 100).Draw(t, "off")
				if c.CancelUs < 1 {
					c.CancelUs = 1
				}
			}
		case 2: // cancelled well before
			if c.DUs > 0 {
				c.CancelUs = 1 + c.DUs/4
			}
		case 3: // a deadline that is clearly too soon, or clearly far enough
			if c.DUs > 0 {
				c.DeadUs = rapid.SampledFrom([]int{c.DUs / 3, 3*c.DUs + 200000}).Draw(t, "dead")
			}
		}
		p.Calls = append(p.Calls, c)
	}
	return p
}

func us(n int) time.Duration { return time.Duration(n) * time.Microsecond }

func run(p Plan) (vk.Outcome, error) {
	var out vk.Outcome
	for i, c := range p.Calls {
		d := us(c.DUs)
		ctx, cancel := context.Background(), context.CancelFunc(func() {})
		if c.DeadUs > 0 {
			ctx, cancel = sk.WithTimeout(ctx, us(c.DeadUs))
		} else if c.CancelUs > 0 {
			ctx, cancel = sk.WithCancel(ctx)
		}
		start := time.Now()
		stop := make(chan struct{})
		cancelled := make(chan struct{})
		if c.CancelUs > 0 && c.DeadUs == 0 {
			go func() { // spins for precision: the point is to land within microseconds of the timer
				defer close(cancelled)
				for time.Since(start) < us(c.CancelUs) {
					select {
					case <-stop:
						return
					default:
					}
				}
				cancel()
			}()
		} else {
			close(cancelled)
		}
		deadline, hasDeadline := ctx.Deadline()
		remainingBefore := time.Until(deadline) // what is left inside the call is at most this ...
		err := xtime.SleepContext(ctx, d)
		elapsed := time.Since(start)
		remainingAfter := time.Until(deadline) // ... and at least this
		ctxErr := ctx.Err()
		close(stop)
		<-cancelled
		cancel()
		var tooSoon xtime.DeadlineTooSoonError
		switch {
		case err == nil:
			if elapsed < d {
				return out, vk.Violf("sleep-too-short", "call %d: SleepContext(d=%v) returned nil after only %v (previous call: %s)", i, d, elapsed, vk.Short(prev(p, i)))
			}
			if hasDeadline && remainingBefore < d {
				return out, vk.Violf("deadline-ignored", "call %d: only %v left until the deadline when SleepContext(d=%v) was called, yet it slept and returned nil", i, remainingBefore, d)
			}
		case errors.As(err, &tooSoon):
			if !hasDeadline || remainingAfter >= d {
				return out, vk.Violf("spurious-too-soon", "call %d: DeadlineTooSoonError with d=%v although %v were still left after the call had returned (deadline: %v)", i, d, remainingAfter, hasDeadline)
			}
			out.Label("deadline-too-soon")
		default:
			if ctxErr == nil || !errors.Is(err, ctxErr) {
				return out, vk.Violf("wrong-error", "call %d: SleepContext returned %v, the context's error is %v", i, err, ctxErr)
			}
			out.Label("context-ended-first")
			if c.CancelUs >= c.DUs-100 {
				out.Label("cancelled-near-the-tick")
			}
		}
	}
	out.NonTrivial = len(p.Calls) >= 3
	return out, nil
}

func prev(p Plan, i int) any {
	if i == 0 {
		return "none"
	}
	return p.Calls[i-1]
}

func TestSleepOldTimers(t *testing.T) {
	vk.Run(t, suite, "sleep-old-timers", 200, genPlan, run)
}

// ---------------------------------------------------------------- a ticker whose callback runs late (real clock)
//
// On the fake clock a timer callback is never late. Here the only P is kept busy for two to three
// periods, so the tick that falls due meanwhile is delivered late. Ticks carry the time at which they
// were sent and the next one is scheduled from there, so "consecutive ticks are at least d - jitter
// apart" holds for the stamps however loaded the machine is (a lower bound only: sound on the real clock).

type StarvedPlan struct {
	DUs    int `json:"d_us"`
	JUs    int `json:"j_us"`
	Rounds int `json:"rounds"`
	SpinX  int `json:"spin_x"` // busy for SpinX/2 periods per round
}

func genStarved(t *rapid.T) StarvedPlan {
	d := rapid.SampledFrom([]int{2000, 4000}).Draw(t, "d")
	return StarvedPlan{DUs: d, JUs: rapid.SampledFrom([]int{0, d / 8, d / 2}).Draw(t, "j"), Rounds: rapid.IntRange(4, 12).Draw(t, "rounds"), SpinX: rapid.IntRange(4, 7).Draw(t, "spinx")}
}

func runStarved(p StarvedPlan) (vk.Outcome, error) {
	var out vk.Outcome
	d, j := us(p.DUs), us(p.JUs)
	old := runtime.GOMAXPROCS(1)
	defer runtime.GOMAXPROCS(old)
	tk := xtime.NewJitterTicker(d, j)
	defer tk.Stop()
	var prev time.Time
	check := func(ts time.Time, what string) error {
		if !prev.IsZero() {
			if gap := ts.Sub(prev); gap < d-j {
				return vk.Violf("tick-spacing", "%s: consecutive ticks %v apart, less than d - jitter = %v (d=%v jitter=%v; the previous tick was delivered late because the only P was busy)", what, gap, d-j, d, j)
			}
		}
		prev = ts
		return nil
	}
	for round := 0; round < p.Rounds; round++ {
		select {
		case ts := <-tk.C:
			if err := check(ts, "before the busy phase"); err != nil {
				return out, err
			}
		case <-vk.After(10 * time.Second):
			return out, vk.Violf("no-tick", "no tick within 10 s (d=%v)", d)
		}
		busyUntil := time.Now().Add(d * time.Duration(p.SpinX) / 2)
		for time.Now().Before(busyUntil) {
		}
		for k := 0; k < 2; k++ { // the late tick and the one after it
			select {
			case ts := <-tk.C:
				if err := check(ts, "after the busy phase"); err != nil {
					return out, err
				}
			case <-vk.After(10 * time.Second):
				return out, vk.Violf("no-tick", "no tick within 10 s after the busy phase (d=%v)", d)
			}
		}
	}
	out.NonTrivial, out.Execs = true, p.Rounds
	return out, nil
}

func TestTickerStarved(t *testing.T) {
	vk.Run(t, suite, "ticker-starved", 12, genStarved, runStarved)
}

// ---------------------------------------------------------------- one ticker reset from many goroutines (real clock)
//
// A ticker that ticks as fast as it can is reset from up to 16 goroutines at once, hundreds of times each;
// callbacks of long-superseded settings pile up behind its mutex. Then it is reset to one hour and its
// channel emptied: from here on the channel has to stay empty ("the next tick will arrive after the new
// period elapses") - whatever was in flight belongs to settings that are gone.

type TickerStormPlan struct {
	Goroutines int `json:"goroutines"`
	Resets     int `json:"resets"`
	Rounds     int `json:"rounds"`
}

func genTickerStorm(t *rapid.T) TickerStormPlan {
	return TickerStormPlan{Goroutines: rapid.SampledFrom([]int{2, 2, 4, 4, 8, 16}).Draw(t, "g"), Resets: rapid.IntRange(100, 400).Draw(t, "resets"), Rounds: rapid.IntRange(30, 120).Draw(t, "rounds")}
}

func runTickerStorm(p TickerStormPlan) (vk.Outcome, error) {
	var out vk.Outcome
	for round := 0; round < p.Rounds; round++ {
		tk := xtime.NewJitterTicker(time.Hour, 0)
		var wg, rwg sync.WaitGroup
		var switched atomic.Int32
		var tSwitch atomic.Value
		done := make(chan struct{})
		var stamps []time.Time
		rwg.Add(1)
		go func() {
			defer rwg.Done()
			for {
				select {
				case s := <-tk.C:
					stamps = append(stamps, s)
				case <-done:
					return
				}
			}
		}()
		for g := 0; g < p.Goroutines; g++ {
			wg.Add(1)
			go func(g int) {
				defer wg.Done()
				for i := 0; i < p.Resets; i++ { // periods of a few nanoseconds: timers fire at once, their callbacks queue up
					tk.Reset(time.Duration(1+(i+g)%4), 0)
				}
				tk.Reset(time.Hour, 0)
				if int(switched.Add(1)) == p.Goroutines {
					tSwitch.Store(time.Now()) // from here on only one-hour timers can be armed
				}
				for i := 0; i < 4*p.Resets; i++ { // ... and the settings keep changing while the queue drains
					tk.Reset(time.Hour, 0)
				}
			}(g)
		}
		wg.Wait()
		time.Sleep(200 * time.Microsecond)
		tk.Stop()
		close(done)
		rwg.Wait()
		ts := tSwitch.Load().(time.Time)
		for _, s := range stamps {
			if s.After(ts) {
				return out, vk.Violf("tick-after-reset", "round %d: a tick stamped %v after every one of the %d goroutines had reset the ticker to one hour (they went on resetting it to one hour): it can only come from a setting that was long gone", round, s.Sub(ts), p.Goroutines)
			}
		}
	}
	out.NonTrivial, out.Execs = true, p.Rounds
	return out, nil
}

func TestTickerResetStorm(t *testing.T) {
	vk.Run(t, suite, "ticker-reset-storm", 30, genTickerStorm, runTickerStorm)
}

// ---------------------------------------------------------------- Stop racing a firing timer (real clock)
//
// Fast tickers (period 20 us) are stopped at swept moments, so that now and then Stop coincides with the
// timer's callback. Every tick carries the time at which it was produced: one stamped after Stop had
// returned was sent after Stop had returned ("No tick is sent after Stop returns"); a ticker that goes on
// ticking shows up within a few periods.

type StopStormPlan struct {
	Workers int `json:"workers"`
	Trials  int `json:"trials"`
	Jitter  int `json:"jitter_us"`
}

func genStopStorm(t *rapid.T) StopStormPlan {
	return StopStormPlan{Workers: rapid.SampledFrom([]int{2, 4, 8}).Draw(t, "workers"), Trials: rapid.IntRange(100, 400).Draw(t, "trials"), Jitter: rapid.SampledFrom([]int{0, 0, 5, 19}).Draw(t, "jitter")}
}

func runStopStorm(p StopStormPlan) (vk.Outcome, error) {
	var out vk.Outcome
	const d = 20 * time.Microsecond
	var mu sync.Mutex
	var verr error
	var wg sync.WaitGroup
	for w := 0; w < p.Workers; w++ {
		wg.Add(1)
		go func(w int) {
			defer wg.Done()
			for i := 0; i < p.Trials; i++ {
				mu.Lock()
				failed := verr != nil
				mu.Unlock()
				if failed {
					return
				}
				tk := xtime.NewJitterTicker(d, us(p.Jitter))
				wait := time.Duration((i*7919 + w*104729) % int(6*d)) // swept, not random: the case is plain data
				for start := time.Now(); time.Since(start) < wait; {
				}
				tk.Stop()
				stopped := time.Now()
				for watch := time.Now(); time.Since(watch) < 300*time.Microsecond; {
					select {
					case tick := <-tk.C:
						if tick.After(stopped) {
							mu.Lock()
							if verr == nil {
								verr = vk.Violf("tick-after-stop", "worker %d trial %d: a tick stamped %v after Stop had returned (period %v, Stop called %v after the ticker was made)", w, i, tick.Sub(stopped), d, wait)
							}
							mu.Unlock()
							tk.Stop()
							return
						}
					default:
					}
				}
			}
		}(w)
	}
	wg.Wait()
	out.NonTrivial, out.Execs = true, p.Workers*p.Trials
	return out, verr
}

func TestTickerStopStorm(t *testing.T) {
	vk.Run(t, suite, "ticker-stop-storm", 20, genStopStorm, runStopStorm)
}
