#!/usr/bin/env python3
"""seedcheck.py <prop> <srcdir> <name> [--tier quick|thorough] [--props C01,C02]
Confirm an independently written breaking change and run our checks against it.

<srcdir> holds patch.diff, a demonstration (demo_test.go, or main.go) and README.md as written by a
seeding sub-agent. In a scratch worktree of /repo HEAD under /tmp:
  1. the demo passes on the unchanged tree,
  2. the patch applies, the module builds and the repository's own tests still pass,
  3. the demo fails with the patch,
  4. ./check <prop> <tier> (against that worktree, VERIF_REPO) reports a VIOLATION or not.
If 1-3 hold the change is kept as /verif/seeded/<name>/ (patch.diff, demo, README.md, meta.json).
"""
import glob, json, os, re, shutil, subprocess, sys, tempfile, time

ENV = dict(os.environ, GOFLAGS="-mod=mod", GOPROXY="off", GOSUMDB="off", GOTOOLCHAIN="local")


def sh(cmd, cwd=None, timeout=900, env=ENV):
    p = subprocess.run(cmd, cwd=cwd, env=env, shell=isinstance(cmd, str), capture_output=True, text=True, timeout=timeout)
    return p.returncode, (p.stdout + p.stderr)


def pkg_dir(repo, demo):
    m = re.search(r"^package\s+(\w+)", open(demo).read(), re.M)
    name = m.group(1)
    base = name[:-5] if name.endswith("_test") else name
    if base == "main":
        return None
    cands = []
    for root, dirs, files in os.walk(repo):
        if ".git" in root:
            continue
        for f in files:
            if f.endswith(".go") and not f.endswith("_test.go"):
                mm = re.search(r"^package\s+(\w+)", open(os.path.join(root, f)).read(), re.M)
                if mm and mm.group(1) == base:
                    cands.append(root)
                    break
    cands = sorted(set(cands), key=len)
    return cands[0] if cands else None


RACE = []


def run_demo(wt, src):
    demos = sorted(glob.glob(os.path.join(src, "*_test.go")))
    mains = [f for f in glob.glob(os.path.join(src, "*.go")) if not f.endswith("_test.go")]
    if demos:
        d = pkg_dir(wt, demos[0])
        if d is None:
            return None, "cannot place demo"
        placed = []
        for f in demos:
            dst = os.path.join(d, "zz_seed_" + os.path.basename(f))
            shutil.copy(f, dst)
            placed.append(dst)
        names = re.findall(r"^func (Test\w+)\(", "".join(open(f).read() for f in demos), re.M)
        run = "^(" + "|".join(names) + ")$" if names else "."
        rc, out = sh(["go", "test"] + RACE + ["-vet=off", "-count=1", "-run", run, "./" + os.path.relpath(d, wt)], cwd=wt, timeout=600)
        for f in placed:
            os.remove(f)
        return rc == 0, out[-1500:]
    if mains:
        d = os.path.join(wt, "zz_seed_demo")
        os.makedirs(d, exist_ok=True)
        for f in mains:
            shutil.copy(f, d)
        rc, out = sh(["go", "run", "./zz_seed_demo"], cwd=wt, timeout=600)
        shutil.rmtree(d)
        return rc == 0, out[-1500:]
    return None, "no demo found"


def main():
    args = sys.argv[1:]
    tier, props = "quick", None
    while "--tier" in args:
        i = args.index("--tier"); tier = args[i + 1]; del args[i:i + 2]
    if "--race" in args:
        args.remove("--race"); RACE.append("-race")
    while "--goarch" in args:  # the demonstration only fails on that target (e.g. 386: alignment of 64-bit atomics)
        i = args.index("--goarch"); ENV["GOARCH"] = args[i + 1]; del args[i:i + 2]
    while "--props" in args:
        i = args.index("--props"); props = args[i + 1].split(","); del args[i:i + 2]
    prop, src, name = args[0], os.path.abspath(args[1]), args[2]
    props = props or [prop]
    meta = {"property": prop, "name": name, "source": "independent sub-agent (given only the property text)", "tier": tier,
            "checked_at": time.strftime("%Y-%m-%dT%H:%M:%SZ", time.gmtime())}
    wt = tempfile.mkdtemp(prefix="seedwt-", dir="/tmp"); os.rmdir(wt)
    subprocess.check_call(["git", "-C", "/repo", "worktree", "add", "-q", "--detach", wt, "HEAD"])
    try:
        ok0, out0 = run_demo(wt, src)
        meta["demo_passes_without_patch"] = ok0
        rc, out = sh(["git", "-C", wt, "apply", os.path.join(src, "patch.diff")])
        if rc != 0:  # written against an earlier HEAD (before a later fix: commit): merge
            rc, out = sh(["git", "-C", wt, "apply", "--3way", os.path.join(src, "patch.diff")])
            sh(["git", "-C", wt, "reset", "-q"])
        if rc != 0:
            meta["error"] = "patch does not apply: " + out[-300:]
            print(json.dumps(meta, indent=1)); return 2
        files = subprocess.check_output(["git", "-C", wt, "diff", "--name-only"], text=True).split()
        meta["files"] = files
        rc, out = sh(["go", "test", "-vet=off", "-count=1", "./..."], cwd=wt, timeout=900, env={k: v for k, v in ENV.items() if k != "GOARCH"})
        fails = [t for t in re.findall(r"^--- FAIL: (\S+)", out, re.M) if t != "TestJitterTicker"]
        meta["repo_tests_pass_with_patch"] = not fails and "[build failed]" not in out
        meta["repo_tests_failed"] = fails[:5]
        ok1, out1 = run_demo(wt, src)
        meta["demo_fails_with_patch"] = (ok1 is False)
        meta["demo_output_with_patch"] = out1[-600:] if out1 else ""
        confirmed = bool(ok0) and meta["repo_tests_pass_with_patch"] and ok1 is False
        meta["confirmed"] = confirmed
        meta["checks"] = {}
        for p in props:
            evd = tempfile.mkdtemp(prefix="seedev-", dir="/tmp")
            env = dict({k: v for k, v in ENV.items() if k != "GOARCH"}, VERIF_REPO=wt, VERIF_EVIDENCE_DIR=evd, VERIF_REPLAYS_DIR=os.path.join(evd, "replays"))
            t0 = time.time()
            c = subprocess.run(["/verif/check", p, tier], env=env, capture_output=True, text=True)
            viol = re.findall(r"^VIOLATION .*$", c.stdout, re.M)
            inc = re.findall(r"^INCONCLUSIVE .*$", c.stdout, re.M)
            meta["checks"][p] = {"rc": c.returncode, "caught": c.returncode == 1, "wall_s": round(time.time() - t0, 1),
                                 "violation": [v[:400] for v in viol[:2]], "inconclusive": [v[:300] for v in inc[:2]]}
            # keep the (shrunk) failing plan: it joins the regression tier that every run replays first
            found = None
            for v in viol:
                m = re.search(r"replay=(\S+\.json)", v)
                if m and os.path.exists(m.group(1)) and "/regress-" not in m.group(1) and "crash-" not in m.group(1):
                    found = m.group(1)
                    break
            if found and confirmed:
                os.makedirs(os.path.join("/verif/seeded", name), exist_ok=True)
                shutil.copy(found, os.path.join("/verif/seeded", name, "found-replay-%s.json" % p))
                os.makedirs(os.path.join("/verif/regress", p), exist_ok=True)
                shutil.copy(found, os.path.join("/verif/regress", p, "seeded-%s.json" % name))
                meta["checks"][p]["replay_kept"] = "regress/%s/seeded-%s.json" % (p, name)
            shutil.rmtree(evd, ignore_errors=True)
        if confirmed:
            dst = os.path.join("/verif/seeded", name)
            os.makedirs(dst, exist_ok=True)
            for f in glob.glob(os.path.join(src, "*")):
                if os.path.isfile(f):
                    shutil.copy(f, dst)
            readme = os.path.join(src, "README.md")
            meta["needs_to_manifest"] = ""
            if os.path.exists(readme):
                txt = open(readme).read()
                m = re.search(r"(?is)(needs?[^\n]*manifest.*?)(\n#|\n\n\n|\Z)", txt)
                meta["needs_to_manifest"] = (m.group(1) if m else txt)[:700]
            meta["what_was_run"] = ["demo on unchanged worktree (pass)", "git apply patch.diff", "go test -vet=off -count=1 ./... (pass)",
                                    "demo with patch (fail)"] + ["./check %s %s with VERIF_REPO=<worktree>" % (p, tier) for p in props]
            json.dump(meta, open(os.path.join(dst, "meta.json"), "w"), indent=1)
        print(json.dumps({k: v for k, v in meta.items() if k not in ("demo_output_with_patch", "needs_to_manifest")}, indent=1))
        return 0
    finally:
        subprocess.call(["git", "-C", "/repo", "worktree", "remove", "--force", wt], stderr=subprocess.DEVNULL)
        shutil.rmtree(wt, ignore_errors=True)


sys.exit(main())
