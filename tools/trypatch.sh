#!/bin/bash
# trypatch.sh <prop> <dir-with-patch.diff> [tier]: run ./check against a scratch worktree of /repo HEAD with
# the patch applied (nothing is written into /repo or into /verif's evidence / replays); the worktree is removed.
prop=$1; dir=$2; tier=${3:-quick}
WT=$(mktemp -d /tmp/trywt-XXXX); rmdir $WT
git -C /repo worktree add -q --detach $WT HEAD && git -C $WT apply "$(realpath $dir)/patch.diff" || { git -C /repo worktree remove --force $WT; exit 2; }
EV=$(mktemp -d /tmp/tryev-XXXX)
VERIF_REPO=$WT VERIF_EVIDENCE_DIR=$EV VERIF_REPLAYS_DIR=$EV/replays /verif/check $prop $tier 2>&1 | grep -E '^(OK|VIOL|INCON|KNOWN|NOTE)' | cut -c1-400
for f in $EV/replays/$prop/fail-*.json; do [ -f "$f" ] && python3 -c "
import json; d=json.load(open('$f')); print('  ', d['error']['kind'], '|', d['error']['msg'][:300])"; done 2>/dev/null | head -3
git -C /repo worktree remove --force $WT; rm -rf $EV
