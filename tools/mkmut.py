#!/usr/bin/env python3
"""mkmut.py <prop> <name> <file-in-repo> <old> <new> [<file> <old> <new> ...]
Create mutants/<prop>/<name>.diff by replacing exactly one occurrence of <old> with <new>
in a scratch worktree of /repo (never in /repo itself)."""
import os, subprocess, sys, tempfile, shutil
prop, name = sys.argv[1], sys.argv[2]
edits = sys.argv[3:]
assert len(edits) % 3 == 0 and edits
wt = tempfile.mkdtemp(prefix="mkmut-", dir="/tmp")
os.rmdir(wt)
subprocess.check_call(["git", "-C", "/repo", "worktree", "add", "-q", "--detach", wt, "HEAD"])
try:
    for i in range(0, len(edits), 3):
        f, old, new = edits[i:i+3]
        p = os.path.join(wt, f)
        s = open(p).read()
        n = s.count(old)
        if n != 1:
            sys.exit("mkmut: %r occurs %d times in %s" % (old, n, f))
        open(p, "w").write(s.replace(old, new))
    d = subprocess.check_output(["git", "-C", wt, "diff"], text=True)
    out = os.path.join("/verif/mutants", prop)
    os.makedirs(out, exist_ok=True)
    open(os.path.join(out, name + ".diff"), "w").write(d)
    print("wrote", os.path.join(out, name + ".diff"), len(d.splitlines()), "lines")
finally:
    subprocess.call(["git", "-C", "/repo", "worktree", "remove", "--force", wt])
    shutil.rmtree(wt, ignore_errors=True)
