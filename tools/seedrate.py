#!/usr/bin/env python3
"""seedrate.py [-j N] [--seeds 2,3,4] [name ...]: for every kept seeded change run its property's quick
check at several VERIF_SEED values (scratch worktree with the patch applied) and record the catch
rate in seeded/<name>/meta.json ("catch_rate": {"seeds": [...], "caught": k})."""
import concurrent.futures as cf, glob, json, os, re, shutil, subprocess, sys, tempfile
ENV = dict(os.environ, GOFLAGS="-mod=mod", GOPROXY="off", GOSUMDB="off", GOTOOLCHAIN="local")
args = sys.argv[1:]
j, seeds = 3, [2, 3, 4]
while args and args[0].startswith("-"):
    if args[0] == "-j": j = int(args[1]); args = args[2:]
    elif args[0] == "--seeds": seeds = [int(x) for x in args[1].split(",")]; args = args[2:]
names = args or sorted(os.path.basename(os.path.dirname(f)) for f in glob.glob("/verif/seeded/*/meta.json"))

def one(name):
    d = os.path.join("/verif/seeded", name)
    meta = json.load(open(os.path.join(d, "meta.json")))
    props = list(meta.get("checks", {}).keys()) or [meta["property"]]
    wt = tempfile.mkdtemp(prefix="ratewt-", dir="/tmp"); os.rmdir(wt)
    subprocess.check_call(["git", "-C", "/repo", "worktree", "add", "-q", "--detach", wt, "HEAD"])
    try:
        a = subprocess.run(["git", "-C", wt, "apply", "--3way", os.path.join(d, "patch.diff")], capture_output=True, text=True)
        if a.returncode != 0:
            a = subprocess.run(["git", "-C", wt, "apply", os.path.join(d, "patch.diff")], capture_output=True, text=True)
            if a.returncode != 0:
                return name, None, "patch no longer applies"
        res = []
        for s in seeds:
            rc = 0
            for prop in props:  # caught if any of the checks it was assigned to reports a violation
                evd = tempfile.mkdtemp(prefix="rateev-", dir="/tmp")
                env = dict(ENV, VERIF_REPO=wt, VERIF_SEED=str(s), VERIF_EVIDENCE_DIR=evd, VERIF_REPLAYS_DIR=os.path.join(evd, "replays"))
                c = subprocess.run(["/verif/check", prop, "quick"], env=env, capture_output=True, text=True)
                shutil.rmtree(evd, ignore_errors=True)
                if c.returncode == 1:
                    rc = 1
                    break
                rc = max(rc, c.returncode)
            res.append(rc)
        meta["catch_rate"] = {"seeds": seeds, "exit_codes": res, "caught": sum(1 for r in res if r == 1)}
        json.dump(meta, open(os.path.join(d, "meta.json"), "w"), indent=1)
        return name, res, ""
    finally:
        subprocess.call(["git", "-C", "/repo", "worktree", "remove", "--force", wt], stderr=subprocess.DEVNULL)
        shutil.rmtree(wt, ignore_errors=True)

with cf.ThreadPoolExecutor(j) as ex:
    for name, res, err in ex.map(one, names):
        flag = "" if res and all(r == 1 for r in res) else "   <-- not always caught"
        print(name, res, err, flag, flush=True)
