#!/usr/bin/env python3
"""Regenerate /verif/MANIFEST.json from checks_config.py (single source of truth)."""
import json, os, sys
sys.path.insert(0, "/verif")
from checks_config import CHECKS, NOT_APPLICABLE, HOOK_COMMITS
props = [json.loads(l)["id"] for l in open("/verif/properties.jsonl")]
checks = []
for pid in props:
    if pid not in CHECKS:
        continue
    c = CHECKS[pid]
    checks.append({
        "property_id": pid,
        "quick_cmd": "./check %s quick" % pid,
        "thorough_cmd": "./check %s thorough" % pid,
        "evidence_file": "/verif/evidence/%s.json" % pid,
        "replay_cmd_template": "./check %s --replay {path}" % pid,
        "engine": "rapid-harness",
        "level_claimed": {"category": c["level"], "text": c["level_text"], "design_ref": c.get("design_ref", "DESIGN.md section 4, " + pid)},
        "level_note": c["level_note"],
        "technique": c["technique"],
    })
na = [{"property_id": p, "reason": NOT_APPLICABLE[p]} for p in props if p not in CHECKS]
for p in props:
    assert p in CHECKS or p in NOT_APPLICABLE, p
m = {
    "version": 1,
    "setup_cmd": "./check --setup",
    "hooks": {
        "guard": "verif",
        "enable": "go build tag: every check compiles /repo (via the harness module's replace directive) with `-tags verif`",
        "baseline_off_cmd": "cd /repo && go test -vet=off -count=1 ./...",
        "source_commits": HOOK_COMMITS,
        "add_only": True,
    },
    "engines": [{
        "name": "rapid-harness", "path": "/verif/harness",
        "serves_properties": [c["property_id"] for c in checks],
        "kind_free_text": "Go module (go1.26.8) with one test package per property: pgregory.net/rapid v1.3.0 generators produce plans-as-data, an executor runs them against /repo's working tree and an explicit oracle (reference model / history invariants) judges them; concurrent code runs inside testing/synctest bubbles (fake clock, durable-block detection); ./check (python) builds, shards, maps exit codes, merges evidence",
    }],
    "checks": checks,
    "not_applicable": na,
    "notes": "Driver: ./check <id> quick|thorough|--replay <file>. VERIF_SEED selects the rapid seed (0 is remapped). exit 2 = inconclusive (build failure/deadline), never reported as a violation. Known findings: /verif/known_findings.json.",
}
json.dump(m, open("/verif/MANIFEST.json", "w"), indent=1)
print("MANIFEST.json:", len(checks), "checks,", len(na), "not_applicable")
