#!/usr/bin/env python3
"""runmut.py [-j N] [--tier quick] <patch.diff>[:<prop>[,<prop>]] ...
For each patch: scratch worktree of /repo HEAD under /tmp, apply, (1) does it build and do the
repository's own tests of the touched packages still pass? (2) does ./check <prop> quick report a
VIOLATION?  Results are appended to /verif/mutants/results.jsonl. The worktree is removed afterwards.
A patch path like mutants/C04/x.diff implies prop C04; seeded/<id>/patch.diff reads meta.json."""
import concurrent.futures as cf, json, os, re, shutil, subprocess, sys, tempfile, time

GO = shutil.which("go1.26.8")
ENV = dict(os.environ, GOFLAGS="-mod=mod", GOPROXY="off", GOSUMDB="off", GOTOOLCHAIN="local")

def props_for(path):
    if ":" in path:
        path, ps = path.split(":", 1)
        return path, ps.split(",")
    d = os.path.dirname(os.path.abspath(path))
    meta = os.path.join(d, "meta.json")
    if os.path.exists(meta):
        m = json.load(open(meta))
        p = m.get("property") or m.get("properties")
        return path, ([p] if isinstance(p, str) else list(p))
    return path, [os.path.basename(d)]

def one(arg, tier):
    path, props = props_for(arg)
    path = os.path.abspath(path)
    wt = tempfile.mkdtemp(prefix="mut-", dir="/tmp"); os.rmdir(wt)
    subprocess.check_call(["git", "-C", "/repo", "worktree", "add", "-q", "--detach", wt, "HEAD"])
    res = {"patch": os.path.relpath(path, "/verif"), "props": props, "tier": tier}
    try:
        a = subprocess.run(["git", "-C", wt, "apply", path], capture_output=True, text=True)
        if a.returncode != 0:
            res["error"] = "apply failed: " + a.stderr[-300:]
            return res
        files = subprocess.check_output(["git", "-C", wt, "diff", "--name-only"], text=True).split()
        pkgs = sorted({"./" + os.path.dirname(f) for f in files if f.endswith(".go")})
        t0 = time.time()
        tp = subprocess.run(["go", "test", "-vet=off", "-count=1", "./..."], cwd=wt, env=ENV, capture_output=True, text=True)
        fails = [l for l in re.findall(r"^--- FAIL: (\S+)", tp.stdout, re.M) if l != "TestJitterTicker"]
        buildfail = "[build failed]" in tp.stdout or "[setup failed]" in tp.stdout
        res["repo_tests_pass"] = not fails and not buildfail  # TestJitterTicker fails on the pinned tree (BASELINE always_fail)
        res["repo_tests_failed"] = fails[:5]
        if not res["repo_tests_pass"]:
            res["repo_tests_tail"] = (tp.stdout + tp.stderr)[-600:]
        res["checks"] = {}
        for p in props:
            evd = tempfile.mkdtemp(prefix="mutev-", dir="/tmp")
            env = dict(ENV, VERIF_REPO=wt, VERIF_EVIDENCE_DIR=evd, VERIF_REPLAYS_DIR=os.path.join(evd, "replays"))
            t1 = time.time()
            c = subprocess.run(["/verif/check", p, tier], env=env, capture_output=True, text=True)
            viol = re.findall(r"^VIOLATION .*$", c.stdout, re.M)
            res["checks"][p] = {"rc": c.returncode, "wall_s": round(time.time() - t1, 1),
                                "violation": viol[:2], "tail": c.stdout[-1500:] if c.returncode != 0 else ""}
            shutil.rmtree(evd, ignore_errors=True)
        return res
    finally:
        subprocess.call(["git", "-C", "/repo", "worktree", "remove", "--force", wt], stderr=subprocess.DEVNULL)
        shutil.rmtree(wt, ignore_errors=True)

def main():
    args = sys.argv[1:]
    j, tier, verbose = 4, "quick", False
    while args and args[0].startswith("-"):
        if args[0] == "-j": j = int(args[1]); args = args[2:]
        elif args[0] == "--tier": tier = args[1]; args = args[2:]
        elif args[0] == "-v": verbose = True; args = args[1:]
        else: sys.exit("bad flag " + args[0])
    with cf.ThreadPoolExecutor(j) as ex:
        for r in ex.map(lambda a: one(a, tier), args):
            with open("/verif/mutants/results.jsonl", "a") as f:
                f.write(json.dumps(r) + "\n")
            if "error" in r:
                print("ERROR  %s: %s" % (r["patch"], r["error"])); continue
            for p, c in r["checks"].items():
                st = {1: "CAUGHT", 0: "MISSED", 2: "INCONCLUSIVE"}.get(c["rc"], "rc=%s" % c["rc"])
                print("%-12s %-45s %s  repo-tests:%s  %.0fs" % (st, r["patch"], p, "pass" if r["repo_tests_pass"] else "FAIL", c["wall_s"]))
                if verbose or c["rc"] == 2:
                    print(c["tail"])
main()
