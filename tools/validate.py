#!/opt/veriftools/pyvenv/bin/python
import json, jsonschema, glob, sys
jsonschema.validate(json.load(open('/verif/MANIFEST.json')), json.load(open('/root/.vp/MANIFEST.schema.json')))
es = json.load(open('/root/.vp/EVIDENCE.schema.json'))
for f in sorted(glob.glob('/verif/evidence/*.json')):
    jsonschema.validate(json.load(open(f)), es)
    d = json.load(open(f))
    print(f, 'ok', d['tier'], 'evals', d['coverage'].get('evaluations'), 'nontrivial', d['coverage'].get('distinct_nontrivial'), 'wall', d['wall_s'])
print('manifest valid')
