#!/usr/bin/env python3
"""revertfix.py [-j N]: for every "fixed" entry of known_findings.json, undo that fix: commit in a scratch
worktree of /repo HEAD and run the quick tier of the entry's property against it. The defect is back, so the
check has to report a VIOLATION (a fixed entry suppresses nothing). Prints one line per entry and writes
/verif/mutants/revert_results.json."""
import json, os, subprocess, sys, tempfile, concurrent.futures as cf

V = "/verif"
ENV = dict(os.environ, GOFLAGS="-mod=mod", GOPROXY="off", GOSUMDB="off", GOTOOLCHAIN="local")


def run(entry):
    wt = tempfile.mkdtemp(prefix="revfix-", dir="/tmp")
    os.rmdir(wt)
    ev = tempfile.mkdtemp(prefix="revev-", dir="/tmp")
    try:
        subprocess.run(["git", "-C", "/repo", "worktree", "add", "-q", "--detach", wt, "HEAD"], check=True)
        diff = subprocess.run(["git", "-C", "/repo", "show", "--format=", entry["commit"], "--", ".", ":(exclude)*_test.go"], capture_output=True, text=True).stdout
        p = subprocess.run(["git", "-C", wt, "apply", "-R", "--3way", "-"], input=diff, capture_output=True, text=True)
        if p.returncode != 0:
            return entry["id"], "cannot-revert", p.stderr.strip().splitlines()[-1:]
        b = subprocess.run(["go", "build", "./..."], cwd=wt, env=ENV, capture_output=True, text=True)
        if b.returncode != 0:
            return entry["id"], "does-not-build", b.stderr.strip().splitlines()[:1]
        env = dict(os.environ, VERIF_REPO=wt, VERIF_EVIDENCE_DIR=ev, VERIF_REPLAYS_DIR=ev + "/replays")
        c = subprocess.run([V + "/check", entry["property"], "quick"], env=env, capture_output=True, text=True)
        viol = [l for l in c.stdout.splitlines() if l.startswith("VIOLATION")]
        return entry["id"], ("caught" if viol else "MISSED"), viol[:1]
    finally:
        subprocess.run(["git", "-C", "/repo", "worktree", "remove", "--force", wt], capture_output=True)
        subprocess.run(["rm", "-rf", ev, wt])


def main():
    j = int(sys.argv[sys.argv.index("-j") + 1]) if "-j" in sys.argv else 3
    entries = [e for e in json.load(open(V + "/known_findings.json")) if e.get("status") == "fixed"]
    res = {}
    with cf.ThreadPoolExecutor(j) as ex:
        for i, st, info in ex.map(run, entries):
            res[i] = st
            print(i, st, (info[0][:160] if info else ""), flush=True)
    json.dump(res, open(V + "/mutants/revert_results.json", "w"), indent=1, sort_keys=True)


if __name__ == "__main__":
    main()
