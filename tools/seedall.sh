#!/bin/bash
# seedall.sh Cxx [tier]: confirm and check every change a seeding agent left under /tmp/seed/Cxx/out/*
p=$1; tier=${2:-quick}
for d in /tmp/seed/$p/out/*/; do
  k=$(basename $d)
  [ -f $d/patch.diff ] || continue
  echo "== $p/$k"
  /verif/tools/seedcheck.py $p $d ${p}-agent-$k --tier $tier 2>&1 | python3 -c "
import sys,json
t=sys.stdin.read()
try:
    m=json.loads(t[t.index('{'):])
    c=m.get('checks',{})
    print('  confirmed=%s (demo ok w/o patch=%s, repo tests pass=%s, demo fails with patch=%s) files=%s' % (m.get('confirmed'), m.get('demo_passes_without_patch'), m.get('repo_tests_pass_with_patch'), m.get('demo_fails_with_patch'), m.get('files')))
    for k,v in c.items(): print('  check %s: %s rc=%s %ss %s %s' % (k, 'CAUGHT' if v['caught'] else 'MISSED', v['rc'], v['wall_s'], (v['violation'] or [''])[0][:200], (v['inconclusive'] or [''])[0][:200]))
    if m.get('error'): print('  error', m['error'])
except Exception as e:
    print('  unparsable:', e, t[-500:])
"
done
